// vt-facts: rustc_private driver that dumps a typed structured IR (TSIR) of every
// workspace crate as JSON. Injected with RUSTC_WORKSPACE_WRAPPER under
// `cargo +nightly check`. Output: $VT_FACTS_DIR/<crate>-<kind>-<pid>.json, one
// write per process.
#![feature(rustc_private)]
#![allow(clippy::all)]

extern crate rustc_abi;
extern crate rustc_ast;
extern crate rustc_driver;
extern crate rustc_hir;
extern crate rustc_infer;
extern crate rustc_interface;
extern crate rustc_middle;
extern crate rustc_session;
extern crate rustc_span;
extern crate rustc_trait_selection;

use rustc_driver::{Callbacks, Compilation};
use rustc_hir as hir;
use rustc_hir::def::{DefKind, Res};
use rustc_hir::def_id::{DefId, LocalDefId};
use rustc_hir::definitions::DefPathData;
use rustc_hir::{ExprKind, LoopSource, MatchSource, PatKind, QPath, StmtKind};
use rustc_infer::infer::TyCtxtInferExt;
use rustc_interface::interface::Compiler;
use rustc_middle::ty::print::{with_crate_prefix, with_no_trimmed_paths};
use rustc_middle::ty::{self, Ty, TyCtxt, TypeckResults};
use rustc_span::{ExpnKind, Span, SyntaxContext};
use rustc_trait_selection::infer::InferCtxtExt;
use std::collections::HashMap;
use std::fmt::Write as _;

// ---------------------------------------------------------------- JSON helpers

fn jstr(out: &mut String, s: &str) {
    out.push('"');
    for c in s.chars() {
        match c {
            '"' => out.push_str("\\\""),
            '\\' => out.push_str("\\\\"),
            '\n' => out.push_str("\\n"),
            '\r' => out.push_str("\\r"),
            '\t' => out.push_str("\\t"),
            c if (c as u32) < 0x20 => {
                let _ = write!(out, "\\u{:04x}", c as u32);
            }
            c => out.push(c),
        }
    }
    out.push('"');
}

struct Obj<'a> {
    out: &'a mut String,
    first: bool,
}
impl<'a> Obj<'a> {
    fn new(out: &'a mut String) -> Self {
        out.push('{');
        Obj { out, first: true }
    }
    fn key(&mut self, k: &str) {
        if !self.first {
            self.out.push(',');
        }
        self.first = false;
        jstr(self.out, k);
        self.out.push(':');
    }
    fn s(&mut self, k: &str, v: &str) {
        self.key(k);
        jstr(self.out, v);
    }
    fn n(&mut self, k: &str, v: i128) {
        self.key(k);
        let _ = write!(self.out, "{}", v);
    }
    fn b(&mut self, k: &str, v: bool) {
        self.key(k);
        self.out.push_str(if v { "true" } else { "false" });
    }
    fn raw(&mut self, k: &str, v: &str) {
        self.key(k);
        self.out.push_str(v);
    }
    fn end(self) {
        self.out.push('}');
    }
}

fn jarr(items: &[String]) -> String {
    let mut s = String::from("[");
    for (i, it) in items.iter().enumerate() {
        if i > 0 {
            s.push(',');
        }
        s.push_str(it);
    }
    s.push(']');
    s
}

fn jq(s: &str) -> String {
    let mut o = String::new();
    jstr(&mut o, s);
    o
}

// ---------------------------------------------------------------- interner

#[derive(Default)]
struct Interner {
    map: HashMap<String, usize>,
    list: Vec<String>,
}
impl Interner {
    fn get(&mut self, s: &str) -> usize {
        if let Some(i) = self.map.get(s) {
            return *i;
        }
        let i = self.list.len();
        self.list.push(s.to_string());
        self.map.insert(s.to_string(), i);
        i
    }
}

// ---------------------------------------------------------------- dumper

struct Dumper<'tcx> {
    tcx: TyCtxt<'tcx>,
    strs: Interner,
    qn_cache: HashMap<DefId, String>,
}

struct BodyCx<'a, 'tcx> {
    typeck: &'tcx TypeckResults<'tcx>,
    owner: LocalDefId,
    _p: std::marker::PhantomData<&'a ()>,
}

impl<'tcx> Dumper<'tcx> {
    /// print with full paths; local items get the crate name instead of `crate::`
    fn pr(&self, f: impl FnOnce() -> String) -> String {
        let s = with_crate_prefix!(with_no_trimmed_paths!(f()));
        if s.contains("crate::") {
            let cn = self.tcx.crate_name(rustc_hir::def_id::LOCAL_CRATE).to_string();
            let mut out = String::new();
            let mut rest = s.as_str();
            while let Some(i) = rest.find("crate::") {
                let prev_ok = i == 0 || !rest.as_bytes()[i - 1].is_ascii_alphanumeric() && rest.as_bytes()[i - 1] != b'_' && rest.as_bytes()[i - 1] != b'$';
                out.push_str(&rest[..i]);
                if prev_ok {
                    out.push_str(&cn);
                    out.push_str("::");
                } else {
                    out.push_str("crate::");
                }
                rest = &rest[i + 7..];
            }
            out.push_str(rest);
            out
        } else {
            s
        }
    }

    fn ty_str(&mut self, t: Ty<'tcx>) -> usize {
        let s = self.pr(|| t.to_string());
        self.strs.get(&s)
    }

    /// canonical path: crate + def path (with impl#N disambiguators)
    fn dp(&self, did: DefId) -> String {
        let tcx = self.tcx;
        format!("{}{}", tcx.crate_name(did.krate), tcx.def_path(did).to_string_no_crate_verbose())
    }

    /// readable qualified name: impls rendered as `<Self as Trait>` / `Adt`
    fn qn(&mut self, did: DefId) -> String {
        if let Some(s) = self.qn_cache.get(&did) {
            return s.clone();
        }
        let tcx = self.tcx;
        let key = tcx.def_key(did);
        let s = match key.disambiguated_data.data {
            DefPathData::CrateRoot => tcx.crate_name(did.krate).to_string(),
            DefPathData::Impl => {
                let self_ty = tcx.type_of(did).instantiate_identity().skip_norm_wip();
                let self_s = match self_ty.kind() {
                    ty::Adt(adt, _) => self.qn(adt.did()),
                    _ => self.pr(|| self_ty.to_string()),
                };
                match tcx.impl_opt_trait_ref(did) {
                    Some(tr) => {
                        let tr = tr.instantiate_identity().skip_norm_wip();
                        let ts = self.trait_path(tr);
                        format!("<{} as {}>", self_s, ts)
                    }
                    None => self_s,
                }
            }
            data => {
                let parent = DefId { krate: did.krate, index: key.parent.unwrap() };
                let ps = self.qn(parent);
                let name = match data {
                    DefPathData::Closure => format!("{{closure#{}}}", key.disambiguated_data.disambiguator),
                    d => match d.get_opt_name() {
                        Some(n) => n.to_string(),
                        None => format!("{{{:?}#{}}}", d, key.disambiguated_data.disambiguator),
                    },
                };
                format!("{}::{}", ps, name)
            }
        };
        self.qn_cache.insert(did, s.clone());
        s
    }

    fn trait_path(&mut self, tr: ty::TraitRef<'tcx>) -> String {
        let base = self.qn(tr.def_id);
        let rest: Vec<String> = tr.args.iter().skip(1).map(|a| self.pr(|| a.to_string())).collect();
        if rest.is_empty() {
            base
        } else {
            format!("{}<{}>", base, rest.join(", "))
        }
    }

    fn def_ref(&mut self, o: &mut Obj, prefix: &str, did: DefId) {
        let q = self.qn(did);
        let qi = self.strs.get(&q);
        o.n(&format!("{}q", prefix), qi as i128);
        let d = self.dp(did);
        let di = self.strs.get(&d);
        o.n(&format!("{}d", prefix), di as i128);
    }

    fn span_info(&mut self, o: &mut Obj, sp: Span, parent_ctxt: SyntaxContext) -> SyntaxContext {
        let tcx = self.tcx;
        let sm = tcx.sess.source_map();
        let ctxt = sp.ctxt();
        let user_sp = if sp.from_expansion() { sp.source_callsite() } else { sp };
        let lo = sm.lookup_char_pos(user_sp.lo());
        let hi = sm.lookup_char_pos(user_sp.hi());
        let fname = format!("{}", lo.file.name.prefer_local_unconditionally());
        let fi = self.strs.get(&fname);
        o.raw("s", &format!("[{},{},{}]", fi, lo.line, hi.line));
        if ctxt != parent_ctxt && sp.from_expansion() {
            // macro backtrace, innermost first
            let mut names: Vec<String> = vec![];
            let mut cur = sp;
            let mut guard = 0;
            while cur.from_expansion() && guard < 16 {
                let ed = cur.ctxt().outer_expn_data();
                match ed.kind {
                    ExpnKind::Macro(_, name) => names.push(name.to_string()),
                    ExpnKind::Desugaring(k) => names.push(format!("desugar:{:?}", k)),
                    ExpnKind::AstPass(p) => names.push(format!("astpass:{:?}", p)),
                    ExpnKind::Root => {}
                }
                cur = ed.call_site;
                guard += 1;
            }
            let chain = names.join("<");
            let ci = self.strs.get(&chain);
            o.n("m", ci as i128);
            // source snippet of the outermost call site for real macros
            if names.iter().any(|n| !n.starts_with("desugar:")) {
                if let Ok(snip) = sm.span_to_snippet(user_sp) {
                    let snip: String = snip.chars().take(1500).collect();
                    o.s("src", &snip);
                }
            }
        }
        if ctxt != parent_ctxt && !sp.from_expansion() {
            o.b("um", true);
        }
        ctxt
    }

    fn res_json(&mut self, cx: &BodyCx<'_, 'tcx>, o: &mut Obj, res: Res, hir_id: hir::HirId) {
        match res {
            Res::Local(hid) => {
                o.s("r", "local");
                let name = self.tcx.hir_name(hid).to_string();
                o.s("name", &name);
                o.n("hid", hid.local_id.as_u32() as i128);
            }
            Res::Def(kind, did) => {
                o.s("r", "def");
                o.s("dk", &format!("{:?}", kind));
                self.def_ref(o, "", did);
                let args = cx.typeck.node_args(hir_id);
                if !args.is_empty() {
                    let s = self.pr(|| format!("{:?}", args));
                    let si = self.strs.get(&s);
                    o.n("ga", si as i128);
                }
                if matches!(kind, DefKind::Fn | DefKind::AssocFn) {
                    self.resolve_instance(cx, o, did, args);
                }
            }
            Res::SelfCtor(did) | Res::SelfTyAlias { alias_to: did, .. } => {
                o.s("r", "selfctor");
                self.def_ref(o, "", did);
            }
            other => {
                o.s("r", &format!("{:?}", other));
            }
        }
    }

    fn resolve_instance(
        &mut self,
        cx: &BodyCx<'_, 'tcx>,
        o: &mut Obj,
        did: DefId,
        args: ty::GenericArgsRef<'tcx>,
    ) {
        let tcx = self.tcx;
        // only trait methods need resolving
        if tcx.trait_of_assoc(did).is_none() {
            return;
        }
        if args.len() != tcx.generics_of(did).count() {
            return;
        }
        let typing_env = ty::TypingEnv::post_analysis(tcx, cx.owner);
        let Ok(args) = tcx.try_normalize_erasing_regions(typing_env, ty::Unnormalized::new_wip(args)) else {
            return;
        };
        let r = std::panic::catch_unwind(std::panic::AssertUnwindSafe(|| {
            ty::Instance::try_resolve(tcx, typing_env, did, args)
        }));
        if let Ok(Ok(Some(inst))) = r {
            match inst.def {
                ty::InstanceKind::Item(d) => {
                    if d != did {
                        self.def_ref(o, "rv", d);
                    }
                }
                ty::InstanceKind::Virtual(..) => {
                    o.b("dyn", true);
                }
                _ => {}
            }
        }
    }

    fn qpath_res(&self, cx: &BodyCx<'_, 'tcx>, qp: &QPath<'tcx>, hir_id: hir::HirId) -> Res {
        cx.typeck.qpath_res(qp, hir_id)
    }

    // ---------------------------------------------------------------- patterns

    fn pat(&mut self, cx: &BodyCx<'_, 'tcx>, p: &hir::Pat<'tcx>) -> String {
        let mut out = String::new();
        let mut o = Obj::new(&mut out);
        match p.kind {
            PatKind::Wild | PatKind::Missing | PatKind::Never => o.s("k", "wild"),
            PatKind::Binding(mode, hid, ident, sub) => {
                o.s("k", "bind");
                o.s("name", ident.as_str());
                o.n("hid", hid.local_id.as_u32() as i128);
                o.s("mode", &format!("{:?}", mode));
                let t = cx.typeck.node_type(p.hir_id);
                let ti = self.ty_str(t);
                o.n("t", ti as i128);
                if let Some(sp) = sub {
                    let s = self.pat(cx, sp);
                    o.raw("sub", &s);
                }
            }
            PatKind::Struct(ref qp, fields, _) => {
                o.s("k", "struct");
                let res = self.qpath_res(cx, qp, p.hir_id);
                if let Res::Def(_, did) = res {
                    self.def_ref(&mut o, "", did);
                }
                let fs: Vec<String> = fields
                    .iter()
                    .map(|f| format!("{{\"name\":{},\"p\":{}}}", jq(f.ident.as_str()), self.pat(cx, f.pat)))
                    .collect();
                o.raw("fields", &jarr(&fs));
            }
            PatKind::TupleStruct(ref qp, pats, _) => {
                o.s("k", "tstruct");
                let res = self.qpath_res(cx, qp, p.hir_id);
                if let Res::Def(_, did) = res {
                    self.def_ref(&mut o, "", did);
                }
                let ps: Vec<String> = pats.iter().map(|x| self.pat(cx, x)).collect();
                o.raw("ps", &jarr(&ps));
            }
            PatKind::Or(pats) => {
                o.s("k", "or");
                let ps: Vec<String> = pats.iter().map(|x| self.pat(cx, x)).collect();
                o.raw("ps", &jarr(&ps));
            }
            PatKind::Tuple(pats, _) => {
                o.s("k", "tuple");
                let ps: Vec<String> = pats.iter().map(|x| self.pat(cx, x)).collect();
                o.raw("ps", &jarr(&ps));
            }
            PatKind::Box(sub) | PatKind::Deref(sub) | PatKind::Ref(sub, _, _) => {
                o.s("k", "ref");
                let s = self.pat(cx, sub);
                o.raw("p", &s);
            }
            PatKind::Expr(pe) => {
                o.s("k", "expr");
                let s = self.pat_expr(cx, pe);
                o.raw("e", &s);
            }
            PatKind::Guard(sub, g) => {
                o.s("k", "guard");
                let s = self.pat(cx, sub);
                o.raw("p", &s);
                let gs = self.expr(cx, g, SyntaxContext::root());
                o.raw("g", &gs);
            }
            PatKind::Range(lo, hi, end) => {
                o.s("k", "range");
                if let Some(lo) = lo {
                    let s = self.pat_expr(cx, lo);
                    o.raw("lo", &s);
                }
                if let Some(hi) = hi {
                    let s = self.pat_expr(cx, hi);
                    o.raw("hi", &s);
                }
                o.s("end", &format!("{:?}", end));
            }
            PatKind::Slice(a, m, b) => {
                o.s("k", "slice");
                let pa: Vec<String> = a.iter().map(|x| self.pat(cx, x)).collect();
                o.raw("before", &jarr(&pa));
                if let Some(m) = m {
                    let s = self.pat(cx, m);
                    o.raw("mid", &s);
                }
                let pb: Vec<String> = b.iter().map(|x| self.pat(cx, x)).collect();
                o.raw("after", &jarr(&pb));
            }
            PatKind::Err(_) => o.s("k", "err"),
        }
        o.end();
        out
    }

    fn pat_expr(&mut self, cx: &BodyCx<'_, 'tcx>, pe: &hir::PatExpr<'tcx>) -> String {
        let mut out = String::new();
        let mut o = Obj::new(&mut out);
        match pe.kind {
            hir::PatExprKind::Lit { lit, negated } => {
                o.s("k", "lit");
                self.lit(&mut o, &lit, negated);
            }
            hir::PatExprKind::Path(ref qp) => {
                o.s("k", "path");
                let res = self.qpath_res(cx, qp, pe.hir_id);
                self.res_json(cx, &mut o, res, pe.hir_id);
            }
        }
        o.end();
        out
    }

    fn lit(&mut self, o: &mut Obj, lit: &hir::Lit, negated: bool) {
        use rustc_ast::LitKind;
        match &lit.node {
            LitKind::Str(sym, _) => {
                o.s("lk", "str");
                o.s("v", sym.as_str());
            }
            LitKind::ByteStr(bytes, _) | LitKind::CStr(bytes, _) => {
                o.s("lk", "bytes");
                let s: String = bytes.as_byte_str().iter().map(|b| format!("{:02x}", b)).collect();
                o.s("v", &s);
            }
            LitKind::Byte(b) => {
                o.s("lk", "int");
                o.n("v", *b as i128);
            }
            LitKind::Char(c) => {
                o.s("lk", "char");
                o.s("v", &c.to_string());
                o.n("cp", *c as u32 as i128);
            }
            LitKind::Int(n, _) => {
                o.s("lk", "int");
                let v = n.get() as i128;
                o.n("v", if negated { -v } else { v });
            }
            LitKind::Float(sym, _) => {
                o.s("lk", "float");
                let s = if negated { format!("-{}", sym.as_str()) } else { sym.as_str().to_string() };
                o.s("v", &s);
            }
            LitKind::Bool(b) => {
                o.s("lk", "bool");
                o.b("v", *b);
            }
            LitKind::Err(_) => {
                o.s("lk", "err");
            }
        }
    }

    // ---------------------------------------------------------------- expressions

    fn exprs(&mut self, cx: &BodyCx<'_, 'tcx>, es: &[hir::Expr<'tcx>], pc: SyntaxContext) -> String {
        let v: Vec<String> = es.iter().map(|e| self.expr(cx, e, pc)).collect();
        jarr(&v)
    }

    fn block(&mut self, cx: &BodyCx<'_, 'tcx>, b: &hir::Block<'tcx>, pc: SyntaxContext) -> String {
        let mut out = String::new();
        let mut o = Obj::new(&mut out);
        o.s("k", "block");
        let c = self.span_info(&mut o, b.span, pc);
        if matches!(b.rules, hir::BlockCheckMode::UnsafeBlock(_)) {
            o.b("unsafe", true);
        }
        let mut stmts: Vec<String> = vec![];
        for st in b.stmts {
            match st.kind {
                StmtKind::Let(l) => {
                    let mut so = String::new();
                    let mut lo = Obj::new(&mut so);
                    lo.s("k", "let");
                    let lc = self.span_info(&mut lo, l.span, c);
                    let p = self.pat(cx, l.pat);
                    lo.raw("pat", &p);
                    if l.ty.is_some() {
                        lo.b("ann", true);
                    }
                    if let Some(init) = l.init {
                        let e = self.expr(cx, init, lc);
                        lo.raw("init", &e);
                    }
                    if let Some(els) = l.els {
                        let e = self.block(cx, els, lc);
                        lo.raw("els", &e);
                    }
                    lo.end();
                    stmts.push(so);
                }
                StmtKind::Item(_) => {}
                StmtKind::Expr(e) => {
                    stmts.push(self.expr(cx, e, c));
                }
                StmtKind::Semi(e) => {
                    let s = self.expr(cx, e, c);
                    stmts.push(format!("{{\"k\":\"semi\",\"e\":{}}}", s));
                }
            }
        }
        o.raw("stmts", &jarr(&stmts));
        if let Some(e) = b.expr {
            let s = self.expr(cx, e, c);
            o.raw("tail", &s);
        }
        o.end();
        out
    }

    fn peel<'a>(&self, e: &'a hir::Expr<'tcx>) -> &'a hir::Expr<'tcx> {
        let mut e = e;
        loop {
            match e.kind {
                ExprKind::DropTemps(inner) | ExprKind::Use(inner, _) => e = inner,
                _ => return e,
            }
        }
    }

    fn expr(&mut self, cx: &BodyCx<'_, 'tcx>, e: &hir::Expr<'tcx>, pc: SyntaxContext) -> String {
        let e = self.peel(e);
        let mut out = String::new();
        let mut o = Obj::new(&mut out);
        let tcx = self.tcx;

        // ---- desugarings collapsed first
        match e.kind {
            ExprKind::Match(scrut, arms, MatchSource::TryDesugar(_)) => {
                if let ExprKind::Call(_, [inner]) = scrut.kind {
                    o.s("k", "try");
                    let c = self.span_info(&mut o, e.span, pc);
                    let _ = c;
                    let t = cx.typeck.expr_ty(e);
                    let ti = self.ty_str(t);
                    o.n("t", ti as i128);
                    // the operand belongs to user code: reset ctxt to parent's
                    let s = self.expr(cx, inner, pc);
                    o.raw("e", &s);
                    let _ = arms;
                    o.end();
                    return out;
                }
            }
            ExprKind::Match(scrut, _arms, MatchSource::AwaitDesugar) => {
                if let ExprKind::Call(_, [inner]) = scrut.kind {
                    o.s("k", "await");
                    self.span_info(&mut o, e.span, pc);
                    let t = cx.typeck.expr_ty(e);
                    let ti = self.ty_str(t);
                    o.n("t", ti as i128);
                    let s = self.expr(cx, inner, pc);
                    o.raw("e", &s);
                    o.end();
                    return out;
                }
            }
            ExprKind::Match(scrut, [arm], MatchSource::ForLoopDesugar) => {
                // match IntoIterator::into_iter(iter) { mut iter => loop { match next(&mut iter) { None => break, Some(pat) => body } } }
                if let ExprKind::Call(_, [iter_e]) = scrut.kind {
                    if let ExprKind::Loop(lb, _, LoopSource::ForLoop, _) = self.peel(arm.body).kind {
                        let inner = lb.expr.or_else(|| {
                            lb.stmts.first().and_then(|s| match s.kind {
                                StmtKind::Expr(x) | StmtKind::Semi(x) => Some(x),
                                _ => None,
                            })
                        });
                        if let Some(inner) = inner {
                            if let ExprKind::Match(_, [_none, some], MatchSource::ForLoopDesugar) = self.peel(inner).kind {
                                let some_pat: Option<&hir::Pat<'tcx>> = match some.pat.kind {
                                    PatKind::TupleStruct(_, [p], _) => Some(p),
                                    PatKind::Struct(_, [f], _) => Some(f.pat),
                                    _ => None,
                                };
                                if let Some(p) = some_pat {
                                    o.s("k", "for");
                                    self.span_info(&mut o, e.span, pc);
                                    let ps = self.pat(cx, p);
                                    o.raw("pat", &ps);
                                    let is = self.expr(cx, iter_e, pc);
                                    o.raw("iter", &is);
                                    let bs = self.expr(cx, some.body, pc);
                                    o.raw("body", &bs);
                                    o.end();
                                    return out;
                                }
                            }
                        }
                    }
                }
            }
            ExprKind::Loop(lb, _, LoopSource::While, _) => {
                // loop { if cond { body } else { break } }
                if let Some(inner) = lb.expr {
                    if let ExprKind::If(c, then, _) = self.peel(inner).kind {
                        o.s("k", "while");
                        self.span_info(&mut o, e.span, pc);
                        let cs = self.expr(cx, c, pc);
                        o.raw("c", &cs);
                        let bs = self.expr(cx, then, pc);
                        o.raw("body", &bs);
                        o.end();
                        return out;
                    }
                }
            }
            _ => {}
        }

        let kind_name = match e.kind {
            ExprKind::Block(b, _) => {
                // blocks are emitted by `block`
                drop(o);
                return self.block(cx, b, pc);
            }
            _ => "",
        };
        let _ = kind_name;

        let t = cx.typeck.expr_ty(e);
        let c;
        macro_rules! head {
            ($k:expr) => {{
                o.s("k", $k);
                c = self.span_info(&mut o, e.span, pc);
                let ti = self.ty_str(t);
                o.n("t", ti as i128);
                let ta = cx.typeck.expr_ty_adjusted(e);
                if ta != t {
                    let tai = self.ty_str(ta);
                    o.n("ta", tai as i128);
                    // overloaded deref adjustments (auto-deref through guards, Arc, Box<dyn>)
                    let adjs = cx.typeck.expr_adjustments(e);
                    let mut od: Vec<String> = vec![];
                    let mut cur = t;
                    for a in adjs {
                        if let ty::adjustment::Adjust::Deref(ty::adjustment::DerefAdjustKind::Overloaded(_)) = a.kind {
                            od.push(jq(&self.pr(|| cur.to_string())));
                        }
                        cur = a.target;
                    }
                    if !od.is_empty() {
                        o.raw("oderef", &jarr(&od));
                    }
                }
            }};
        }

        match e.kind {
            ExprKind::ConstBlock(_) => {
                head!("constblock");
            }
            ExprKind::Array(es) => {
                head!("array");
                let s = self.exprs(cx, es, c);
                o.raw("es", &s);
            }
            ExprKind::Tup(es) => {
                head!("tup");
                let s = self.exprs(cx, es, c);
                o.raw("es", &s);
            }
            ExprKind::Repeat(v, _) => {
                head!("repeat");
                let s = self.expr(cx, v, c);
                o.raw("e", &s);
            }
            ExprKind::Call(f, args) => {
                head!("call");
                let fp = self.peel(f);
                let mut done = false;
                if let ExprKind::Path(ref qp) = fp.kind {
                    let res = self.qpath_res(cx, qp, fp.hir_id);
                    if let Res::Def(kind, did) = res {
                        done = true;
                        o.s("dk", &format!("{:?}", kind));
                        self.def_ref(&mut o, "", did);
                        let ga = cx.typeck.node_args(fp.hir_id);
                        if !ga.is_empty() {
                            let s = self.pr(|| format!("{:?}", ga));
                            let si = self.strs.get(&s);
                            o.n("ga", si as i128);
                        }
                        if matches!(kind, DefKind::Fn | DefKind::AssocFn) {
                            self.resolve_instance(cx, &mut o, did, ga);
                        }
                    } else if let Res::SelfCtor(did) = res {
                        done = true;
                        o.s("dk", "SelfCtor");
                        self.def_ref(&mut o, "", did);
                    }
                }
                if !done {
                    let fs = self.expr(cx, f, c);
                    o.raw("f", &fs);
                }
                let s = self.exprs(cx, args, c);
                o.raw("a", &s);
            }
            ExprKind::MethodCall(seg, recv, args, _) => {
                head!("mcall");
                o.s("name", seg.ident.as_str());
                if let Some(did) = cx.typeck.type_dependent_def_id(e.hir_id) {
                    self.def_ref(&mut o, "", did);
                    let ga = cx.typeck.node_args(e.hir_id);
                    if !ga.is_empty() {
                        let s = self.pr(|| format!("{:?}", ga));
                        let si = self.strs.get(&s);
                        o.n("ga", si as i128);
                    }
                    self.resolve_instance(cx, &mut o, did, ga);
                }
                let rs = self.expr(cx, recv, c);
                o.raw("recv", &rs);
                let s = self.exprs(cx, args, c);
                o.raw("a", &s);
            }
            ExprKind::Binary(op, l, r) => {
                head!("bin");
                o.s("op", op.node.as_str());
                if let Some(did) = cx.typeck.type_dependent_def_id(e.hir_id) {
                    self.def_ref(&mut o, "", did);
                }
                let ls = self.expr(cx, l, c);
                o.raw("l", &ls);
                let rs = self.expr(cx, r, c);
                o.raw("r", &rs);
            }
            ExprKind::Unary(op, x) => {
                head!("un");
                o.s("op", match op {
                    hir::UnOp::Deref => "*",
                    hir::UnOp::Not => "!",
                    hir::UnOp::Neg => "-",
                });
                if let Some(did) = cx.typeck.type_dependent_def_id(e.hir_id) {
                    self.def_ref(&mut o, "", did);
                }
                let s = self.expr(cx, x, c);
                o.raw("e", &s);
            }
            ExprKind::Lit(lit) => {
                head!("lit");
                self.lit(&mut o, &lit, false);
            }
            ExprKind::Cast(x, _) | ExprKind::Type(x, _) => {
                head!("cast");
                let s = self.expr(cx, x, c);
                o.raw("e", &s);
            }
            ExprKind::Let(l) => {
                head!("letx");
                let p = self.pat(cx, l.pat);
                o.raw("pat", &p);
                let s = self.expr(cx, l.init, c);
                o.raw("init", &s);
            }
            ExprKind::If(cond, then, els) => {
                head!("if");
                let cs = self.expr(cx, cond, c);
                o.raw("c", &cs);
                let ts = self.expr(cx, then, c);
                o.raw("then", &ts);
                if let Some(x) = els {
                    let es = self.expr(cx, x, c);
                    o.raw("else", &es);
                }
            }
            ExprKind::Loop(b, _, src, _) => {
                head!("loop");
                o.s("lsrc", &format!("{:?}", src));
                let s = self.block(cx, b, c);
                o.raw("body", &s);
            }
            ExprKind::Match(scrut, arms, src) => {
                head!("match");
                o.s("msrc", &format!("{:?}", src));
                let s = self.expr(cx, scrut, c);
                o.raw("e", &s);
                let mut av: Vec<String> = vec![];
                for arm in arms {
                    let mut ao = String::new();
                    let mut a = Obj::new(&mut ao);
                    let p = self.pat(cx, arm.pat);
                    a.raw("pat", &p);
                    if let Some(g) = arm.guard {
                        let gs = self.expr(cx, g, c);
                        a.raw("guard", &gs);
                    }
                    let bs = self.expr(cx, arm.body, c);
                    a.raw("body", &bs);
                    a.end();
                    av.push(ao);
                }
                o.raw("arms", &jarr(&av));
            }
            ExprKind::Closure(cl) => {
                head!("closure");
                let did = cl.def_id.to_def_id();
                self.def_ref(&mut o, "", did);
                o.s("ck", &format!("{:?}", cl.kind));
                o.b("move", matches!(cl.capture_clause, hir::CaptureBy::Value { .. }));
                // captures
                let mut caps: Vec<String> = vec![];
                for cp in cx.typeck.closure_min_captures_flattened(cl.def_id) {
                    let mut co = String::new();
                    let mut cobj = Obj::new(&mut co);
                    cobj.s("place", &cp.to_string(tcx));
                    cobj.s("var", cp.var_ident.as_str());
                    if let rustc_middle::hir::place::PlaceBase::Upvar(up) = cp.place.base {
                        cobj.n("hid", up.var_path.hir_id.local_id.as_u32() as i128);
                    }
                    cobj.s("by", &format!("{:?}", cp.info.capture_kind));
                    let pt = cp.place.ty();
                    let pti = self.ty_str(pt);
                    cobj.n("t", pti as i128);
                    cobj.b("mutbl", cp.mutability == hir::Mutability::Mut);
                    cobj.end();
                    caps.push(co);
                }
                o.raw("caps", &jarr(&caps));
                let body = tcx.hir_body(cl.body);
                let ps: Vec<String> = body.params.iter().map(|p| self.pat(cx, p.pat)).collect();
                o.raw("params", &jarr(&ps));
                let bs = self.expr(cx, body.value, c);
                o.raw("body", &bs);
            }
            ExprKind::Assign(l, r, _) => {
                head!("assign");
                let ls = self.expr(cx, l, c);
                o.raw("l", &ls);
                let rs = self.expr(cx, r, c);
                o.raw("r", &rs);
            }
            ExprKind::AssignOp(op, l, r) => {
                head!("assignop");
                o.s("op", op.node.as_str());
                if let Some(did) = cx.typeck.type_dependent_def_id(e.hir_id) {
                    self.def_ref(&mut o, "", did);
                }
                let ls = self.expr(cx, l, c);
                o.raw("l", &ls);
                let rs = self.expr(cx, r, c);
                o.raw("r", &rs);
            }
            ExprKind::Field(base, ident) => {
                head!("field");
                o.s("name", ident.as_str());
                let bs = self.expr(cx, base, c);
                o.raw("e", &bs);
            }
            ExprKind::Index(base, idx, _) => {
                head!("index");
                if let Some(did) = cx.typeck.type_dependent_def_id(e.hir_id) {
                    self.def_ref(&mut o, "", did);
                } else {
                    o.b("builtin", true);
                }
                let bs = self.expr(cx, base, c);
                o.raw("e", &bs);
                let is = self.expr(cx, idx, c);
                o.raw("i", &is);
            }
            ExprKind::Path(ref qp) => {
                head!("path");
                let res = self.qpath_res(cx, qp, e.hir_id);
                self.res_json(cx, &mut o, res, e.hir_id);
            }
            ExprKind::AddrOf(_, m, x) => {
                head!("ref");
                o.b("mut", m == hir::Mutability::Mut);
                let s = self.expr(cx, x, c);
                o.raw("e", &s);
            }
            ExprKind::Break(_, x) => {
                head!("break");
                if let Some(x) = x {
                    let s = self.expr(cx, x, c);
                    o.raw("e", &s);
                }
            }
            ExprKind::Continue(_) => {
                head!("continue");
            }
            ExprKind::Ret(x) => {
                head!("ret");
                if let Some(x) = x {
                    let s = self.expr(cx, x, c);
                    o.raw("e", &s);
                }
            }
            ExprKind::Become(x) => {
                head!("ret");
                let s = self.expr(cx, x, c);
                o.raw("e", &s);
            }
            ExprKind::Struct(qp, fields, tail) => {
                head!("struct");
                let res = self.qpath_res(cx, qp, e.hir_id);
                match res {
                    Res::Def(_, did) => self.def_ref(&mut o, "", did),
                    Res::SelfTyAlias { .. } | Res::SelfCtor(_) => {
                        // `Self { .. }`: name the ADT, not the impl block
                        if let ty::Adt(adt, _) = t.kind() {
                            self.def_ref(&mut o, "", adt.did());
                        }
                    }
                    _ => {}
                }
                let fs: Vec<String> = fields
                    .iter()
                    .map(|f| format!("{{\"name\":{},\"e\":{}}}", jq(f.ident.as_str()), self.expr(cx, f.expr, c)))
                    .collect();
                o.raw("fields", &jarr(&fs));
                if let hir::StructTailExpr::Base(b) = tail {
                    let s = self.expr(cx, b, c);
                    o.raw("base", &s);
                }
            }
            ExprKind::Yield(x, _) => {
                head!("yield");
                let s = self.expr(cx, x, c);
                o.raw("e", &s);
            }
            ExprKind::InlineAsm(_) => {
                head!("asm");
            }
            ExprKind::OffsetOf(..) => {
                head!("offsetof");
            }
            ExprKind::UnsafeBinderCast(_, x, _) => {
                head!("cast");
                let s = self.expr(cx, x, c);
                o.raw("e", &s);
            }
            ExprKind::Err(_) => {
                head!("err");
            }
            ExprKind::Block(..) | ExprKind::DropTemps(..) | ExprKind::Use(..) => unreachable!(),
        }
        o.end();
        out
    }

    // ---------------------------------------------------------------- items

    fn vis_str(&self, did: DefId) -> String {
        match self.tcx.visibility(did) {
            ty::Visibility::Public => "pub".to_string(),
            ty::Visibility::Restricted(m) => {
                if m.is_crate_root() {
                    "crate".to_string()
                } else {
                    format!("in:{}", self.dp(m))
                }
            }
        }
    }

    fn implements(&self, trait_did: DefId, t: Ty<'tcx>, owner: LocalDefId) -> bool {
        let tcx = self.tcx;
        let infcx = tcx.infer_ctxt().build(ty::TypingMode::non_body_analysis());
        let param_env = tcx.param_env(owner);
        infcx.type_implements_trait(trait_did, [t], param_env).must_apply_modulo_regions()
    }

    fn dump_body(&mut self, def: LocalDefId) -> Option<String> {
        let tcx = self.tcx;
        let kind = tcx.def_kind(def);
        if matches!(kind, DefKind::Closure | DefKind::InlineConst | DefKind::AnonConst) {
            return None; // inlined into their parents
        }
        let body = tcx.hir_body_owned_by(def);
        let typeck = tcx.typeck(def);
        let cx = BodyCx { typeck, owner: def, _p: std::marker::PhantomData };
        let mut out = String::new();
        let mut o = Obj::new(&mut out);
        let did = def.to_def_id();
        self.def_ref(&mut o, "", did);
        o.s("dk", &format!("{:?}", kind));
        if matches!(kind, DefKind::Fn | DefKind::AssocFn) {
            o.s("vis", &self.vis_str(did));
            let sig = tcx.fn_sig(did).instantiate_identity().skip_norm_wip().skip_binder();
            let ins: Vec<String> = sig.inputs().iter().map(|t| format!("{}", self.ty_str(*t))).collect();
            o.raw("in_t", &jarr(&ins));
            let ot = self.ty_str(sig.output());
            o.n("out_t", ot as i128);
            o.b("async", tcx.asyncness(did).is_async());
            if kind == DefKind::AssocFn {
                let ai = tcx.associated_item(did);
                o.b("has_self", ai.is_method());
                let parent = tcx.parent(did);
                if let DefKind::Impl { of_trait } = tcx.def_kind(parent) {
                    let st = tcx.type_of(parent).instantiate_identity().skip_norm_wip();
                    let sti = self.ty_str(st);
                    o.n("self_t", sti as i128);
                    if let ty::Adt(adt, _) = st.kind() {
                        let q = self.qn(adt.did());
                        o.s("self_adt", &q);
                    }
                    if of_trait {
                        let tr = tcx.impl_trait_ref(parent).instantiate_identity().skip_norm_wip();
                        let q = self.qn(tr.def_id);
                        o.s("trait", &q);
                        if let Some(tm) = ai.trait_item_def_id() {
                            let q = self.qn(tm);
                            o.s("trait_item", &q);
                        }
                    }
                } else if tcx.def_kind(parent) == DefKind::Trait {
                    let q = self.qn(parent);
                    o.s("trait_default_of", &q);
                }
            }
        }
        let sm = tcx.sess.source_map();
        let sp = tcx.def_span(did);
        let lo = sm.lookup_char_pos(sp.lo());
        let fname = format!("{}", lo.file.name.prefer_local_unconditionally());
        let fi = self.strs.get(&fname);
        o.raw("s", &format!("[{},{},{}]", fi, lo.line, sm.lookup_char_pos(body.value.span.hi()).line));
        let ps: Vec<String> = body.params.iter().map(|p| self.pat(&cx, p.pat)).collect();
        o.raw("params", &jarr(&ps));
        let bs = self.expr(&cx, body.value, SyntaxContext::root());
        o.raw("body", &bs);
        o.end();
        Some(out)
    }

    fn dump_items(&mut self) -> (Vec<String>, Vec<String>, Vec<String>) {
        let tcx = self.tcx;
        let mut adts = vec![];
        let mut impls = vec![];
        let mut traits = vec![];
        let sync_did = tcx.get_diagnostic_item(rustc_span::sym::Sync);
        let send_did = tcx.get_diagnostic_item(rustc_span::sym::Send);
        let freeze_did = tcx.lang_items().freeze_trait();
        for id in tcx.hir_free_items() {
            let item = tcx.hir_item(id);
            let ldid = item.owner_id.def_id;
            let did = ldid.to_def_id();
            match item.kind {
                hir::ItemKind::Struct(..) | hir::ItemKind::Enum(..) | hir::ItemKind::Union(..) => {
                    let adt = tcx.adt_def(did);
                    let mut out = String::new();
                    let mut o = Obj::new(&mut out);
                    self.def_ref(&mut o, "", did);
                    o.s("kind", if adt.is_enum() { "enum" } else if adt.is_union() { "union" } else { "struct" });
                    o.s("vis", &self.vis_str(did));
                    let mut vs: Vec<String> = vec![];
                    let discrs: Vec<(rustc_abi::VariantIdx, ty::util::Discr<'tcx>)> =
                        if adt.is_enum() { adt.discriminants(tcx).collect() } else { vec![] };
                    for (vi, v) in adt.variants().iter_enumerated() {
                        let mut vo = String::new();
                        let mut vobj = Obj::new(&mut vo);
                        vobj.s("name", v.name.as_str());
                        if let Some((_, d)) = discrs.iter().find(|(i, _)| *i == vi) {
                            vobj.n("discr", d.val as i128);
                        }
                        let mut fs: Vec<String> = vec![];
                        for f in v.fields.iter() {
                            let mut fo = String::new();
                            let mut fobj = Obj::new(&mut fo);
                            fobj.s("name", f.name.as_str());
                            let ft = tcx.type_of(f.did).instantiate_identity().skip_norm_wip();
                            let fti = self.ty_str(ft);
                            fobj.n("t", fti as i128);
                            fobj.s("vis", &self.vis_str(f.did));
                            if let Some(fz) = freeze_did {
                                fobj.b("freeze", self.implements(fz, ft, ldid));
                            }
                            if let Some(sy) = sync_did {
                                fobj.b("sync", self.implements(sy, ft, ldid));
                            }
                            if let Some(se) = send_did {
                                fobj.b("send", self.implements(se, ft, ldid));
                            }
                            fobj.end();
                            fs.push(fo);
                        }
                        vobj.raw("fields", &jarr(&fs));
                        vobj.end();
                        vs.push(vo);
                    }
                    o.raw("variants", &jarr(&vs));
                    o.end();
                    adts.push(out);
                }
                hir::ItemKind::Impl(imp) => {
                    let mut out = String::new();
                    let mut o = Obj::new(&mut out);
                    self.def_ref(&mut o, "", did);
                    let st = tcx.type_of(did).instantiate_identity().skip_norm_wip();
                    let sti = self.ty_str(st);
                    o.n("self_t", sti as i128);
                    if let ty::Adt(adt, _) = st.kind() {
                        let q = self.qn(adt.did());
                        o.s("self_adt", &q);
                    }
                    if imp.of_trait.is_some() {
                        let hdr = tcx.impl_trait_header(did);
                        let tr = hdr.trait_ref.instantiate_identity().skip_norm_wip();
                        let q = self.qn(tr.def_id);
                        o.s("trait", &q);
                        let ts = self.trait_path(tr);
                        o.s("trait_full", &ts);
                        o.b("unsafe", hdr.safety.is_unsafe());
                        o.b("negative", hdr.polarity != ty::ImplPolarity::Positive);
                        let is_auto = Some(tr.def_id) == sync_did || Some(tr.def_id) == send_did;
                        if is_auto {
                            // vacuous iff every field already implements the auto trait
                            if let ty::Adt(adt, args) = st.kind() {
                                let mut nonimpl: Vec<String> = vec![];
                                for f in adt.all_fields() {
                                    let ft = f.ty(tcx, args);
                                    if !self.implements(tr.def_id, ft, ldid) {
                                        nonimpl.push(jq(&format!(
                                            "{}: {}",
                                            f.name,
                                            self.pr(|| ft.to_string())
                                        )));
                                    }
                                }
                                o.b("vacuous", nonimpl.is_empty());
                                o.raw("non_auto_fields", &jarr(&nonimpl));
                            }
                        }
                    }
                    let ms: Vec<String> = tcx
                        .associated_items(did)
                        .in_definition_order()
                        .filter(|ai| ai.is_fn())
                        .map(|ai| {
                            let q = self.qn(ai.def_id);
                            let mut s = format!("{{\"name\":{},\"q\":{}", jq(ai.name().as_str()), jq(&q));
                            if let Some(tm) = ai.trait_item_def_id() {
                                let tq = self.qn(tm);
                                s.push_str(&format!(",\"trait_item\":{}", jq(&tq)));
                            }
                            s.push('}');
                            s
                        })
                        .collect();
                    o.raw("methods", &jarr(&ms));
                    o.end();
                    impls.push(out);
                }
                hir::ItemKind::Trait { .. } => {
                    let mut out = String::new();
                    let mut o = Obj::new(&mut out);
                    self.def_ref(&mut o, "", did);
                    let ms: Vec<String> = tcx
                        .associated_items(did)
                        .in_definition_order()
                        .filter(|ai| ai.is_fn())
                        .map(|ai| {
                            let q = self.qn(ai.def_id);
                            format!(
                                "{{\"name\":{},\"q\":{},\"default\":{}}}",
                                jq(ai.name().as_str()),
                                jq(&q),
                                ai.defaultness(tcx).has_value()
                            )
                        })
                        .collect();
                    o.raw("methods", &jarr(&ms));
                    o.end();
                    traits.push(out);
                }
                _ => {}
            }
        }
        (adts, impls, traits)
    }
}

struct Cb;

impl Callbacks for Cb {
    fn after_analysis<'tcx>(&mut self, _compiler: &Compiler, tcx: TyCtxt<'tcx>) -> Compilation {
        let Ok(dir) = std::env::var("VT_FACTS_DIR") else {
            return Compilation::Continue;
        };
        let crate_name = tcx.crate_name(rustc_hir::def_id::LOCAL_CRATE).to_string();
        let is_bin = tcx.entry_fn(()).is_some();
        let is_test = tcx.sess.opts.test;
        let mut d = Dumper { tcx, strs: Interner::default(), qn_cache: HashMap::new() };
        let mut bodies: Vec<String> = vec![];
        for def in tcx.hir_body_owners() {
            if let Some(s) = d.dump_body(def) {
                bodies.push(s);
            }
        }
        let (adts, impls, traits) = d.dump_items();
        let mut out = String::new();
        {
            let mut o = Obj::new(&mut out);
            o.s("crate", &crate_name);
            o.s("target", if is_bin { "bin" } else { "lib" });
            o.b("test", is_test);
            let cfgs: Vec<String> = tcx
                .sess
                .opts
                .cg
                .target_feature
                .split(',')
                .filter(|s| !s.is_empty())
                .map(|s| jq(s))
                .collect();
            let _ = cfgs;
            let feats: Vec<String> = std::env::args()
                .collect::<Vec<_>>()
                .windows(2)
                .filter(|w| w[0] == "--cfg" && w[1].starts_with("feature="))
                .map(|w| jq(&w[1]))
                .collect();
            o.raw("features", &jarr(&feats));
            o.n("n_bodies", bodies.len() as i128);
            o.raw("bodies", &jarr(&bodies));
            o.raw("adts", &jarr(&adts));
            o.raw("impls", &jarr(&impls));
            o.raw("traits", &jarr(&traits));
            let ss: Vec<String> = d.strs.list.iter().map(|s| jq(s)).collect();
            o.raw("strs", &jarr(&ss));
            o.end();
        }
        let kind = if is_test { "test" } else if is_bin { "bin" } else { "lib" };
        let path = format!("{}/{}-{}-{}.json", dir, crate_name, kind, std::process::id());
        let tmp = format!("{}.tmp", path);
        std::fs::write(&tmp, out).expect("vt-facts: cannot write fact file");
        std::fs::rename(&tmp, &path).expect("vt-facts: cannot rename fact file");
        Compilation::Continue
    }
}

fn main() {
    let mut args: Vec<String> = std::env::args().collect();
    // RUSTC_WORKSPACE_WRAPPER passes the real rustc path as argv[1]
    if args.len() > 1 && (args[1].ends_with("rustc") || args[1].contains("/rustc")) {
        args.remove(1);
    }
    let mut cb = Cb;
    rustc_driver::run_compiler(&args, &mut cb);
}
