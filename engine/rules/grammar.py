"""Grammar extraction for nom parser-combinator code and a decision procedure for language equality.

A parser function written with nom is a *term*: delimited(a, b, c), separated_list0(sep, elem), alt((..)), char('['), multispace0 …
`extract()` turns the typed HIR of such a function into a regular expression over characters (ASCII code points 0..127 plus one symbol
for "any non-ASCII character"); calls to other parser functions of the workspace are inlined, and a call that closes a recursion cycle
becomes a nonterminal *letter*.  `equivalent()` decides whether two such expressions denote the same language: Thompson construction,
alphabet partition by the character classes that occur, on-the-fly subset construction, and a breadth-first walk over the pairs of DFA
states; if the languages differ, the walk ends at a shortest text that one side accepts and the other rejects.

Nothing here runs the parser or feeds it sample input: the verdict is about the *set of all texts* the combinator term denotes.  The
reading is the usual one (alt = union, tuples = concatenation, many/separated_list = Kleene star); nom's ordered choice and greedy
repetition can only accept a subset of that language, so the check decides "the combinator term denotes the documented language" and
leaves "nom's backtracking realises every text of it" as a stated assumption (it holds when no alternative of an `alt` is a prefix of a
later one and every repetition is followed by something its element cannot start with, or is retried by an enclosing list — which is
what separated_list / opt do when an element fails without `cut`).

Anything the extractor does not know (an unfamiliar combinator, a character predicate it cannot tabulate, an `input` chain that skips a
step) raises Unextractable: callers report that as "not decided" instead of guessing.
"""
from collections import deque

from . import ir

NONASCII = 128
UNIVERSE = frozenset(range(129))


class Unextractable(Exception):
    pass


# ------------------------------------------------------------------ regular expressions
def eps():
    return ("eps",)


def sym(chars):
    return ("sym", frozenset(chars))


def lit(s):
    return seq(*[sym({ord(c)}) for c in s])


def cls(s):
    return sym({ord(c) for c in s})


def nt(name):
    return ("sym", frozenset({"NT:" + name}))


def seq(*rs):
    out = []
    for r in rs:
        if r[0] == "seq":
            out.extend(r[1])
        elif r[0] != "eps":
            out.append(r)
    if not out:
        return eps()
    return out[0] if len(out) == 1 else ("seq", out)


def alt(*rs):
    out = []
    for r in rs:
        if r[0] == "alt":
            out.extend(r[1])
        else:
            out.append(r)
    return out[0] if len(out) == 1 else ("alt", out)


def star(r):
    return ("star", r)


def plus(r):
    return seq(r, star(r))


def opt(r):
    return alt(r, eps())


def sep0(sep, elem):
    return opt(sep1(sep, elem))


def sep1(sep, elem):
    return seq(elem, star(seq(sep, elem)))


WS = cls(" \t\r\n")
ALPHA = sym(set(range(65, 91)) | set(range(97, 123)))
DIGIT = sym(set(range(48, 58)))
ALNUM = sym(ALPHA[1] | DIGIT[1])


# ------------------------------------------------------------------ character predicates
ASCII_PRED = {
    "is_ascii_alphabetic": lambda c: c < 128 and chr(c).isalpha(),
    "is_ascii_alphanumeric": lambda c: c < 128 and chr(c).isalnum(),
    "is_ascii_digit": lambda c: c < 128 and chr(c).isdigit(),
    "is_ascii_lowercase": lambda c: 97 <= c <= 122,
    "is_ascii_uppercase": lambda c: 65 <= c <= 90,
    "is_ascii_whitespace": lambda c: c in (32, 9, 10, 12, 13),
    "is_ascii_hexdigit": lambda c: c < 128 and chr(c) in "0123456789abcdefABCDEF",
    "is_ascii_punctuation": lambda c: c < 128 and chr(c) in "!\"#$%&'()*+,-./:;<=>?@[\\]^_`{|}~",
    "is_ascii": lambda c: c < 128,
}


def _deconst(n):
    """a named constant stands for its initialiser (`const PUNCT: &str = ".-_"`)"""
    n0 = ir.unparen(ir.strip(n)) if n is not None else n
    k_ = 0
    while n0 is not None and n0.get("k") == "path" and n0.get("r") == "def" and n0.get("q") in ir.CONST_BODIES and k_ < 3:
        n0 = ir.unparen(ir.strip(ir.CONST_BODIES[n0["q"]]))
        k_ += 1
    return n0


def _lit_chars(n):
    n = _deconst(n)
    n = ir.strip(n)
    if n.get("k") == "lit" and n.get("lk") in ("str", "char"):
        v = n["v"]
        if any(ord(ch) > 127 for ch in v):
            raise Unextractable("character set literal %r contains non-ASCII characters" % v)
        return {ord(ch) for ch in v}
    raise Unextractable("character set is not a literal (%s)" % n.get("k"))


def pred_class(clo):
    """the set of symbols for which a `|c: char| …` predicate closure is true"""
    ps = [x for p_ in clo.get("params", ()) for x in ir.pat_binds(p_)]
    if len(ps) != 1:
        raise Unextractable("predicate closure with %d parameters" % len(ps))
    ch = ps[0]["hid"]

    def ev(n, c):
        n = ir.unparen(ir.strip(n))
        k = n.get("k")
        if k == "block" and not n.get("stmts") and "tail" in n:
            return ev(n["tail"], c)
        if k == "bin" and n["op"] == "||":
            return ev(n["l"], c) or ev(n["r"], c)
        if k == "bin" and n["op"] == "&&":
            return ev(n["l"], c) and ev(n["r"], c)
        if k == "un" and n["op"] == "!":
            return not ev(n["e"], c)
        if k == "mcall" and ir.local_hid(ir.strip(n["recv"])) == ch and n["name"] in ASCII_PRED and not n.get("a"):
            return ASCII_PRED[n["name"]](c)
        if k == "mcall" and n["name"] == "contains" and len(n.get("a", ())) == 1 and ir.local_hid(ir.strip(n["a"][0])) == ch:
            return c in _lit_chars(n["recv"])
        if k == "bin" and n["op"] in ("==", "!="):
            l, r = ir.strip(n["l"]), ir.strip(n["r"])
            other = r if ir.local_hid(l) == ch else (l if ir.local_hid(r) == ch else None)
            if other is not None:
                s = _lit_chars(other)
                return (c in s) == (n["op"] == "==")
        raise Unextractable("character predicate `%s` cannot be tabulated" % (n.get("name") or n.get("op") or k))
    return sym({c for c in UNIVERSE if ev(clo["body"], c)})


# ------------------------------------------------------------------ extraction
NOM_CLASS = {
    "nom::character::complete::multispace0": star(WS), "nom::character::complete::multispace1": plus(WS),
    "nom::character::complete::space0": star(cls(" \t")), "nom::character::complete::space1": plus(cls(" \t")),
    "nom::character::complete::alphanumeric0": star(ALNUM), "nom::character::complete::alphanumeric1": plus(ALNUM),
    "nom::character::complete::alpha0": star(ALPHA), "nom::character::complete::alpha1": plus(ALPHA),
    "nom::character::complete::digit0": star(DIGIT), "nom::character::complete::digit1": plus(DIGIT),
    "nom::character::complete::newline": cls("\n"), "nom::character::complete::tab": cls("\t"),
    "nom::character::complete::line_ending": alt(cls("\n"), lit("\r\n")), "nom::character::complete::crlf": lit("\r\n"),
    "nom::combinator::eof": eps(), "nom::combinator::success": eps(),
}
TRANSPARENT = ("nom::combinator::cut", "nom::combinator::recognize", "nom::combinator::all_consuming", "nom::combinator::complete", "nom::combinator::consumed")


class Extractor:
    def __init__(self, P, is_parser_fn):
        self.P = P
        self.is_parser_fn = is_parser_fn
        self.stack = []
        self.functions = []          # every workspace parser function that was read
        self.combinators = 0
        self.cycles = set()

    # -- a parser *value* (something that can be .parse()d)
    def term(self, e):
        e = ir.unparen(ir.strip(e))
        k = e.get("k")
        if k == "tup":
            return seq(*[self.term(x) for x in e["es"]])
        if k == "path":
            q = e.get("q") or ""
            if q in NOM_CLASS:
                self.combinators += 1
                return NOM_CLASS[q]
            if e.get("r") != "local" and self.P.fn(q) is not None and self.is_parser_fn(q):
                return self.function(q)
            raise Unextractable("parser value `%s` is not a known parser" % (q or e.get("name")))
        if k == "mcall":
            q = e.get("q") or ""
            if q == "nom::internal::Parser::map":
                return self.term(e["recv"])
            if q == "nom::internal::Parser::and":
                return seq(self.term(e["recv"]), self.term(e["a"][0]))
            if q == "nom::internal::Parser::or":
                return alt(self.term(e["recv"]), self.term(e["a"][0]))
            raise Unextractable("parser adaptor `%s` is not modelled" % (q or e.get("name")))
        if k == "closure":
            return self.imperative(e["body"], [x for p_ in e.get("params", ()) for x in ir.pat_binds(p_)])
        if k != "call":
            raise Unextractable("parser expression of kind `%s`" % k)
        q = e.get("q") or ""
        a = e.get("a", ())
        self.combinators += 1
        if q in NOM_CLASS and not a:
            return NOM_CLASS[q]
        if q == "nom::error::context":
            return self.term(a[1])
        if q in TRANSPARENT:
            return self.term(a[0])
        if q in ("nom::combinator::value",):
            return self.term(a[1])
        if q == "nom::combinator::map":
            return self.term(a[0])
        if q == "nom::combinator::opt":
            return opt(self.term(a[0]))
        if q in ("nom::sequence::delimited", "nom::sequence::pair", "nom::sequence::separated_pair", "nom::sequence::preceded", "nom::sequence::terminated", "nom::sequence::tuple"):
            return seq(*[self.term(x) for x in a])
        if q == "nom::branch::alt":
            t = ir.unparen(ir.strip(a[0]))
            if t.get("k") != "tup":
                raise Unextractable("alt() over a non-tuple")
            return alt(*[self.term(x) for x in t["es"]])
        if q == "nom::multi::separated_list0":
            return sep0(self.term(a[0]), self.term(a[1]))
        if q == "nom::multi::separated_list1":
            return sep1(self.term(a[0]), self.term(a[1]))
        if q == "nom::multi::many0":
            return star(self.term(a[0]))
        if q == "nom::multi::many1":
            return plus(self.term(a[0]))
        if q == "nom::character::complete::char":
            return sym(_lit_chars(a[0]))
        if q in ("nom::bytes::complete::tag", "nom::bytes::tag"):
            n = ir.strip(a[0])
            if n.get("k") != "lit" or any(ord(c) > 127 for c in n["v"]):
                raise Unextractable("tag() of a non-literal / non-ASCII text")
            return lit(n["v"])
        if q in ("nom::character::complete::one_of", "nom::bytes::complete::is_a"):
            r = sym(_lit_chars(a[0]))
            return r if q.endswith("one_of") else plus(r)
        if q in ("nom::character::complete::none_of", "nom::bytes::complete::is_not"):
            r = sym(UNIVERSE - _lit_chars(a[0]))
            return r if q.endswith("none_of") else plus(r)
        if q in ("nom::bytes::complete::take_while", "nom::bytes::complete::take_while1", "nom::character::complete::satisfy"):
            c = ir.strip(a[0])
            if c.get("k") == "path" and c.get("r") != "local" and self.P.fn(c.get("q") or "") is not None:
                fb = self.P.fn(c["q"])          # `take_while(is_identifier_part)`: the function is the predicate
                c = {"k": "closure", "params": fb.get("params", []), "body": ir.fn_block(fb)}
            if c.get("k") != "closure":
                raise Unextractable("%s with a predicate that is not a closure" % q.rsplit("::", 1)[-1])
            r = pred_class(c)
            return star(r) if q.endswith("take_while") else (plus(r) if q.endswith("take_while1") else r)
        if q in ("nom::bytes::complete::escaped_transform", "nom::bytes::complete::escaped"):
            return star(alt(self.term(a[0]), seq(sym(_lit_chars(a[1])), self.term(a[2]))))
        if self.P.fn(q) is not None and self.is_parser_fn(q) and not a:
            return self.function(q)
        raise Unextractable("combinator `%s` is not modelled" % q)

    # -- a workspace parser function `fn(input) -> IResult`
    def function(self, q):
        if q in self.stack:
            self.cycles.add(q)
            return nt(q.rsplit("::", 1)[-1])
        b = self.P.fn(q)
        if b is None:
            raise Unextractable("no body for %s" % q)
        self.stack.append(q)
        if q not in self.functions:
            self.functions.append(q)
        try:
            ps = [x for p_ in b["params"] for x in ir.pat_binds(p_)]
            return self.imperative(b["body"], ps)
        finally:
            self.stack.pop()

    def _applied(self, e, cur):
        """`p.parse(cur)` / `f(cur)` (through `?` and Result::map of the value part) -> regex, or None"""
        e = ir.unparen(ir.strip(e))
        while e.get("k") == "try" or (e.get("k") == "mcall" and (e.get("q") or "") in ("core::result::Result::map", "core::result::Result::map_err")):
            e = ir.unparen(ir.strip(e["e"] if e.get("k") == "try" else e["recv"]))
        if e.get("k") == "mcall" and (e.get("q") or "") == "nom::internal::Parser::parse" and len(e.get("a", ())) == 1:
            if ir.local_hid(ir.strip(e["a"][0])) != cur:
                raise Unextractable("a parser is applied to something else than the current rest of the input")
            return self.term(e["recv"])
        if e.get("k") == "call" and len(e.get("a", ())) == 1 and ir.local_hid(ir.strip(e["a"][0])) is not None:
            q = e.get("q") or ""
            if ir.local_hid(ir.strip(e["a"][0])) != cur:
                raise Unextractable("`%s` is applied to something else than the current rest of the input" % q.rsplit("::", 1)[-1])
            if q in NOM_CLASS:
                self.combinators += 1
                return NOM_CLASS[q]
            if self.P.fn(q) is not None and self.is_parser_fn(q):
                return self.function(q)
            raise Unextractable("call of `%s` on the input is not a known parser" % q)
        return None

    def imperative(self, body, params):
        """a function / closure body: either one applied parser, or a chain `let (input, x) = p(input)?; …; Ok((input, value))`"""
        inp = [x for x in params if (x.get("t") or "").replace("'a ", "").endswith("&str")]
        if len(inp) != 1:
            raise Unextractable("parser body without a single &str input parameter")
        cur = inp[0]["hid"]
        body = ir.unparen(ir.strip(body))
        if body.get("k") != "block":
            r = self._applied(body, cur)
            if r is None:
                raise Unextractable("parser body is not an applied parser")
            return r
        parts = []
        for st in body.get("stmts", ()):
            if st.get("k") == "let" and "init" in st:
                r = None
                if ir.contains(st["init"], lambda y: y.get("k") == "path" and y.get("r") == "local" and y.get("hid") == cur):
                    r = self._applied(st["init"], cur)
                    if r is None:
                        raise Unextractable("the input is used by a statement that is not an applied parser")
                if r is not None:
                    pat = st["pat"]
                    if pat.get("k") != "tuple" or not pat.get("ps") or pat["ps"][0].get("k") != "bind":
                        raise Unextractable("the rest of the input is not re-bound after a parser step")
                    cur = pat["ps"][0]["hid"]
                    parts.append(r)
                continue
            if ir.contains(st, lambda y: y.get("k") == "path" and y.get("r") == "local" and y.get("hid") == cur):
                raise Unextractable("the input is used by a statement that is not a parser step")
        tail = body.get("tail")
        if tail is None:
            raise Unextractable("parser body without a result expression")
        if parts:
            t = ir.unparen(ir.strip(tail))
            ok = t.get("k") == "call" and (t.get("q") or "").endswith("Result::Ok::{Ctor#0}") and ir.unparen(ir.strip(t["a"][0])).get("k") == "tup" and \
                ir.local_hid(ir.strip(ir.unparen(ir.strip(t["a"][0]))["es"][0])) == cur
            if not ok:
                raise Unextractable("the parser chain does not return the rest of the input left by its last step")
            return seq(*parts)
        r = self._applied(tail, cur)
        if r is None:
            raise Unextractable("parser body is not an applied parser")
        return r


# ------------------------------------------------------------------ automata
def _class_only(r):
    """S if the language of r is a set of non-empty strings over the character set S that contains every single character of S
    (a character class, possibly repeated / alternated) - the body of a greedy run such as take_while, multispace0, many1(one_of) - else None"""
    k = r[0]
    if k == "sym":
        return r[1] if not any(isinstance(c, str) for c in r[1]) else None
    if k == "alt":
        parts = [_class_only(x) for x in r[1]]
        if any(p is None for p in parts):
            return None
        out = frozenset()
        for p in parts:
            out |= p
        return out
    if k == "seq":
        # x x* (plus) over one class
        parts = [_class_only(x[1]) if x[0] == "star" else _class_only(x) for x in r[1]]
        if any(p is None for p in parts) or len(set(parts)) != 1 or r[1][0][0] == "star":
            return None
        return parts[0]
    return None


class _NFA:
    """Thompson automaton.  The exit of a greedy character-class run (star over a class) carries the class as a *forbidden next character*:
    nom's take_while / multispace / alphanumeric / many-of-one_of consume a maximal run and never give characters back, so the text after
    such a run cannot start with a character of the class (maximal munch)."""

    def __init__(self, munch=True):
        self.eps = []
        self.tr = []
        self.forbid = {}
        self.munch = munch

    def new(self):
        self.eps.append([])
        self.tr.append([])
        return len(self.eps) - 1

    def build(self, r, classes_of):
        k = r[0]
        if k == "eps":
            s = self.new()
            return s, s
        if k == "sym":
            s, t = self.new(), self.new()
            self.tr[s].append((classes_of(r[1]), t))
            return s, t
        if k == "seq":
            s, t = self.build(r[1][0], classes_of)
            for x in r[1][1:]:
                s2, t2 = self.build(x, classes_of)
                self.eps[t].append(s2)
                t = t2
            return s, t
        if k == "alt":
            s, t = self.new(), self.new()
            for x in r[1]:
                s2, t2 = self.build(x, classes_of)
                self.eps[s].append(s2)
                self.eps[t2].append(t)
            return s, t
        if k == "star":
            s, t = self.new(), self.new()
            s2, t2 = self.build(r[1], classes_of)
            self.eps[s] += [s2, t]
            self.eps[t2] += [s2, t]
            S = _class_only(r[1])
            if S is not None and self.munch:
                self.forbid[t] = classes_of(S)
            return s, t
        raise ValueError(k)

    def closure(self, pairs):
        """pairs (state, forbidden classes)"""
        seen = set()
        todo = []
        for s, f in pairs:
            f = f | self.forbid.get(s, frozenset())
            if (s, f) not in seen:
                seen.add((s, f))
                todo.append((s, f))
        while todo:
            s, f = todo.pop()
            for t in self.eps[s]:
                f2 = f | self.forbid.get(t, frozenset())
                if (t, f2) not in seen:
                    seen.add((t, f2))
                    todo.append((t, f2))
        return frozenset(seen)

    def move(self, pairs, c):
        return self.closure({(t, frozenset()) for s, f in pairs if c not in f for cs, t in self.tr[s] if c in cs})

    def accepts(self, pairs, t):
        return any(s == t for s, _ in pairs)


def _syms(r, out):
    if r[0] == "sym":
        out.add(r[1])
    elif r[0] in ("seq", "alt"):
        for x in r[1]:
            _syms(x, out)
    elif r[0] == "star":
        _syms(r[1], out)


def size(r):
    return 1 + (sum(size(x) for x in r[1]) if r[0] in ("seq", "alt") else (size(r[1]) if r[0] == "star" else 0))


def _show_char(c):
    if isinstance(c, str):
        return "<" + c[3:] + ">"
    if c == NONASCII:
        return "é"
    ch = chr(c)
    return {"\n": "\\n", "\t": "\\t", "\r": "\\r"}.get(ch, ch if 32 <= c < 127 else "\\x%02x" % c)


def equivalent(r1, r2, limit=200000, munch=True):
    """(True, stats) or (False, witness, accepted_by_first, stats): a shortest text in exactly one of the two languages.
    munch=True models greedy, non-backtracking character-class runs (nom); munch=False is the plain regular reading (regex crate)."""
    sets = set()
    _syms(r1, sets)
    _syms(r2, sets)
    sets = sorted(sets, key=lambda s: sorted(map(str, s)))
    universe = set(UNIVERSE)
    for s in sets:
        universe |= s
    sig = {}
    for c in universe:
        sig.setdefault(tuple(c in s for s in sets), []).append(c)
    classes = list(sig.values())
    # representative: prefer a printable, unambiguous character
    def rep(cl):
        pr = [c for c in cl if not isinstance(c, str) and 33 <= c < 127]
        sp = [c for c in cl if c == 32]
        return (sp or pr or sorted(cl, key=str))[0]
    reps = [rep(cl) for cl in classes]
    idx = {c: i for i, cl in enumerate(classes) for c in cl}

    def classes_of(s):
        return frozenset(idx[c] for c in s)
    n1, n2 = _NFA(munch), _NFA(munch)
    s1, t1 = n1.build(r1, classes_of)
    s2, t2 = n2.build(r2, classes_of)
    a, b = n1.closure({(s1, frozenset())}), n2.closure({(s2, frozenset())})
    seen = {(a, b): None}
    todo = deque([(a, b)])
    stats = {"alphabet_classes": len(classes), "nfa_states": (len(n1.eps), len(n2.eps))}
    while todo:
        a, b = todo.popleft()
        if n1.accepts(a, t1) != n2.accepts(b, t2):
            w = []
            cur = (a, b)
            while seen[cur] is not None:
                prev, c = seen[cur]
                w.append(reps[c])
                cur = prev
            stats["dfa_pairs"] = len(seen)
            return False, "".join(_show_char(c) for c in reversed(w)), n1.accepts(a, t1), stats
        for c in range(len(classes)):
            a2, b2 = n1.move(a, c), n2.move(b, c)
            if not a2 and not b2:
                continue
            if (a2, b2) not in seen:
                seen[(a2, b2)] = ((a, b), c)
                todo.append((a2, b2))
                if len(seen) > limit:
                    raise Unextractable("state space of the comparison exceeds %d pairs" % limit)
    stats["dfa_pairs"] = len(seen)
    return True, stats
