"""C09 — zoom and bounding-box filters pass exactly the tiles inside the filter.

R-FILTER     every transform operation (an OperationTrait implementation with a single `source`) that narrows the coverage at
             build time guards its lookup with containment in that same coverage and intersects the streamed box with it;
             the forwarded coordinate / box and the returned blob are unchanged. Operations that do not narrow forward unchanged.
R-ZOOM       set_zoom_min empties exactly the levels below the minimum, set_zoom_max exactly those above the maximum.
R-BUILD-ERR  no panic-capable site reachable from the pipeline factory depends on an argument value: invalid arguments
             surface as Err when the pipeline is built.
"""
from . import census, comp, ir
from .report import m_drop_stmt, m_replace

META = {
    "level": "other",
    "explanation": (
        "Decides the structural part of C09: for each transform operation found through OperationTrait (not by name) the "
        "coverage stored in the operation is a clone of the source's coverage to which only narrowing calls were applied; "
        "get_tile_data forwards the same coordinate to the source only under contains_coord on that stored coverage and "
        "returns Ok(None) otherwise, handing the source's result back unchanged; get_tile_stream intersects the argument box "
        "with the same coverage before forwarding. The zoom-limit primitives are checked by normalised comparison (index < min, "
        "index > max). Chains are intersections because each stage is. A census over everything reachable from the pipeline "
        "factory shows that argument values cannot reach a panic."),
    "not_decided": "which tile box a geographic box maps to at each zoom (C15 arithmetic); TileBBox::contains3/intersect_bbox themselves.",
    "trusted_base": ["TileBBoxPyramid/TileBBox primitives behave as sets (C15)", "reviewed tables (tables/panic_sites.json)"],
}

NARROWING = ("set_zoom_min", "set_zoom_max", "intersect_geo_bbox", "intersect", "intersect_bbox", "set_level_bbox")
WIDENING = ("include_bbox", "include_coord", "include_bbox_pyramid", "add_border", "new_full", "set_full")


def transform_ops(P):
    """OperationTrait impls whose self type has a `source` field of type Box<dyn OperationTrait>"""
    out = []
    for i in P.impls_of("::OperationTrait"):
        adt = P.adts.get(i.get("self_adt"))
        if not adt:
            continue
        fields = {f["name"]: f["t"] for f in adt["variants"][0]["fields"]}
        srcs = [n for n, t in fields.items() if "dyn" in t and "OperationTrait" in t and not t.startswith("std::vec::Vec")]
        if len(srcs) == 1:
            out.append((i, srcs[0], fields))
    return out


def narrowing_rule(ck, P):
    """R-FILTER|narrowed: a filter's advertised coverage (and the guard of its lookups, which reads the same field) is the source's
    coverage NARROWED by the argument: filter_bbox intersects parameters.bbox_pyramid with the bbox argument exactly once on every
    successful build path; filter_zoom applies set_zoom_min(min) / set_zoom_max(max) exactly when the option is given, with the
    option's own value; the narrowed parameters are the ones stored in the stage."""
    from . import mvt
    for suffix, calls in (("transform::filter_bbox::Operation::build", (("intersect_geo_bbox", None),)),
                          ("transform::filter_zoom::Operation::build", (("set_zoom_min", "min"), ("set_zoom_max", "max")))):
        bs = [b for b in P.bodies if b["q"].endswith(suffix)]
        if not ck.anchor("R-FILTER", suffix, bs, 1):
            continue
        b = bs[0]
        pl = [y for y in ir.walk_nodes(b["body"]) if y.get("k") == "let" and y["pat"].get("k") == "bind" and "TilesReaderParameters" in (y["pat"].get("t") or "")]
        ph = pl[0]["pat"]["hid"] if pl else None
        stored = [y for y in ir.walk_nodes(b["body"]) if y.get("k") == "struct" and (y.get("q") or "").endswith("::Operation") and
                  any(f["name"] == "parameters" and ir.local_hid(f["e"]) == ph for f in y.get("fields", ()))]
        okc, why = ph is not None and bool(stored), []
        for nm, opt in calls:
            cs = [(y, ps) for y, ps, _ in ir.walk(b["body"]) if y.get("k") == "mcall" and (y.get("q") or "").endswith("TileBBoxPyramid::" + nm)]
            on_params = [c for c in cs if ir.place_str(c[0]["recv"]).endswith(".bbox_pyramid") and
                         any(z.get("k") == "path" and z.get("r") == "local" and z.get("hid") == ph for z in ir.walk_nodes(c[0]["recv"]))]
            if len(on_params) != 1:
                okc = False
                why.append("%s is applied %d time(s) to the stage's parameters" % (nm, len(on_params)))
                continue
            y, ps = on_params[0]
            guards = [p_ for p_ in ps if p_.get("k") in ("if", "match", "for", "while", "loop", "closure") and "async" not in (p_.get("t") or "") and "Coroutine" not in (p_.get("ck") or "")]
            if opt is None:
                if guards:
                    okc = False
                    why.append("%s is conditional" % nm)
            else:
                g = guards[-1] if guards else None
                lx = ir.unparen(g["c"]) if g is not None and g.get("k") == "if" else None
                wired = lx is not None and lx.get("k") == "letx" and (lx["pat"].get("q") or "").endswith("Option::Some::{Ctor#0}") and ir.place_str(lx["init"]).endswith("." + opt) and \
                    ir.local_hid(y["a"][0]) in {x["hid"] for x in ir.pat_binds(lx["pat"])} and len(guards) == 1
                if not wired:
                    okc = False
                    why.append("%s is not applied exactly under `if let Some(v) = args.%s` with v" % (nm, opt))
        ck.check(okc, "R-FILTER", b["q"] + "|narrowed", "the stage's parameters are the source's, narrowed by the argument (%s), and stored in the stage" % ", ".join(c[0] for c in calls),
                 "the filter does not narrow the coverage it advertises and guards with: %s" % (why or "parameters not stored"), ir.loc(b))


def rules(ck, P):
    narrowing_rule(ck, P)
    from . import boxalg as _boxalg
    _boxalg.box_core_rules(ck, P)
    ops = transform_ops(P)
    ck.anchor("R-FILTER", "transform operations", ops, 3)
    for impl, srcf, fields in ops:
        adt = impl["self_adt"]
        short = adt.split("::operations::")[-1]
        gtd = P.impl_method(impl, "get_tile_data")
        gts = P.impl_method(impl, "get_tile_stream")
        builds = [b for b in P.bodies if b.get("self_adt") == adt and b["q"].endswith("::build")]
        if not ck.anchor("R-FILTER", short + " methods", [x for x in (gtd, gts) if x] + builds, 3):
            continue
        bld = builds[0]
        comp.stage_installed(ck, "R-FILTER", short, bld)
        # ---- (i) build: which calls touch the pyramid of the stored parameters
        st = [n for n in ir.walk_nodes(bld["body"]) if n.get("k") == "struct" and n.get("q") == adt]
        if not st:
            ck.violation("R-FILTER", short + "|ctor", "operation is not constructed in its build function", ir.loc(bld))
            continue
        pf = [f for f in st[0]["fields"] if "TilesReaderParameters" in f["e"].get("t", "")]
        ph = ir.local_hid(pf[0]["e"]) if pf else None
        lets = {}
        for n in ir.walk_nodes(bld["body"]):
            if n.get("k") == "let" and "init" in n and n["pat"].get("k") == "bind":
                lets[n["pat"]["hid"]] = n["init"]
        init = lets.get(ph)
        from_source = init is not None and ir.contains(init, lambda y: y.get("k") == "mcall" and y.get("name") == "get_parameters") and ir.contains(init, lambda y: y.get("k") == "mcall" and y.get("name") == "clone")
        ck.check(from_source, "R-FILTER", short + "|params-from-source", "stored parameters start as a clone of the source's parameters",
                 "stored parameters are not a clone of the source's parameters", ir.loc(bld))
        pyr_calls = [n for n in ir.walk_nodes(bld["body"]) if n.get("k") == "mcall" and ir.place_str(n["recv"]).endswith(".bbox_pyramid") and _root_hid(n["recv"]) == ph
                     and n["recv"].get("ta", "").startswith("&mut")]
        names = [n["name"] for n in pyr_calls]
        narrows = bool(names)
        bad = [nm for nm in names if nm not in NARROWING]
        ck.check(not bad, "R-FILTER", short + "|narrowing-only", "coverage is only narrowed at build time (%s)" % (names or "untouched"),
                 "coverage is modified by non-narrowing calls %s" % bad, ir.loc(bld))
        # the geographic bbox that narrows the coverage is the argument as written: it reaches intersect_geo_bbox (whose validation
        # reports reversed / out-of-range / NaN boxes) without being clamped, intersected or otherwise "sanitised" on the way
        for n in pyr_calls:
            if n["name"] != "intersect_geo_bbox":
                continue
            e = ir.strip(n["a"][0])
            steps = []
            for _ in range(8):
                while e is not None and e.get("k") in ("ref", "un"):
                    e = ir.strip(e["e"])
                if e is None:
                    break
                if e.get("k") == "path" and e.get("r") == "local" and e["hid"] in lets:
                    e = ir.strip(lets[e["hid"]])
                    continue
                if e.get("k") == "mcall":
                    steps.append(e["name"])
                    e = ir.strip(e["recv"])
                    continue
                if e.get("k") == "call":
                    steps.append((e.get("q") or "?").rsplit("::", 1)[-1])
                    e = ir.strip(e["a"][0]) if e.get("a") else None
                    continue
                break
            from_arg = e is not None and e.get("k") == "field" and e.get("name") == "bbox"
            extra = [st_ for st_ in steps if st_ not in ("from", "try_from", "into", "try_into", "clone", "to_owned")]
            ck.check(from_arg and not extra, "R-BUILD-ERR", short + "|bbox-unsanitised", "the bbox argument reaches intersect_geo_bbox as written (GeoBBox::from(&args.bbox)), so its validation sees invalid values",
                     "the bbox argument is transformed by %s before it is validated: reversed / out-of-range / NaN values are masked instead of reported when the pipeline is built" % (extra or steps), ir.loc(n))
        # each zoom limit is fed by the same-named argument: set_zoom_min <- args.min, set_zoom_max <- args.max
        for n, parents, _ in ir.walk(bld["body"]):
            if n in pyr_calls and n["name"] in ("set_zoom_min", "set_zoom_max"):
                want = n["name"].rsplit("_", 1)[-1]
                ah = ir.local_hid(n["a"][0])
                src = None
                for p_ in parents:
                    if p_.get("k") == "if" and p_["c"].get("k") == "letx" and any(x["hid"] == ah for x in ir.pat_binds(p_["c"]["pat"])):
                        src = ir.place_str(p_["c"]["init"])
                if src is None and ah in lets:
                    src = ir.place_str(lets[ah])
                ck.check(src is not None and src.split(".")[-1].rstrip("()") == want, "R-FILTER", "%s|%s-arg" % (short, n["name"]), "%s receives the `%s` argument (%s)" % (n["name"], want, src),
                         "%s receives `%s`, not the `%s` argument" % (n["name"], src, want), ir.loc(n))
        # ---- (ii) lookup
        fw = [n for n in ir.walk_nodes(gtd["body"]) if n.get("k") == "mcall" and (n.get("q") or "").endswith("OperationTrait::get_tile_data")]
        cp = [x for p in gtd["params"] for x in ir.pat_binds(p) if x["t"].endswith("TileCoord3")]
        al = ir.Aliases(gtd)
        if not ck.check(len(fw) == 1 and ir.place_str(fw[0]["recv"]) == "self." + srcf and cp and al.hid(fw[0]["a"][0]) == cp[0]["hid"], "R-FILTER", short + "|lookup-forward",
                        "lookup forwards the requested coordinate unchanged to self.%s" % srcf, "lookup does not forward the same coordinate to the source", ir.loc(gtd)):
            continue
        if narrows:
            guard = None
            for n, parents, _ in ir.walk(gtd["body"]):
                if n is fw[0]:
                    for p in reversed(parents):
                        if p.get("k") == "if":
                            guard = p
                            break
            def is_cov_test(c):
                c = ir.unparen(c)
                return c.get("k") == "mcall" and c.get("name") == "contains_coord" and ir.place_str(c["recv"]) == "self.parameters.bbox_pyramid" and al.hid(c["a"][0]) == cp[0]["hid"]
            okg = False
            unchanged = False
            if guard is not None:
                # form A: if covered { forward } else { Ok(None) }
                okg = is_cov_test(guard["c"]) and ir.contains(guard["then"], lambda y: y is fw[0])
                els = guard.get("else")
                okg = okg and els is not None and ir.contains(els, lambda y: (y.get("q") or "").endswith("Option::None::{Ctor#0}")) and not ir.contains(els, lambda y: y.get("k") == "mcall" and y.get("name") == "get_tile_data")
                then_tail = ir.unparen(guard["then"])
                tail = then_tail.get("tail") if then_tail and then_tail.get("k") == "block" else then_tail
                unchanged = tail is not None and (tail is fw[0] or (tail.get("k") == "await" and tail["e"] is fw[0]))
            else:
                # form B: if !covered { return Ok(None) }  …  forward as the function's value
                sts_ = ir.stmts_of(ir.fn_block(gtd))
                fi = next((i for i, st_ in enumerate(sts_) if ir.contains(st_, lambda y: y is fw[0])), None)
                for st_ in (sts_[:fi] if fi is not None else []):
                    x = st_["e"] if st_.get("k") == "semi" else st_
                    if x.get("k") == "if" and "else" not in x and ir.diverges(x["then"]):
                        c = ir.unparen(x["c"])
                        if c.get("k") == "un" and c.get("op") == "!" and is_cov_test(c["e"]) and ir.contains(x["then"], lambda y: (y.get("q") or "").endswith("Option::None::{Ctor#0}")) and \
                                not ir.contains(x["then"], lambda y: (y.get("q") or "").endswith("Result::Err::{Ctor#0}")):
                            okg = True
                if fi is not None and fi == len(sts_) - 1:
                    tail = ir.unparen(sts_[fi])
                    unchanged = tail is fw[0] or (tail.get("k") == "await" and tail["e"] is fw[0])
            ck.check(okg, "R-FILTER", short + "|lookup-guard", "lookup is forwarded only if self.parameters.bbox_pyramid.contains_coord(coord), else Ok(None)",
                     "lookup is not guarded by containment in the narrowed coverage: tiles outside the filter are returned", ir.loc(gtd))
            # blob unchanged: the forwarded call's value is the branch / function value
            ck.check(unchanged, "R-FILTER", short + "|lookup-unchanged", "the source's answer is returned unchanged", "the source's answer is post-processed by a filter", ir.loc(gtd))
        # ---- (iii) stream
        fs = [n for n in ir.walk_nodes(gts["body"]) if n.get("k") == "mcall" and (n.get("q") or "").endswith("OperationTrait::get_tile_stream")]
        bp = [x for p in gts["params"] for x in ir.pat_binds(p) if x["t"].endswith("TileBBox")]
        al2 = ir.Aliases(gts)
        okf = len(fs) == 1 and ir.place_str(fs[0]["recv"]) == "self." + srcf and bp and al2.hid(fs[0]["a"][0]) == bp[0]["hid"]
        ck.check(okf, "R-FILTER", short + "|stream-forward", "stream forwards the argument box binding to self.%s" % srcf, "stream does not forward the argument box to the source", ir.loc(gts))
        isect = [n for n in ir.walk_nodes(gts["body"]) if n.get("k") == "mcall" and n.get("name") == "intersect_pyramid" and bp and al2.hid(n["recv"]) == bp[0]["hid"]
                 and ir.place_str(n["a"][0]) == "self.parameters.bbox_pyramid"]
        other_mut = [n["name"] for n in ir.walk_nodes(gts["body"]) if n.get("k") == "mcall" and bp and al2.hid(n["recv"]) == bp[0]["hid"] and n["recv"].get("ta", "").startswith("&mut") and n["name"] != "intersect_pyramid"]
        if narrows:
            ck.check(len(isect) == 1 and not other_mut, "R-FILTER", short + "|stream-intersect", "the streamed box is intersected with self.parameters.bbox_pyramid before forwarding",
                     "the streamed box is not intersected with the narrowed coverage (other mutations: %s)" % other_mut, ir.loc(gts))
        else:
            ck.check(not other_mut, "R-FILTER", short + "|stream-unchanged", "non-narrowing operation forwards the box unchanged", "box is modified: %s" % other_mut, ir.loc(gts))

    comp.levels_rule(ck, P, "R-ZOOM", ("set_zoom_min", "set_zoom_max", "intersect_geo_bbox", "intersect"))
    # ---------------- R-ZOOM
    for fn, op in (("set_zoom_min", "<"), ("set_zoom_max", ">")):
        bs = [b for b in P.bodies if b["q"].endswith("TileBBoxPyramid::" + fn)]
        if not ck.anchor("R-ZOOM", fn, bs, 1):
            continue
        b = bs[0]
        zp = [x for p in b["params"] for x in ir.pat_binds(p) if x["t"] == "u8"]
        loops = [n for n in ir.walk_nodes(b["body"]) if n.get("k") == "for"]
        okz = False
        why = "loop shape not recognised"
        if len(loops) == 1 and zp and "[]" in ir.place_str(loops[0]["iter"]):
            continue   # slice form: decided by comp.levels_rule (|slice)
        if len(loops) == 1 and zp:
            lp = loops[0]
            it = ir.place_str(lp["iter"])
            binds = ir.pat_binds(lp["pat"])
            idx = [x for x in binds if x["t"] == "usize"]
            bb = [x for x in binds if "TileBBox" in x["t"]]
            ifs = [n for n in ir.walk_nodes(lp["body"]) if n.get("k") == "if"]
            if "level_bbox" in it and "enumerate" in it and idx and bb and len(ifs) == 1:
                c = ir.cmp_norm(ifs[0]["c"])
                emp = [n for n in ir.walk_nodes(ifs[0]["then"]) if n.get("k") == "mcall" and n.get("name") == "set_empty" and ir.local_hid(n["recv"]) == bb[0]["hid"]]
                other = [n for n in ir.walk_nodes(lp["body"]) if n.get("k") == "mcall" and n["recv"].get("ta", "").startswith("&mut") and n not in emp]
                okz = ir.cmp_holds_as(c, idx[0]["name"], (op,), zp[0]["name"]) and len(emp) == 1 and not other and "else" not in ifs[0]
                why = "comparison is %s" % (c,)
        ck.check(okz, "R-ZOOM", b["q"], "%s empties level i exactly when i %s limit" % (fn, op), "%s does not empty exactly the levels with index %s limit (%s)" % (fn, op, why), ir.loc(b))
    cc = [b for b in P.bodies if b["q"].endswith("TileBBoxPyramid::contains_coord")]
    if ck.anchor("R-ZOOM", "contains_coord", cc, 1):
        b = cc[0]
        okc = ir.contains(b["body"], lambda y: y.get("k") == "mcall" and y.get("name") == "contains3") and \
            ir.contains(b["body"], lambda y: y.get("k") == "mcall" and y.get("name") == "get" and ir.place_str(y["recv"]).endswith("level_bbox") and ir.place_str(y["a"][0]).endswith(".z"))
        ck.check(okc, "R-ZOOM", b["q"], "contains_coord looks up the box of the coordinate's own zoom level and tests containment", "contains_coord does not test the coordinate against its own level's box", ir.loc(b))

    # ---------------- R-BUILD-ERR|nan: a bbox argument with a NaN component is an invalid argument like any other.  The VPL number parser
    # (f64::from_str) accepts `NaN`, every comparison with NaN is false and f64::min/max then replace it by the other operand, so only
    # a validation written as "ensure!(x >= lo)" (or an explicit is_nan / is_finite test) stops it; nanflow.py walks
    # TileBBox::from_geo - the function every geographic filter goes through, per level - with each of the four components set to NaN
    from . import nanflow
    fg = [b for b in P.bodies if b["q"].endswith("tile_bbox::TileBBox::from_geo")]
    if ck.anchor("R-BUILD-ERR", "TileBBox::from_geo", fg, 1):
        res = nanflow.box_component_rejected(P, fg[0]["q"])
        bad = sorted(k for k, v in (res or {}).items() if not v) if res is not None else ["?"]
        ck.check(res is not None and not bad, "R-BUILD-ERR", fg[0]["q"] + "|nan", "a geographic box with a NaN in any of its four components is rejected on every path (comparisons with NaN evaluated as false)",
                 "a NaN in component(s) %s of the box passes the validation of TileBBox::from_geo on some path (range tests written so that `false` means valid): "
                 "`filter_bbox bbox=[NaN,0,20,20]` builds without an error and the NaN turns into the last tile column / row" % bad, ir.loc(fg[0]))
    # ---------------- R-BUILD-ERR
    entries = [b["q"] for b in P.bodies if b["q"].endswith(("PipelineFactory::operation_from_vpl", "PipelineFactory::build_pipeline")) or
               b.get("trait_item", "").endswith(("FactoryTrait::build",)) or (b["q"].endswith("::build") and "operations::" in b["q"])]
    ck.anchor("R-BUILD-ERR", "factory/build entry points", entries, 8)
    tabs = [census.load_table(t) for t in ("panic_sites.json", "stream_sites.json", "handler_sites.json")]
    seen = P.reachable(entries)
    n_sites, n_v = 0, 0
    for fq in sorted(seen):
        b = P.fn(fq)
        if b is None:
            continue
        for s in census.collect_sites(P, b):
            n_sites += 1
            if census.auto_discharge(s) or any(s.key in t for t in tabs):
                continue
            n_v += 1
            ck.violation("R-BUILD-ERR", s.key, "panic-capable %s site `%s` reachable while building a pipeline is not classified: an invalid argument must surface as an error" % (s.kind, s.desc), s.loc)
    ck.anchor("R-BUILD-ERR", "census size", n_sites, 40)
    if n_v == 0:
        ck.ok("R-BUILD-ERR", "census", "%d panic-capable sites reachable from %d build entry points are all discharged (auto / reviewed)" % (n_sites, len(entries)))
    # argument decoding returns Result and is propagated with `?`
    for impl, srcf, fields in ops:
        adt = impl["self_adt"]
        for b in [x for x in P.bodies if x.get("self_adt") == adt and x["q"].endswith("::build")]:
            dec = [n for n in ir.walk_nodes(b["body"]) if n.get("k") == "call" and (n.get("q") or "").endswith("Args::from_vpl_node")]
            okd = False
            for n, parents, _ in ir.walk(b["body"]):
                if dec and n is dec[0]:
                    okd = bool(parents) and parents[-1].get("k") == "try"
            ck.check(okd, "R-BUILD-ERR", adt.split("::operations::")[-1] + "|args", "argument decoding errors are propagated with `?`", "argument decoding result is not propagated", ir.loc(b))


def _root_hid(n):
    n = ir.strip(n)
    while n is not None and n.get("k") in ("field", "index"):
        n = ir.strip(n["e"])
    return ir.local_hid(n) if n is not None else None


def mutants(P):
    out = []
    fz = "<versatiles_pipeline::operations::transform::filter_zoom::Operation as versatiles_pipeline::traits::operation::OperationTrait>::"
    fb = "<versatiles_pipeline::operations::transform::filter_bbox::Operation as versatiles_pipeline::traits::operation::OperationTrait>::"

    def drop_guard(body):
        # replace `if contains { fwd } else { None }` by the then-branch
        def fn(n):
            t = n["then"]
            n.clear()
            n.update(t)
        return m_replace(body, lambda n: n.get("k") == "if" and ir.contains(n["c"], lambda y: y.get("k") == "mcall" and y.get("name") == "contains_coord"), fn)
    out.append(("filter_zoom lookup: containment guard removed", fz + "get_tile_data", drop_guard))

    def no_intersect(body):
        return m_drop_stmt(body, lambda n: n.get("k") == "mcall" and n.get("name") == "intersect_pyramid")
    out.append(("filter_bbox stream: box not intersected", fb + "get_tile_stream", no_intersect))

    def le(body):
        return m_replace(body, lambda n: n.get("k") == "bin" and n.get("op") == "<", lambda n: n.__setitem__("op", "<="))
    out.append(("set_zoom_min: < weakened to <=", "versatiles_core::types::tile_bbox_pyramid::TileBBoxPyramid::set_zoom_min", le))

    def other_pyramid(body):
        def fn(n):
            n["recv"] = {"k": "mcall", "name": "get_parameters", "recv": {"k": "field", "name": "source", "e": {"k": "path", "r": "local", "name": "self", "hid": 2, "t": ""}, "t": ""}, "a": [], "t": ""}
        return m_replace(body, lambda n: n.get("k") == "mcall" and n.get("name") == "contains_coord", fn)
    out.append(("filter_bbox lookup: guard uses the source's coverage", fb + "get_tile_data", other_pyramid))
    return out
