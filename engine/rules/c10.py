"""C10 — merging vector tiles concatenates the features of equally named layers.

E-COMP            every source blob is decoded with the compression declared by the source that produced it, on both the
                  lookup and the stream path; the operation declares Uncompressed and its output is never compressed.
R-GROUP           merge_tiles groups layers by their own name: a layer joins the existing layer of the same name (add_from_layer)
                  or is inserted under its own name; blobs are merged in source order.
R-TAG-OWNER       add_from_layer decodes a feature's tags with the tables of the layer the feature came from and re-encodes
                  them with the target's tables; the feature itself (id, geometry type, geometry bytes) is moved unchanged.
R-EXISTS          the output exists iff at least one source delivered a tile (lookup: non-empty blob list; stream: non-empty slot).
R-TABLE-FIDELITY / R-PBF / R-FEATURE-WRITE  (shared with C11) apply to every source tile that is decoded and re-encoded.
R-COVER-OPS       coverage is the union of all sources (C03).
"""
from . import comp, ir, mvt
from .report import m_drop_stmt, m_replace

META = {
    "level": "other",
    "explanation": (
        "Decides the structural part of C10 on the merge operation (found through OperationTrait as the operation with a source "
        "list whose lookup calls merge_tiles): each source's blob is passed through decompress with that same source's "
        "declared compression before merging, on both paths; the declared output compression is the constant Uncompressed "
        "and merge_tiles returns VectorTile::to_blob() directly; merge_tiles keys its map by the incoming layer's own name; "
        "add_from_layer decodes tag ids with the incoming layer's tables and encodes with the receiver's, pushing the moved "
        "feature; existence follows non-emptiness of what the sources delivered. The PBF tables, table fidelity and the "
        "feature who-may-write census (shared with C11) cover what decoding and re-encoding preserves."),
    "not_decided": "layer order in the output (HashMap iteration; order is not part of the statement); feature/geometry equality as values; extent differences between merged layers.",
    "trusted_base": ["MVT 2.1 table in rules/mvt.py", "decompress summary (C04)", "HashMap semantics"],
}


def merge_ops(P):
    out = []
    for i in P.impls_of("::OperationTrait"):
        gtd = P.impl_method(i, "get_tile_data")
        if gtd and ir.contains(gtd["body"], lambda y: y.get("k") == "call" and (y.get("q") or "").endswith("::merge_tiles")):
            out.append(i)
    return out


def rules(ck, P):
    ops = merge_ops(P)
    if not ck.anchor("E-COMP", "merge operation", ops, 1):
        return
    impl = ops[0]
    adt = impl["self_adt"]
    # the stream files every blob of a 32x32 sub-box under get_tile_index3(coord) and turns the slot back into a coordinate with
    # get_coord3_by_index: both are part of the box algebra decided by R-BOX (shared with C02 / C03 / C09)
    from . import boxalg as _boxalg
    _boxalg.box_core_rules(ck, P)
    gtd = P.impl_method(impl, "get_tile_data")
    gts = P.impl_method(impl, "get_tile_stream")
    mt = [b for b in P.bodies if b["q"].endswith("from_vectortiles_merged::merge_tiles")]
    builds = [b for b in P.bodies if b.get("self_adt") == adt and b["q"].endswith("::build")]
    if not ck.anchor("E-COMP", "methods", [x for x in (gtd, gts) if x] + mt + builds, 4):
        return
    # ---------------- E-COMP on both paths
    for path, fn in (("lookup", gtd), ("stream", gts)):
        loops = [n for n in ir.walk_nodes(fn["body"]) if n.get("k") == "for" and ir.place_str(n["iter"]).startswith("self.sources")]
        okc = False
        desc = ""
        if len(loops) == 1 and ir.place_str(loops[0]["iter"]) in ("self.sources.iter()", "self.sources"):
            src = ir.pat_binds(loops[0]["pat"])[0]
            dc = [n for n in ir.walk_nodes(loops[0]["body"]) if n.get("k") == "call" and (n.get("q") or "").endswith("compression::decompress")]
            if len(dc) == 1:
                p1 = ir.place_str(dc[0]["a"][1])
                root = ir.strip(dc[0]["a"][1])
                while root is not None and root.get("k") in ("field", "mcall"):
                    root = ir.strip(root["e"] if root.get("k") == "field" else root["recv"])
                desc = p1
                okc = p1.endswith("get_parameters().tile_compression") and ir.local_hid(root) == src["hid"]
                # the decompressed blob is what gets collected
                bh_ = ir.local_hid(dc[0]["a"][0])
                okc = okc and bh_ is not None and ir.contains(loops[0]["body"], lambda y: y.get("k") == "mcall" and y.get("name") == "push" and ir.local_hid(y["a"][0]) == bh_)
                asg = ir.contains(loops[0]["body"], lambda y: y.get("k") == "assign" and ir.local_hid(y["l"]) == bh_ and ir.contains(y["r"], lambda z: z is dc[0]))
                okc = okc and asg
        ck.check(okc, "E-COMP", fn["q"] + "|" + path, "%s: each source's blob is decoded with that source's declared compression before merging (%s)" % (path, desc),
                 "%s: blobs are not decoded with the producing source's declared compression (%s)" % (path, desc), ir.loc(fn))
    b = builds[0]
    comp.sources_in_list_order(ck, "R-GROUP", "merge", b, adt)
    newp = [n for n in ir.walk_nodes(b["body"]) if n.get("k") == "call" and (n.get("q") or "").endswith("TilesReaderParameters::new")]
    lets = comp.lets_of(b)
    oku = False
    if newp:
        d = comp.deep_place(newp[0]["a"][1], lets)
        oku = d.endswith("TileCompression::Uncompressed")
    ck.check(oku, "E-COMP", b["q"] + "|declared", "the operation declares TileCompression::Uncompressed", "declared compression is not the constant Uncompressed", ir.loc(b))
    m = mt[0]
    tail = ir.unparen(ir.fn_block(m)).get("tail")
    okt = tail is not None and tail.get("k") == "mcall" and (tail.get("q") or "").endswith("VectorTile::to_blob") and not comp.calls_to(m, "compression::compress")
    ck.check(okt, "E-COMP", m["q"] + "|output", "merge_tiles returns the uncompressed VectorTile::to_blob()", "merge_tiles output is post-processed", ir.loc(m))

    # ---------------- R-GROUP
    loops = [n for n in ir.walk_nodes(m["body"]) if n.get("k") == "for"]
    okg = False
    why = ""
    if len(loops) == 2:
        outer, inner = loops
        bp_ = [x for p_ in m["params"] for x in ir.pat_binds(p_)]
        it_ = ir.strip(outer["iter"])
        while it_ is not None and it_.get("k") == "mcall" and it_.get("name") in ("into_iter", "iter") and not it_.get("a"):
            it_ = ir.strip(it_["recv"])
        order_ok = bool(bp_) and ir.local_hid(it_) == bp_[0]["hid"]
        nl = ir.pat_binds(inner["pat"])[0]
        tile_ok = ir.strip(inner["iter"]).get("k") == "field" and ir.strip(inner["iter"]).get("name") == "layers" or ".layers" in ir.place_str(inner["iter"])
        mapl = [n for n in ir.walk_nodes(m["body"]) if n.get("k") == "let" and n["pat"].get("k") == "bind" and "HashMap<" in n["pat"].get("t", "") and "VectorTileLayer" in n["pat"].get("t", "")]
        mh_ = mapl[0]["pat"]["hid"] if len(mapl) == 1 else None
        gets = [n for n in ir.walk_nodes(inner["body"]) if n.get("k") == "mcall" and n.get("name") in ("get_mut", "entry") and mh_ is not None and ir.local_hid(n["recv"]) == mh_]
        ins = [n for n in ir.walk_nodes(inner["body"]) if n.get("k") == "mcall" and n.get("name") == "insert" and mh_ is not None and ir.local_hid(n["recv"]) == mh_]
        adds = [n for n in ir.walk_nodes(inner["body"]) if n.get("k") == "mcall" and (n.get("q") or "").endswith("VectorTileLayer::add_from_layer")]
        key_ok = bool(gets) and ir.place_str(gets[0]["a"][0]).endswith(nl["name"] + ".name")
        ins_ok = len(ins) == 1 and ir.place_str(ins[0]["a"][0]).startswith(nl["name"] + ".name") and ir.local_hid(ins[0]["a"][1]) == nl["hid"]
        add_ok = len(adds) == 1 and ir.local_hid(adds[0]["a"][0]) == nl["hid"]
        okg = order_ok and tile_ok and key_ok and ins_ok and add_ok
        why = "order=%s key=%s insert=%s add=%s" % (order_ok, key_ok, ins_ok, add_ok)
    ck.check(okg, "R-GROUP", m["q"], "layers are grouped by their own name, in blob (= source) order: same name -> add_from_layer, new name -> insert",
             "merge_tiles does not group layers by their own name in source order (%s)" % why, ir.loc(m))
    fb = [n for n in ir.walk_nodes(m["body"]) if n.get("k") == "call" and (n.get("q") or "").endswith("VectorTile::from_blob")]
    ck.check(len(fb) == 1, "R-GROUP", m["q"] + "|decode", "every blob is decoded once", "blob decoding is not one call per blob", ir.loc(m))

    # ---------------- R-TAG-OWNER
    afl = [b2 for b2 in P.bodies if b2["q"].endswith("VectorTileLayer::add_from_layer")]
    avf = [b2 for b2 in P.bodies if b2["q"].endswith("VectorTileLayer::add_vector_tile_features")]
    if ck.anchor("R-TAG-OWNER", "add_from_layer + add_vector_tile_features", afl + avf, 2):
        b2 = afl[0]
        lp = [x for p in b2["params"] for x in ir.pat_binds(p) if "VectorTileLayer" in x["t"] and x["name"] != "self"]
        dec = [n for n in ir.walk_nodes(b2["body"]) if n.get("k") == "mcall" and (n.get("q") or "").endswith("decode_tag_ids")]
        add = [n for n in ir.walk_nodes(b2["body"]) if n.get("k") == "mcall" and (n.get("q") or "").endswith("add_vector_tile_features")]
        floops = [n for n in ir.walk_nodes(b2["body"]) if n.get("k") == "for"]
        oko = False
        if lp and len(dec) == 1 and len(add) == 1 and len(floops) == 1:
            fv = ir.pat_binds(floops[0]["pat"])[0]
            oko = ir.local_hid(dec[0]["recv"]) == lp[0]["hid"] and ir.place_str(dec[0]["a"][0]).endswith(fv["name"] + ".tag_ids") and \
                ir.place_str(add[0]["recv"]) == "self" and ir.local_hid(add[0]["a"][0]) == fv["hid"]
            # properties passed are the decoded ones
            ph = None
            for n in ir.walk_nodes(floops[0]["body"]):
                if n.get("k") == "let" and "init" in n and ir.contains(n["init"], lambda y: y is dec[0]):
                    ph = ir.pat_binds(n["pat"])[0]["hid"]
            oko = oko and ir.local_hid(add[0]["a"][1]) == ph
            # features come from the incoming layer, in order
            src_ok = False
            for n in ir.walk_nodes(b2["body"]):
                if n.get("k") == "call" and (n.get("q") or "").endswith("mem::swap"):
                    swapped = [a for a in n["a"] if ir.contains(a, lambda y: y.get("k") == "field" and y.get("name") == "features" and ir.local_hid(y["e"]) == lp[0]["hid"])]
                    others = [ir.local_hid(ir.strip(a)["e"] if ir.strip(a).get("k") == "ref" else a) for a in n["a"] if a not in swapped]
                    src_ok = len(swapped) == 1 and len(others) == 1 and ir.local_hid(floops[0]["iter"]) is not None and \
                        ir.local_hid(floops[0]["iter"]) in {ir.local_hid(y) for a in n["a"] if a not in swapped for y in ir.walk_nodes(a)}
            oko = oko and src_ok
        ck.check(oko, "R-TAG-OWNER", b2["q"], "tags are decoded with the incoming layer's tables, the moved feature is added to self with those properties, in order",
                 "add_from_layer does not decode with the origin layer's tables / move features in order", ir.loc(b2))
        b3 = avf[0]
        enc = [n for n in ir.walk_nodes(b3["body"]) if n.get("k") == "mcall" and (n.get("q") or "").endswith("encode_tag_ids")]
        psh = [n for n in ir.walk_nodes(b3["body"]) if n.get("k") == "mcall" and n.get("name") == "push" and ir.place_str(n["recv"]) == "self.features"]
        fp = [x for p in b3["params"] for x in ir.pat_binds(p) if "VectorTileFeature" in x["t"]]
        oke = len(enc) == 1 and ir.place_str(enc[0]["recv"]) == "self" and len(psh) == 1 and fp and ir.local_hid(psh[0]["a"][0]) == fp[0]["hid"]
        wr = [n["l"]["name"] for n in ir.walk_nodes(b3["body"]) if n.get("k") == "assign" and n["l"].get("k") == "field" and ir.local_hid(n["l"]["e"]) == (fp[0]["hid"] if fp else None)]
        ck.check(oke and wr == ["tag_ids"], "R-TAG-OWNER", b3["q"], "tags are re-encoded with the target's tables; only tag_ids of the moved feature is rewritten; it is appended",
                 "add_vector_tile_features rewrites %s / does not append the feature" % wr, ir.loc(b3))

    # ---------------- R-EXISTS
    sts = ir.stmts_of(ir.fn_block(gtd))
    oke = False
    for s in sts:
        x = s["e"] if s.get("k") == "semi" else s
        if x.get("k") == "if":
            c = ir.unparen(x["c"])
            mt_ = [y for y in ir.walk_nodes(x) if y.get("k") == "call" and (y.get("q") or "").endswith("::merge_tiles")]
            if c.get("k") == "mcall" and c.get("name") == "is_empty" and mt_ and ir.local_hid(c["recv"]) is not None and ir.local_hid(c["recv"]) == ir.local_hid(mt_[0]["a"][0]):
                oke = ir.contains(x["then"], lambda y: (y.get("q") or "").endswith("Option::None::{Ctor#0}")) and "else" in x and \
                    ir.contains(x["else"], lambda y: y.get("k") == "call" and (y.get("q") or "").endswith("::merge_tiles"))
    ck.check(oke, "R-EXISTS", gtd["q"], "lookup: no tile iff no source delivered one; otherwise the merge of all delivered blobs",
             "lookup existence does not follow `blobs.is_empty()`", ir.loc(gtd))
    fm = [n for n in ir.walk_nodes(gts["body"]) if n.get("k") == "mcall" and n.get("name") == "filter_map" and n["a"] and n["a"][0].get("k") == "closure"]
    oks = False
    if fm:
        clo = fm[0]["a"][0]
        for n in ir.walk_nodes(clo["body"]):
            if n.get("k") == "if":
                c = ir.unparen(n["c"])
                if c.get("k") == "mcall" and c.get("name") == "is_empty":
                    oks = ir.contains(n["then"], lambda y: (y.get("q") or "").endswith("Option::None::{Ctor#0}")) and "else" in n and ir.contains(n["else"], lambda y: (y.get("q") or "").endswith("::merge_tiles"))
    ck.check(oks, "R-EXISTS", gts["q"], "stream: a slot is emitted iff it received at least one blob", "stream existence does not follow slot emptiness", ir.loc(gts))
    # every source is asked (lookup)
    lks = [n for n in ir.walk_nodes(gtd["body"]) if n.get("k") == "mcall" and (n.get("q") or "").endswith("OperationTrait::get_tile_data")]
    esc = [n for lp_ in ir.walk_nodes(gtd["body"]) if lp_.get("k") == "for" for n in ir.walk_nodes(lp_["body"]) if n.get("k") in ("break", "ret")]
    ck.check(len(lks) == 1 and not esc, "R-EXISTS", gtd["q"] + "|all-sources", "lookup asks every source (no early exit from the loop)", "lookup stops before all sources were asked", ir.loc(gtd))

    # ---------------- shared MVT rules
    mvt.table_fidelity(ck, P)
    mvt.repeated_kept(ck, P)
    mvt.pbf_rules(ck, P)
    mvt.feature_write_rule(ck, P)
    mvt.vtlp_rules(ck, P)
    mvt.eq_hash_rules(ck, P)


def mutants(P):
    out = []
    base = "<versatiles_pipeline::operations::read::from_vectortiles_merged::Operation as versatiles_pipeline::traits::operation::OperationTrait>::"

    def other_comp(body):
        def fn(n):
            n["a"][1] = {"k": "ref", "e": {"k": "field", "name": "tile_compression", "e": {"k": "field", "name": "parameters", "e": {"k": "path", "r": "local", "name": "self", "hid": 2, "t": ""}, "t": ""}, "t": ""}, "t": "", "mut": False}
        return m_replace(body, lambda n: n.get("k") == "call" and (n.get("q") or "").endswith("compression::decompress"), fn)
    out.append(("merge lookup: decodes with the operation's own compression", base + "get_tile_data", other_comp))
    out.append(("merge stream: decodes with the operation's own compression", base + "get_tile_stream", other_comp))

    def wrong_owner(body):
        def fn(n):
            n["recv"] = {"k": "path", "r": "local", "name": "self", "hid": 2, "t": ""}
        return m_replace(body, lambda n: n.get("k") == "mcall" and (n.get("q") or "").endswith("decode_tag_ids"), fn)
    out.append(("add_from_layer: tags decoded with the target's tables", "versatiles_geometry::vector_tile::layer::VectorTileLayer::add_from_layer", wrong_owner))

    def early_exit(body):
        for n in ir.walk_nodes(body["body"]):
            if n.get("k") == "for":
                n["body"]["stmts"].append({"k": "semi", "e": {"k": "break", "t": "!", "s": n["s"]}})
                return True
        return False
    out.append(("merge lookup: stops after the first source", base + "get_tile_data", early_exit))
    return out
