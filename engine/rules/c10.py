"""C10 — merging vector tiles concatenates the features of equally named layers.

E-COMP            every source blob is decoded with the compression declared by the source that produced it, on both the
                  lookup and the stream path; the operation declares Uncompressed and its output is never compressed.
R-GROUP           merge_tiles groups layers by their own name: a layer joins the existing layer of the same name (add_from_layer)
                  or is inserted under its own name; blobs are merged in source order.
R-TAG-OWNER       add_from_layer decodes a feature's tags with the tables of the layer the feature came from and re-encodes
                  them with the target's tables; the feature itself (id, geometry type, geometry bytes) is moved unchanged.
R-EXISTS          the output exists iff at least one source delivered a tile (lookup: non-empty blob list; stream: non-empty slot).
R-TABLE-FIDELITY / R-PBF / R-FEATURE-WRITE  (shared with C11) apply to every source tile that is decoded and re-encoded.
R-COVER-OPS       coverage is the union of all sources (C03).
"""
from . import comp, ir, mvt
from .report import m_drop_stmt, m_replace

META = {
    "level": "other",
    "explanation": (
        "Decides the structural part of C10 on the merge operation (found through OperationTrait as the operation with a source "
        "list whose lookup calls merge_tiles): each source's blob is passed through decompress with that same source's "
        "declared compression before merging, on both paths; the declared output compression is the constant Uncompressed "
        "and merge_tiles returns VectorTile::to_blob() directly; merge_tiles keys its map by the incoming layer's own name; "
        "add_from_layer decodes tag ids with the incoming layer's tables and encodes with the receiver's, pushing the moved "
        "feature; existence follows non-emptiness of what the sources delivered. The PBF tables, table fidelity and the "
        "feature who-may-write census (shared with C11) cover what decoding and re-encoding preserves."),
    "not_decided": "layer order in the output (HashMap iteration; order is not part of the statement); feature/geometry equality as values; extent differences between merged layers.",
    "trusted_base": ["MVT 2.1 table in rules/mvt.py", "decompress summary (C04)", "HashMap semantics"],
}


def merge_ops(P):
    out = []
    for i in P.impls_of("::OperationTrait"):
        gtd = P.impl_method(i, "get_tile_data")
        if gtd and ir.contains(gtd["body"], lambda y: y.get("k") == "call" and (y.get("q") or "").endswith("::merge_tiles")):
            out.append(i)
    return out


def rules(ck, P):
    ops = merge_ops(P)
    if not ck.anchor("E-COMP", "merge operation", ops, 1):
        return
    impl = ops[0]
    adt = impl["self_adt"]
    # the stream files every blob of a 32x32 sub-box under get_tile_index3(coord) and turns the slot back into a coordinate with
    # get_coord3_by_index: both are part of the box algebra decided by R-BOX (shared with C02 / C03 / C09)
    from . import boxalg as _boxalg
    _boxalg.box_core_rules(ck, P)
    gtd = P.impl_method(impl, "get_tile_data")
    gts = P.impl_method(impl, "get_tile_stream")
    mt = [b for b in P.bodies if b["q"].endswith("from_vectortiles_merged::merge_tiles")]
    builds = [b for b in P.bodies if b.get("self_adt") == adt and b["q"].endswith("::build")]
    if not ck.anchor("E-COMP", "methods", [x for x in (gtd, gts) if x] + mt + builds, 4):
        return
    # ---------------- E-COMP on both paths
    for path, fn in (("lookup", gtd), ("stream", gts)):
        loops = [n for n in ir.walk_nodes(fn["body"]) if n.get("k") == "for" and ir.place_str(n["iter"]).startswith("self.sources")]
        okc = False
        desc = ""
        if len(loops) == 1 and ir.place_str(loops[0]["iter"]) in ("self.sources.iter()", "self.sources"):
            src = ir.pat_binds(loops[0]["pat"])[0]
            dc = [n for n in ir.walk_nodes(loops[0]["body"]) if n.get("k") == "call" and (n.get("q") or "").endswith("compression::decompress")]
            if len(dc) == 1:
                p1 = ir.place_str(dc[0]["a"][1])
                root = ir.strip(dc[0]["a"][1])
                while root is not None and root.get("k") in ("field", "mcall"):
                    root = ir.strip(root["e"] if root.get("k") == "field" else root["recv"])
                desc = p1
                okc = p1.endswith("get_parameters().tile_compression") and ir.local_hid(root) == src["hid"]
                # the decompressed blob is what gets collected: every push in the loop takes the decompress call itself or a local
                # that was (re)bound to it (`blob = decompress(blob, ..)?; v.push(blob)` and `v.push(decompress(raw, ..)?)` alike)
                def from_dc(e):
                    return ir.contains(e, lambda z: z is dc[0])
                bound = {ir.local_hid(y["l"]) for y in ir.walk_nodes(loops[0]["body"]) if y.get("k") == "assign" and from_dc(y["r"])}
                bound |= {x["hid"] for y in ir.walk_nodes(loops[0]["body"]) if y.get("k") == "let" and "init" in y and from_dc(y["init"]) and y["pat"].get("k") == "bind"
                          for x in ir.pat_binds(y["pat"])}
                bound.discard(None)
                # a local bound to the call and later overwritten with something else no longer holds it
                other = {ir.local_hid(y["l"]) for y in ir.walk_nodes(loops[0]["body"]) if y.get("k") == "assign" and not from_dc(y["r"])}
                bound -= other
                pushes = [y for y in ir.walk_nodes(loops[0]["body"]) if y.get("k") == "mcall" and y.get("name") in ("push", "push_back", "insert", "extend", "append", "extend_from_slice")]
                okc = okc and bool(pushes) and all(y.get("name") == "push" and (from_dc(y["a"][0]) or ir.local_hid(y["a"][0]) in bound) for y in pushes)
        ck.check(okc, "E-COMP", fn["q"] + "|" + path, "%s: each source's blob is decoded with that source's declared compression before merging (%s)" % (path, desc),
                 "%s: blobs are not decoded with the producing source's declared compression (%s)" % (path, desc), ir.loc(fn))
    b = builds[0]
    comp.sources_in_list_order(ck, "R-GROUP", "merge", b, adt)
    newp = [n for n in ir.walk_nodes(b["body"]) if n.get("k") == "call" and (n.get("q") or "").endswith("TilesReaderParameters::new")]
    lets = comp.lets_of(b)
    oku = False
    if newp:
        d = comp.deep_place(newp[0]["a"][1], lets)
        oku = d.endswith("TileCompression::Uncompressed")
    ck.check(oku, "E-COMP", b["q"] + "|declared", "the operation declares TileCompression::Uncompressed", "declared compression is not the constant Uncompressed", ir.loc(b))
    m = mt[0]
    tail = ir.unparen(ir.fn_block(m)).get("tail")
    okt = tail is not None and tail.get("k") == "mcall" and (tail.get("q") or "").endswith("VectorTile::to_blob") and not comp.calls_to(m, "compression::compress")
    ck.check(okt, "E-COMP", m["q"] + "|output", "merge_tiles returns the uncompressed VectorTile::to_blob()", "merge_tiles output is post-processed", ir.loc(m))

    # ---------------- R-GROUP
    # private helpers of the module are inlined (`collect_layer(&mut layers, new_layer)?` is the same grouping), and locals are
    # followed through `let p = x` / `let p = &mut x` re-bindings (which is what inlining a call produces)
    mi = ir.inline_helpers(P, m, ir.same_impl_helper(m))
    al_ = {}
    for n in ir.walk_nodes(mi["body"]):
        if n.get("k") == "let" and "init" in n and n["pat"].get("k") == "bind" and ir.local_hid(n["init"]) is not None:
            al_[n["pat"]["hid"]] = ir.local_hid(n["init"])

    def ch(e):
        h, k_ = ir.local_hid(e), 0
        while h in al_ and k_ < 10:
            h, k_ = al_[h], k_ + 1
        return h

    def name_of(e, h):
        # `<h>.name`, possibly cloned / borrowed
        e = ir.unparen(ir.strip(e))
        while e is not None and e.get("k") == "mcall" and e.get("name") in ("clone", "to_owned", "to_string", "as_str") and not e.get("a"):
            e = ir.unparen(ir.strip(e["recv"]))
        return e is not None and e.get("k") == "field" and e.get("name") == "name" and ch(e["e"]) == h
    loops = [n for n in ir.walk_nodes(mi["body"]) if n.get("k") == "for"]
    okg = False
    why = ""
    if len(loops) == 2:
        outer, inner = loops
        bp_ = [x for p_ in m["params"] for x in ir.pat_binds(p_)]
        it_ = ir.strip(outer["iter"])
        while it_ is not None and it_.get("k") == "mcall" and it_.get("name") in ("into_iter", "iter") and not it_.get("a"):
            it_ = ir.strip(it_["recv"])
        order_ok = bool(bp_) and ch(it_) == bp_[0]["hid"]
        nl = ir.pat_binds(inner["pat"])[0]
        tile_ok = ir.strip(inner["iter"]).get("k") == "field" and ir.strip(inner["iter"]).get("name") == "layers" or ".layers" in ir.place_str(inner["iter"])
        mapl = [n for n in ir.walk_nodes(m["body"]) if n.get("k") == "let" and n["pat"].get("k") == "bind" and "HashMap<" in n["pat"].get("t", "") and "VectorTileLayer" in n["pat"].get("t", "")]
        mh_ = mapl[0]["pat"]["hid"] if len(mapl) == 1 else None
        gets = [n for n in ir.walk_nodes(inner["body"]) if n.get("k") == "mcall" and n.get("name") in ("get_mut", "entry") and mh_ is not None and ch(n["recv"]) == mh_]
        ins = [n for n in ir.walk_nodes(inner["body"]) if n.get("k") == "mcall" and n.get("name") == "insert" and mh_ is not None and ch(n["recv"]) == mh_]
        adds = [n for n in ir.walk_nodes(inner["body"]) if n.get("k") == "mcall" and (n.get("q") or "").endswith("VectorTileLayer::add_from_layer")]
        key_ok = bool(gets) and all(name_of(g_["a"][0], nl["hid"]) for g_ in gets)
        ins_ok = len(ins) == 1 and name_of(ins[0]["a"][0], nl["hid"]) and ch(ins[0]["a"][1]) == nl["hid"]
        add_ok = len(adds) == 1 and ch(adds[0]["a"][0]) == nl["hid"]
        okg = order_ok and tile_ok and key_ok and ins_ok and add_ok
        why = "order=%s key=%s insert=%s add=%s" % (order_ok, key_ok, ins_ok, add_ok)
    ck.check(okg, "R-GROUP", m["q"], "layers are grouped by their own name, in blob (= source) order: same name -> add_from_layer, new name -> insert",
             "merge_tiles does not group layers by their own name in source order (%s)" % why, ir.loc(m))
    fb = [n for n in ir.walk_nodes(m["body"]) if n.get("k") == "call" and (n.get("q") or "").endswith("VectorTile::from_blob")]
    ck.check(len(fb) == 1, "R-GROUP", m["q"] + "|decode", "every blob is decoded once", "blob decoding is not one call per blob", ir.loc(m))

    # ---------------- R-TAG-OWNER
    afl = [b2 for b2 in P.bodies if b2["q"].endswith("VectorTileLayer::add_from_layer")]
    avf = [b2 for b2 in P.bodies if b2["q"].endswith("VectorTileLayer::add_vector_tile_features")]
    if ck.anchor("R-TAG-OWNER", "add_from_layer + add_vector_tile_features", afl + avf, 2):
        # the helper that re-encodes and appends is inlined, so `self.add_vector_tile_features(f, p)` and its two statements written
        # in place are the same thing; locals are followed through plain re-bindings
        b2 = ir.inline_helpers(P, afl[0], lambda cb: cb["q"].endswith("VectorTileLayer::add_vector_tile_features") or ir.same_impl_helper(afl[0])(cb))
        allp = [x for p in b2["params"] for x in ir.pat_binds(p)]
        lp = [x for x in allp if "VectorTileLayer" in x["t"] and x["name"] not in ("self", "__self")]
        sp = [x for x in allp if x["name"] in ("self", "__self")]
        al2 = {}
        for n in ir.walk_nodes(b2["body"]):
            if n.get("k") == "let" and "init" in n and n["pat"].get("k") == "bind" and ir.local_hid(n["init"]) is not None:
                al2[n["pat"]["hid"]] = ir.local_hid(n["init"])

        def ch2(e):
            h, k_ = ir.local_hid(e), 0
            while h in al2 and k_ < 10:
                h, k_ = al2[h], k_ + 1
            return h

        def is_features_of(e, h):
            e = ir.unparen(ir.strip(e))
            return e is not None and e.get("k") == "field" and e.get("name") == "features" and ch2(e["e"]) == h
        dec = [n for n in ir.walk_nodes(b2["body"]) if n.get("k") == "mcall" and (n.get("q") or "").endswith("decode_tag_ids")]
        enc = [n for n in ir.walk_nodes(b2["body"]) if n.get("k") == "mcall" and (n.get("q") or "").endswith("VectorTileLayer::encode_tag_ids")]
        floops = [n for n in ir.walk_nodes(b2["body"]) if n.get("k") == "for"]
        oko = False
        if lp and sp and len(dec) == 1 and len(enc) == 1 and len(floops) == 1:
            fv = ir.pat_binds(floops[0]["pat"])[0]
            da = ir.unparen(ir.strip(dec[0]["a"][0]))
            oko = ch2(dec[0]["recv"]) == lp[0]["hid"] and da.get("k") == "field" and da.get("name") == "tag_ids" and ch2(da["e"]) == fv["hid"]
            # properties passed on are the decoded ones
            ph = None
            for n in ir.walk_nodes(floops[0]["body"]):
                if n.get("k") == "let" and "init" in n and n["pat"].get("k") == "bind" and ir.contains(n["init"], lambda y: y is dec[0]):
                    ph = n["pat"]["hid"]
            oko = oko and ch2(enc[0]["recv"]) == sp[0]["hid"] and (ch2(enc[0]["a"][0]) == ph or ir.contains(enc[0]["a"][0], lambda y: y is dec[0]))
            # the moved feature gets the new ids (nothing else of it is rewritten) and is appended to self
            fw = [n for n in ir.walk_nodes(floops[0]["body"]) if n.get("k") in ("assign", "assignop") and n["l"].get("k") == "field" and ch2(n["l"]["e"]) == fv["hid"]]
            oko = oko and len(fw) == 1 and fw[0]["k"] == "assign" and fw[0]["l"]["name"] == "tag_ids" and ir.contains(fw[0]["r"], lambda y: y is enc[0])
            psh = [n for n in ir.walk_nodes(floops[0]["body"]) if n.get("k") == "mcall" and n.get("name") in ("push", "insert", "push_front") and is_features_of(n["recv"], sp[0]["hid"])]
            oko = oko and len(psh) == 1 and psh[0]["name"] == "push" and ch2(psh[0]["a"][0]) == fv["hid"]
            # features come from the incoming layer, in order: swapped / taken out of `layer.features`, or iterated directly
            src_ok = False
            it0 = ir.unparen(ir.strip(floops[0]["iter"]))
            while it0 is not None and it0.get("k") == "mcall" and it0.get("name") in ("into_iter", "drain") and ch2(it0) is None:
                if it0["name"] == "drain" and not (len(it0.get("a", ())) == 1 and it0["a"][0].get("k") in ("range", "struct") and ".." in (it0["a"][0].get("src") or "..")):
                    break
                it0 = ir.unparen(ir.strip(it0["recv"]))
            if is_features_of(it0, lp[0]["hid"]):
                src_ok = True
            ih = ch2(it0)
            for n in ir.walk_nodes(b2["body"]):
                if ih is None:
                    break
                if n.get("k") == "call" and (n.get("q") or "").endswith("mem::swap") and len(n["a"]) == 2:
                    swapped = [a for a in n["a"] if is_features_of(a, lp[0]["hid"])]
                    others = [ch2(a) for a in n["a"] if not is_features_of(a, lp[0]["hid"])]
                    src_ok = src_ok or (len(swapped) == 1 and others == [ih])
                if n.get("k") == "let" and "init" in n and n["pat"].get("k") == "bind" and n["pat"]["hid"] == ih:
                    i_ = ir.unparen(ir.strip(n["init"]))
                    if i_.get("k") == "call" and (i_.get("q") or "").endswith(("mem::take", "mem::replace")) and is_features_of(i_["a"][0], lp[0]["hid"]):
                        src_ok = True
            oko = oko and src_ok
        b2 = afl[0]
        ck.check(oko, "R-TAG-OWNER", b2["q"], "tags are decoded with the incoming layer's tables, the moved feature is added to self with those properties, in order",
                 "add_from_layer does not decode with the origin layer's tables / move features in order", ir.loc(b2))
        b3 = avf[0]
        enc = [n for n in ir.walk_nodes(b3["body"]) if n.get("k") == "mcall" and (n.get("q") or "").endswith("encode_tag_ids")]
        psh = [n for n in ir.walk_nodes(b3["body"]) if n.get("k") == "mcall" and n.get("name") == "push" and ir.place_str(n["recv"]) == "self.features"]
        fp = [x for p in b3["params"] for x in ir.pat_binds(p) if "VectorTileFeature" in x["t"]]
        oke = len(enc) == 1 and ir.place_str(enc[0]["recv"]) == "self" and len(psh) == 1 and fp and ir.local_hid(psh[0]["a"][0]) == fp[0]["hid"]
        wr = [n["l"]["name"] for n in ir.walk_nodes(b3["body"]) if n.get("k") == "assign" and n["l"].get("k") == "field" and ir.local_hid(n["l"]["e"]) == (fp[0]["hid"] if fp else None)]
        ck.check(oke and wr == ["tag_ids"], "R-TAG-OWNER", b3["q"], "tags are re-encoded with the target's tables; only tag_ids of the moved feature is rewritten; it is appended",
                 "add_vector_tile_features rewrites %s / does not append the feature" % wr, ir.loc(b3))

    # ---------------- R-EXISTS
    fblk = ir.fn_block(gtd)
    sts = list(ir.stmts_of(fblk))
    if ir.unparen(fblk).get("tail") is not None:
        sts.append(ir.unparen(fblk)["tail"])
    oke = False

    def _is_none(y):
        return (y.get("q") or "").endswith("Option::None::{Ctor#0}")

    def _is_merge(y):
        return y.get("k") == "call" and (y.get("q") or "").endswith("::merge_tiles")
    for si, s in enumerate(sts):
        x = s["e"] if s.get("k") == "semi" else s
        if x.get("k") == "if":
            c = ir.unparen(x["c"])
            neg = False
            while c.get("k") == "un" and c.get("op") == "!":
                c, neg = ir.unparen(c["e"]), not neg
            after = sts[si + 1:]
            mt_ = [y for z in [x] + after for y in ir.walk_nodes(z) if _is_merge(y)]
            if c.get("k") == "mcall" and c.get("name") == "is_empty" and mt_ and ir.local_hid(c["recv"]) is not None and ir.local_hid(c["recv"]) == ir.local_hid(mt_[0]["a"][0]):
                empty_arm, full_arm = (x.get("else"), x["then"]) if neg else (x["then"], x.get("else"))
                if empty_arm is not None and full_arm is not None:
                    # if blobs.is_empty() { None } else { merge }
                    oke = ir.contains(empty_arm, _is_none) and not ir.contains(empty_arm, _is_merge) and ir.contains(full_arm, _is_merge) and not ir.contains(full_arm, _is_none)
                elif empty_arm is not None and not neg:
                    # if blobs.is_empty() { return Ok(None) }  ...  Ok(Some(merge))
                    leaves = ir.contains(empty_arm, lambda y: y.get("k") == "ret" and ir.contains(y, _is_none)) and not ir.contains(empty_arm, _is_merge)
                    oke = leaves and any(ir.contains(z, _is_merge) for z in after) and not any(ir.contains(z, _is_none) for z in after)
                elif full_arm is not None and neg:
                    # if !blobs.is_empty() { return Ok(Some(merge)) }  ...  Ok(None)
                    leaves = ir.contains(full_arm, lambda y: y.get("k") == "ret" and ir.contains(y, _is_merge)) and not ir.contains(full_arm, _is_none)
                    oke = leaves and any(ir.contains(z, _is_none) for z in after) and not any(ir.contains(z, _is_merge) for z in after)
    ck.check(oke, "R-EXISTS", gtd["q"], "lookup: no tile iff no source delivered one; otherwise the merge of all delivered blobs",
             "lookup existence does not follow `blobs.is_empty()`", ir.loc(gtd))
    fm = [n for n in ir.walk_nodes(gts["body"]) if n.get("k") == "mcall" and n.get("name") == "filter_map" and n["a"] and n["a"][0].get("k") == "closure"]
    oks = False
    if fm:
        clo = fm[0]["a"][0]
        for n in ir.walk_nodes(clo["body"]):
            if n.get("k") == "if":
                c = ir.unparen(n["c"])
                if c.get("k") == "mcall" and c.get("name") == "is_empty":
                    oks = ir.contains(n["then"], lambda y: (y.get("q") or "").endswith("Option::None::{Ctor#0}")) and "else" in n and ir.contains(n["else"], lambda y: (y.get("q") or "").endswith("::merge_tiles"))
    ck.check(oks, "R-EXISTS", gts["q"], "stream: a slot is emitted iff it received at least one blob", "stream existence does not follow slot emptiness", ir.loc(gts))
    # every source is asked (lookup)
    lks = [n for n in ir.walk_nodes(gtd["body"]) if n.get("k") == "mcall" and (n.get("q") or "").endswith("OperationTrait::get_tile_data")]
    esc = [n for lp_ in ir.walk_nodes(gtd["body"]) if lp_.get("k") == "for" for n in ir.walk_nodes(lp_["body"]) if n.get("k") in ("break", "ret")]
    ck.check(len(lks) == 1 and not esc, "R-EXISTS", gtd["q"] + "|all-sources", "lookup asks every source (no early exit from the loop)", "lookup stops before all sources were asked", ir.loc(gtd))

    # ---------------- shared MVT rules
    mvt.table_fidelity(ck, P)
    mvt.repeated_kept(ck, P)
    mvt.pbf_rules(ck, P)
    mvt.feature_write_rule(ck, P)
    mvt.vtlp_rules(ck, P)
    mvt.eq_hash_rules(ck, P)


def mutants(P):
    out = []
    base = "<versatiles_pipeline::operations::read::from_vectortiles_merged::Operation as versatiles_pipeline::traits::operation::OperationTrait>::"

    def other_comp(body):
        def fn(n):
            n["a"][1] = {"k": "ref", "e": {"k": "field", "name": "tile_compression", "e": {"k": "field", "name": "parameters", "e": {"k": "path", "r": "local", "name": "self", "hid": 2, "t": ""}, "t": ""}, "t": ""}, "t": "", "mut": False}
        return m_replace(body, lambda n: n.get("k") == "call" and (n.get("q") or "").endswith("compression::decompress"), fn)
    out.append(("merge lookup: decodes with the operation's own compression", base + "get_tile_data", other_comp))
    out.append(("merge stream: decodes with the operation's own compression", base + "get_tile_stream", other_comp))

    def wrong_owner(body):
        def fn(n):
            n["recv"] = {"k": "path", "r": "local", "name": "self", "hid": 2, "t": ""}
        return m_replace(body, lambda n: n.get("k") == "mcall" and (n.get("q") or "").endswith("decode_tag_ids"), fn)
    out.append(("add_from_layer: tags decoded with the target's tables", "versatiles_geometry::vector_tile::layer::VectorTileLayer::add_from_layer", wrong_owner))

    def early_exit(body):
        for n in ir.walk_nodes(body["body"]):
            if n.get("k") == "for":
                n["body"]["stmts"].append({"k": "semi", "e": {"k": "break", "t": "!", "s": n["s"]}})
                return True
        return False
    out.append(("merge lookup: stops after the first source", base + "get_tile_data", early_exit))
    return out
