"""Is a NaN argument rejected?  Path evaluation of validating functions with one float input set to NaN.

Every IEEE comparison with a NaN operand is false (`!=` is true).  So `ensure!(x >= lo)` rejects NaN, while `if x < lo || x > hi { bail!() }`
lets it pass; after that `f64::min / max` silently replace NaN by the other operand and the value looks valid.  `rejects()` walks the
body of a validating function with three-valued conditions — comparisons that involve the NaN value are decided, all others are
unknown and both branches are followed — and answers whether EVERY path ends in an early return (`return Err`, `bail!`, `ensure!`, a `?` on
a callee that itself always rejects).  Calls into workspace functions that receive the NaN value are evaluated the same way.

Values: NAN, NUM (some other number), ("box", k) = a 4-float aggregate (GeoBBox) whose k-th component is NaN, ("tuple", [..]).
"""
from . import ir

NAN, NUM, UNK = "nan", "num", None
PROPAGATE = ("floor", "ceil", "round", "trunc", "abs", "sqrt", "powi", "powf", "exp", "ln", "log", "sin", "cos", "tan", "atan", "asin", "acos", "sinh", "cosh", "tanh",
             "to_radians", "to_degrees", "mul_add", "recip", "signum", "clamp", "copysign", "rem_euclid", "div_euclid", "fract")
DROP = ("min", "max", "minimum", "maximum")


def _t3_not(a):
    return None if a is None else (not a)


def _t3_or(a, b):
    if a is True or b is True:
        return True
    if a is False and b is False:
        return False
    return None


def _t3_and(a, b):
    if a is False or b is False:
        return False
    if a is True and b is True:
        return True
    return None


class Flow:
    def __init__(self, P, depth=0):
        self.P = P
        self.depth = depth
        self.env = {}
        self.accepted = []      # locations where a path left the function normally

    # ---- values
    def val(self, n):
        n = ir.unparen(ir.strip(n)) if n is not None else {}
        k = n.get("k")
        if k in ("ref", "deref", "cast"):
            return self.val(n["e"])
        if k == "un":
            v = self.val(n["e"])
            return v if n.get("op") in ("-", "*", "&") else NUM
        if k == "path":
            return self.env.get(n.get("hid"), NUM) if n.get("r") == "local" else NUM
        if k == "field":
            b = self.val(n["e"])
            if isinstance(b, tuple) and b[0] == "box":
                return NAN if n.get("name") == str(b[1]) else NUM
            if isinstance(b, tuple) and b[0] == "tuple" and n.get("name", "").isdigit() and int(n["name"]) < len(b[1]):
                return b[1][int(n["name"])]
            return NUM
        if k == "index":
            b = self.val(n["e"])
            i = ir.const_eval(n["i"], {})
            if isinstance(b, tuple) and b[0] == "box" and i is not None:
                return NAN if i == b[1] else NUM
            return NUM
        if k == "bin" and n.get("op") in ("+", "-", "*", "/", "%"):
            return NAN if NAN in (self.val(n["l"]), self.val(n["r"])) else NUM
        if k == "tup":
            return ("tuple", [self.val(x) for x in n["es"]])
        if k == "mcall":
            r = self.val(n["recv"])
            nm = n.get("name")
            if isinstance(r, tuple) and r[0] == "box":
                if nm in ("as_tuple", "as_array", "to_tuple"):
                    return ("tuple", [NAN if i == r[1] else NUM for i in range(4)])
                if nm in ("clone", "to_owned"):
                    return r
                return NUM
            if nm in ("clone", "to_owned"):
                return r
            args = [self.val(a) for a in n.get("a", ())]
            if nm in DROP:
                return NUM
            if r == NAN or NAN in args:
                return NAN if nm in PROPAGATE else NAN
            return NUM
        if k == "block":
            return self.val(n.get("tail"))
        if k == "try" or k == "await":
            return self.val(n["e"])
        return NUM

    # ---- conditions (three-valued)
    def cond(self, n):
        n = ir.unparen(ir.strip(n))
        k = n.get("k")
        if k == "call" and (n.get("q") or "") == "anyhow::__private::not":
            return _t3_not(self.cond(n["a"][0]))
        if k == "un" and n.get("op") == "!":
            return _t3_not(self.cond(n["e"]))
        if k == "bin" and n.get("op") == "||":
            return _t3_or(self.cond(n["l"]), self.cond(n["r"]))
        if k == "bin" and n.get("op") == "&&":
            return _t3_and(self.cond(n["l"]), self.cond(n["r"]))
        if k == "bin" and n.get("op") in ("<", "<=", ">", ">=", "==", "!="):
            if NAN in (self.val(n["l"]), self.val(n["r"])):
                return n["op"] == "!="
            return None
        if k == "mcall" and not n.get("a"):
            r = self.val(n["recv"])
            if r == NAN:
                if n["name"] == "is_nan":
                    return True
                if n["name"] in ("is_finite", "is_normal", "is_sign_positive", "is_sign_negative", "is_infinite"):
                    return False if n["name"] in ("is_finite", "is_normal", "is_infinite") else None
        if k == "mcall" and n.get("name") == "contains" and n.get("a") and self.val(n["a"][0]) == NAN:
            return False            # range.contains(&NaN) compares
        if k == "lit" and n.get("lk") == "bool":
            return bool(n["v"])
        return None

    # ---- calls that may reject
    def call_rejects(self, n):
        """True if the (workspace) call always returns Err for the current NaN-carrying arguments"""
        if n.get("k") not in ("call", "mcall") or self.depth > 3:
            return False
        q = n.get("rvq") or n.get("q") or ""
        cal = self.P.fn(q)
        if cal is None or not self.P.is_workspace(q):
            return False
        args = ([n["recv"]] if n.get("k") == "mcall" else []) + list(n.get("a", ()))
        vals = [self.val(a) for a in args]
        if not any(v == NAN or (isinstance(v, tuple) and (v[0] == "box" or NAN in v[1])) for v in vals):
            return False
        ps = [x for p_ in cal["params"] for x in ir.pat_binds(p_)]
        if len(ps) != len(vals):
            return False
        sub = Flow(self.P, self.depth + 1)
        sub.env = {p_["hid"]: v for p_, v in zip(ps, vals)}
        return sub.always_rejects(cal)

    # ---- statements / paths
    def always_rejects(self, b):
        blk = ir.fn_block(b)
        return not self.run(blk)

    def run(self, blk):
        """True if some path falls through the end of the block"""
        blk = ir.unparen(ir.strip(blk))
        if blk.get("k") != "block":
            return self.expr_falls(blk)
        for st in blk.get("stmts", ()):
            if not self.stmt_falls(st):
                return False
        if "tail" in blk:
            return self.expr_falls(blk["tail"])
        return True

    def stmt_falls(self, st):
        k = st.get("k")
        if k == "semi":
            return self.expr_falls(st["e"])
        if k == "let":
            if "init" in st:
                if not self.expr_falls(st["init"]):
                    return False
                v = self.val(st["init"])
                pat = st["pat"]
                if pat.get("k") == "bind":
                    self.env[pat["hid"]] = v
                elif pat.get("k") == "tuple" and isinstance(v, tuple) and v[0] == "tuple":
                    for p_, x in zip(pat.get("ps", ()), v[1]):
                        if p_.get("k") == "bind":
                            self.env[p_["hid"]] = x
            return True
        return self.expr_falls(st)

    def expr_falls(self, e):
        e = ir.unparen(ir.strip(e)) if e is not None else {}
        k = e.get("k")
        if k == "ret":
            return False
        if k == "call" and (e.get("q") or "").endswith(("panicking::panic", "panic_fmt", "begin_panic")):
            return False
        if k == "if":
            c = self.cond(e["c"])
            falls = False
            if c is not False:
                saved = dict(self.env)
                falls |= self.run(e["then"])
                self.env = saved
            if c is not True:
                falls |= self.run(e["else"]) if "else" in e else True
            return falls
        if k == "block":
            return self.run(e)
        if k == "try":
            inner = ir.unparen(ir.strip(e["e"]))
            while inner.get("k") == "mcall" and inner.get("name") in ("context", "with_context", "map_err"):
                inner = ir.unparen(ir.strip(inner["recv"]))
            if self.call_rejects(inner):
                return False
            return self._children_fall(inner)
        if k == "match":
            # any arm may be taken
            if not self.expr_falls(e["e"]):
                return False
            return any(self.run(a["body"]) if ir.unparen(ir.strip(a["body"])).get("k") == "block" else self.expr_falls(a["body"]) for a in e.get("arms", ()))
        return self._children_fall(e)

    def _children_fall(self, e):
        # a `?` / return nested inside an ordinary expression (call arguments, struct fields ...)
        for key in ("recv", "e", "l", "r"):
            if isinstance(e.get(key), dict) and not self.expr_falls(e[key]):
                return False
        for key in ("a", "es"):
            for x in e.get(key, ()) or ():
                if isinstance(x, dict) and not self.expr_falls(x):
                    return False
        for f in e.get("fields", ()) or ():
            if isinstance(f, dict) and isinstance(f.get("e"), dict) and not self.expr_falls(f["e"]):
                return False
        return True


def box_component_rejected(P, fq, box_param_type="GeoBBox"):
    """for `fn fq(.., bbox: &GeoBBox, ..) -> Result`: {component index: True if a NaN there is always rejected}"""
    b = P.fn(fq)
    if b is None:
        return None
    ps = [x for p_ in b["params"] for x in ir.pat_binds(p_)]
    bp = [x for x in ps if x["t"].endswith(box_param_type)]
    if len(bp) != 1:
        return None
    out = {}
    for k in range(4):
        fl = Flow(P)
        fl.env = {x["hid"]: NUM for x in ps}
        fl.env[bp[0]["hid"]] = ("box", k)
        out[k] = fl.always_rejects(b)
    return out
