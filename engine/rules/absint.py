"""Small abstract interpreter over TSIR for finite abstract domains (no Rust code is executed; the IR of
a function is evaluated over abstract values such as 'encoding of a blob' or 'enum variant').

Values:
  bool / int / str                       concrete scalars
  ("v", "path::Enum::Variant", [fields]) enum variant / tuple-struct value (fields optional)
  ("blob", enc)                          abstract payload whose encoding is enc in {'U','G','B'} (content = the stored tile)
  ("set", frozenset)                     EnumSet of variants
  ("struct", {field: value})             struct value
  ("tuple", [..])
  ("clo", node, env)                     closure
  OPAQUE                                 unknown value (formatting machinery, error payloads)
"""

OPAQUE = ("opaque",)


class Return(Exception):
    def __init__(self, v):
        self.v = v


class Break(Exception):
    pass


class Continue(Exception):
    pass


class Unsupported(Exception):
    pass


def vname(q):
    """canonical variant name from a ctor/variant def path"""
    if q is None:
        return None
    if q.endswith("::{Ctor#0}"):
        q = q[: -len("::{Ctor#0}")]
    return q


def mk_variant(q, fields=None):
    return ("v", vname(q), tuple(fields or ()))


def ok(v):
    return mk_variant("core::result::Result::Ok", [v])


def err(v=OPAQUE):
    return mk_variant("core::result::Result::Err", [v])


def some(v):
    return mk_variant("core::option::Option::Some", [v])


NONE = mk_variant("core::option::Option::None")


def is_variant(v, suffix):
    return isinstance(v, tuple) and len(v) == 3 and v[0] == "v" and v[1].endswith(suffix)


class Interp:
    def __init__(self, P, handlers=None, max_depth=6):
        self.P = P
        self.handlers = handlers or {}
        self.max_depth = max_depth
        self.trace = []   # (event, detail) tuples recorded by handlers
        self.depth = 0

    # ---- entry
    def call_fn(self, q, args):
        b = self.P.fn(q)
        if b is None:
            raise Unsupported("no body for " + q)
        if self.depth >= self.max_depth:
            raise Unsupported("depth")
        env = {}
        params = b.get("params", [])
        for p, a in zip(params, args):
            if not self.match(p, a, env):
                raise Unsupported("param pattern")
        self.depth += 1
        try:
            body = b["body"]
            try:
                return self.ev(body, env)
            except Return as r:
                return r.v
        finally:
            self.depth -= 1

    # ---- patterns
    def match(self, p, v, env):
        k = p.get("k")
        if k == "wild":
            return True
        if k == "bind":
            if "sub" in p and not self.match(p["sub"], v, env):
                return False
            env[p["hid"]] = v
            return True
        if k == "ref":
            return self.match(p["p"], v, env)
        if k == "or":
            for x in p["ps"]:
                e2 = dict(env)
                if self.match(x, v, e2):
                    env.update(e2)
                    return True
            return False
        if k == "tuple":
            if not (isinstance(v, tuple) and v[0] == "tuple" and len(v[1]) == len(p["ps"])):
                if v is OPAQUE:
                    for x in p["ps"]:
                        self.match(x, OPAQUE, env)
                    return True
                return False
            return all(self.match(x, y, env) for x, y in zip(p["ps"], v[1]))
        if k == "tstruct":
            if v is OPAQUE:
                raise Unsupported("match on opaque value")
            if not (isinstance(v, tuple) and v[0] == "v"):
                return False
            if v[1] != vname(p.get("q")):
                return False
            fs = list(v[2])
            if len(fs) < len(p["ps"]):
                fs = fs + [OPAQUE] * (len(p["ps"]) - len(fs))
            return all(self.match(x, y, env) for x, y in zip(p["ps"], fs))
        if k == "struct":
            if isinstance(v, tuple) and v[0] == "struct":
                for f in p["fields"]:
                    if not self.match(f["p"], v[1].get(f["name"], OPAQUE), env):
                        return False
                return True
            if isinstance(v, tuple) and v[0] == "v":
                return v[1] == vname(p.get("q"))
            return False
        if k == "expr":
            e = p["e"]
            if e.get("k") == "lit":
                return v == e.get("v")
            if e.get("k") == "path":
                if v is OPAQUE:
                    raise Unsupported("match on opaque value")
                return isinstance(v, tuple) and v[0] == "v" and v[1] == vname(e.get("q"))
        if k == "range":
            return OPAQUE is not v and isinstance(v, int)
        raise Unsupported("pattern " + str(k))

    # ---- expressions
    def ev(self, n, env):
        k = n.get("k")
        m = getattr(self, "ev_" + k, None)
        if m is None:
            raise Unsupported("expr kind " + str(k))
        return m(n, env)

    def ev_lit(self, n, env):
        return n.get("v")

    def ev_path(self, n, env):
        if n.get("r") == "local":
            if n["hid"] not in env:
                return OPAQUE
            return env[n["hid"]]
        if n.get("r") == "def":
            dk = n.get("dk", "")
            if dk.startswith("Ctor"):
                return mk_variant(n["q"])
            if dk in ("Const", "AssocConst", "Static"):
                b = self.P.fn(n["q"])
                if b is not None:
                    return self.ev(b["body"], {})
                return OPAQUE
            if dk in ("Fn", "AssocFn"):
                return ("fnref", n.get("rvq") or n["q"])
        return OPAQUE

    def ev_block(self, n, env):
        for st in n.get("stmts", ()):
            self.ev(st, env)
        if "tail" in n:
            return self.ev(n["tail"], env)
        return ("tuple", [])

    def ev_semi(self, n, env):
        self.ev(n["e"], env)
        return ("tuple", [])

    def ev_let(self, n, env):
        v = self.ev(n["init"], env) if "init" in n else OPAQUE
        if not self.match(n["pat"], v, env):
            if "els" in n:
                self.ev(n["els"], env)
            raise Unsupported("let pattern failed")
        return ("tuple", [])

    def ev_letx(self, n, env):
        v = self.ev(n["init"], env)
        return self.match(n["pat"], v, env)

    def ev_if(self, n, env):
        c = self.ev(n["c"], env)
        if c is OPAQUE:
            raise Unsupported("opaque condition")
        if c:
            return self.ev(n["then"], env)
        if "else" in n:
            return self.ev(n["else"], env)
        return ("tuple", [])

    def ev_match(self, n, env):
        v = self.ev(n["e"], env)
        for a in n["arms"]:
            e2 = dict(env)
            if self.match(a["pat"], v, e2):
                if "guard" in a and not self.ev(a["guard"], e2):
                    continue
                env.update(e2)
                return self.ev(a["body"], env)
        raise Unsupported("no arm matched")

    def ev_ret(self, n, env):
        raise Return(self.ev(n["e"], env) if "e" in n else ("tuple", []))

    def ev_break(self, n, env):
        raise Break()

    def ev_continue(self, n, env):
        raise Continue()

    def ev_try(self, n, env):
        v = self.ev(n["e"], env)
        if is_variant(v, "Result::Ok") or is_variant(v, "Option::Some"):
            return v[2][0]
        if is_variant(v, "Result::Err"):
            raise Return(err(v[2][0] if v[2] else OPAQUE))
        if is_variant(v, "Option::None"):
            raise Return(NONE)
        if v is OPAQUE:
            return OPAQUE
        raise Unsupported("? on " + str(v)[:40])

    def ev_await(self, n, env):
        return self.ev(n["e"], env)

    def ev_ref(self, n, env):
        return self.ev(n["e"], env)

    def ev_cast(self, n, env):
        return self.ev(n["e"], env)

    def ev_un(self, n, env):
        v = self.ev(n["e"], env)
        if n["op"] == "*":
            return v
        if v is OPAQUE:
            return OPAQUE
        if n["op"] == "!":
            return not v
        if n["op"] == "-":
            return -v
        raise Unsupported("unop")

    def ev_bin(self, n, env):
        op = n["op"]
        if op == "&&":
            l = self.ev(n["l"], env)
            if l is OPAQUE:
                raise Unsupported("opaque &&")
            return bool(l) and bool(self._b(self.ev(n["r"], env)))
        if op == "||":
            l = self.ev(n["l"], env)
            if l is OPAQUE:
                raise Unsupported("opaque ||")
            return bool(l) or bool(self._b(self.ev(n["r"], env)))
        l, r = self.ev(n["l"], env), self.ev(n["r"], env)
        if l is OPAQUE or r is OPAQUE:
            return OPAQUE
        if op == "==":
            return l == r
        if op == "!=":
            return l != r
        try:
            return {"<": lambda: l < r, "<=": lambda: l <= r, ">": lambda: l > r, ">=": lambda: l >= r, "+": lambda: l + r,
                    "-": lambda: l - r, "*": lambda: l * r, "/": lambda: l // r, "%": lambda: l % r}[op]()
        except (KeyError, TypeError):
            raise Unsupported("binop " + op)

    def _b(self, v):
        if v is OPAQUE:
            raise Unsupported("opaque bool")
        return v

    def ev_tup(self, n, env):
        return ("tuple", [self.ev(x, env) for x in n["es"]])

    def ev_array(self, n, env):
        return ("list", [self.ev(x, env) for x in n["es"]])

    def ev_struct(self, n, env):
        d = {}
        if "base" in n:
            b = self.ev(n["base"], env)
            if isinstance(b, tuple) and b[0] == "struct":
                d.update(b[1])
        for f in n["fields"]:
            d[f["name"]] = self.ev(f["e"], env)
        return ("struct", d, n.get("q"))

    def ev_field(self, n, env):
        v = self.ev(n["e"], env)
        if isinstance(v, tuple) and v[0] == "struct":
            return v[1].get(n["name"], OPAQUE)
        if isinstance(v, tuple) and v[0] == "tuple" and n["name"].isdigit():
            return v[1][int(n["name"])]
        return OPAQUE

    def ev_assign(self, n, env):
        v = self.ev(n["r"], env)
        l = n["l"]
        while l.get("k") == "un" and l.get("op") == "*":
            l = l["e"]
        if l.get("k") == "path" and l.get("r") == "local":
            env[l["hid"]] = v
        elif l.get("k") == "field":
            base = self.ev(l["e"], env)
            if isinstance(base, tuple) and base[0] == "struct":
                base[1][l["name"]] = v
        return ("tuple", [])

    def ev_assignop(self, n, env):
        return ("tuple", [])

    def ev_closure(self, n, env):
        return ("clo", n, env)

    def ev_for(self, n, env):
        it = self.ev(n["iter"], env)
        if not (isinstance(it, tuple) and it[0] == "list"):
            raise Unsupported("for over non-list")
        for x in it[1]:
            if not self.match(n["pat"], x, env):
                raise Unsupported("for pattern")
            try:
                self.ev(n["body"], env)
            except Break:
                break
            except Continue:
                continue
        return ("tuple", [])

    def ev_index(self, n, env):
        return OPAQUE

    def ev_while(self, n, env):
        raise Unsupported("while")

    def ev_loop(self, n, env):
        raise Unsupported("loop")

    def ev_repeat(self, n, env):
        return OPAQUE

    def ev_yield(self, n, env):
        return OPAQUE

    def call_value(self, f, args):
        if isinstance(f, tuple) and f[0] == "clo":
            clo, cenv = f[1], dict(f[2])
            for p, a in zip(clo["params"], args):
                self.match(p, a, cenv)
            try:
                return self.ev(clo["body"], cenv)
            except Return as r:
                return r.v
        if isinstance(f, tuple) and f[0] == "fnref":
            return self.dispatch(f[1], f[1], args, None)
        return OPAQUE

    def ev_call(self, n, env):
        if "f" in n:
            f = self.ev(n["f"], env)
            args = [self.ev(a, env) for a in n["a"]]
            return self.call_value(f, args)
        q = n.get("q")
        if n.get("dk", "").startswith("Ctor") or n.get("dk") == "SelfCtor":
            return mk_variant(q, [self.ev(a, env) for a in n["a"]])
        args = [self.ev(a, env) for a in n["a"]]
        return self.dispatch(n.get("rvq") or q, q, args, n)

    def ev_mcall(self, n, env):
        recv = self.ev(n["recv"], env)
        args = [recv] + [self.ev(a, env) for a in n["a"]]
        return self.dispatch(n.get("rvq") or n.get("q"), n.get("q"), args, n)

    def dispatch(self, q, q0, args, node):
        for key in (q, q0):
            if key in self.handlers:
                return self.handlers[key](self, args, node)
        for key, h in self.handlers.items():
            if key.startswith("*") and ((q and q.endswith(key[1:])) or (q0 and q0.endswith(key[1:]))):
                return h(self, args, node)
        # generic std helpers
        name = (q0 or "").rsplit("::", 1)[-1]
        if q0 and (q0.startswith("anyhow::") or q0.startswith("core::fmt::") or q0.startswith("alloc::fmt::") or q0.startswith("core::hint::")):
            if name in ("context", "with_context"):
                return args[0]
            if name == "must_use":
                return args[0]
            return OPAQUE
        if name in ("clone", "to_owned", "borrow", "as_ref", "deref", "into", "from", "to_string") and len(args) == 1:
            return args[0]
        if q0 and q0.startswith("core::option::Option::") or (q0 or "").startswith("core::result::Result::"):
            return self.opt_res(name, args)
        if q and q in self.P.by_q:
            return self.call_fn(q, args)
        if q0 and q0 in self.P.by_q:
            return self.call_fn(q0, args)
        # unresolved trait method: single workspace impl?
        if q0:
            ts = [t for t in self.P.targets_of(node or {"q": q0}) if t in self.P.by_q]
            if len(ts) == 1:
                return self.call_fn(ts[0], args)
        return OPAQUE

    def opt_res(self, name, args):
        v = args[0]
        if v is OPAQUE:
            return OPAQUE
        if name in ("unwrap", "expect"):
            if is_variant(v, "::Ok") or is_variant(v, "::Some"):
                return v[2][0]
            raise Unsupported("unwrap on failure value")
        if name == "unwrap_or":
            return v[2][0] if (is_variant(v, "::Ok") or is_variant(v, "::Some")) else args[1]
        if name == "is_some":
            return is_variant(v, "::Some")
        if name == "is_none":
            return is_variant(v, "::None")
        if name == "is_ok":
            return is_variant(v, "::Ok")
        if name == "is_err":
            return is_variant(v, "::Err")
        if name == "map":
            if is_variant(v, "::Some") or is_variant(v, "::Ok"):
                return ("v", v[1], (self.call_value(args[1], [v[2][0]]),))
            return v
        if name == "ok":
            return some(v[2][0]) if is_variant(v, "::Ok") else NONE
        if name in ("context", "with_context", "map_err"):
            return v
        return OPAQUE
