"""Regex literals (the subset the repository uses) -> grammar.py expressions, so that two patterns can be compared as languages
(`grammar.equivalent`) instead of as texts: `^\\-?\\d*\\.\\d+$` and `^-?[0-9]*[.][0-9]+$` are the same rule, `^-?\\d*\\.?\\d+$` is not.

Supported: literals, escapes (\\d \\w \\s \\D \\W \\S and escaped punctuation), `.`, classes `[...]` with ranges and negation, groups
`(...)` / `(?:...)`, alternation, quantifiers `? * + {m} {m,} {m,n}`, anchors `^` / `$` at the ends.  Unanchored ends mean "anything may
precede / follow" (that is what Regex::is_match does).  Everything else raises grammar.Unextractable.  Perl classes are ASCII here:
the rules that use this module compare against ASCII references, and a pattern whose `\\d` would have to mean Unicode digits to matter is
reported by the comparison (symbol 128 = any non-ASCII character is never in \\d / \\w / \\s, which is the regex crate's behaviour only with
(?-u); with Unicode on, `\\d` also matches non-ASCII digits — str::parse rejects those, so the typed result is the same)."""
from . import grammar as g

DIGIT = set(range(48, 58))
WORD = DIGIT | set(range(65, 91)) | set(range(97, 123)) | {95}
SPACE = {32, 9, 10, 11, 12, 13}
ANY = set(g.UNIVERSE)


class _P:
    def __init__(self, s):
        self.s, self.i = s, 0

    def peek(self):
        return self.s[self.i] if self.i < len(self.s) else None

    def take(self):
        c = self.peek()
        self.i += 1
        return c

    def alt(self):
        parts = [self.seq()]
        while self.peek() == "|":
            self.take()
            parts.append(self.seq())
        return g.alt(*parts)

    def seq(self):
        items = []
        while self.peek() is not None and self.peek() not in "|)":
            items.append(self.quant(self.atom()))
        return g.seq(*items) if items else g.eps()

    def quant(self, r):
        c = self.peek()
        if c == "?":
            self.take()
            r = g.opt(r)
        elif c == "*":
            self.take()
            r = g.star(r)
        elif c == "+":
            self.take()
            r = g.plus(r)
        elif c == "{":
            j = self.s.find("}", self.i)
            if j < 0:
                raise g.Unextractable("unterminated {..} in regex")
            body = self.s[self.i + 1:j]
            self.i = j + 1
            lo, _, hi = body.partition(",")
            try:
                lo_n = int(lo)
                hi_n = None if (_ and hi == "") else (int(hi) if _ else lo_n)
            except ValueError:
                raise g.Unextractable("quantifier {%s}" % body)
            if lo_n > 64 or (hi_n is not None and hi_n > 64):
                raise g.Unextractable("large counted repetition")
            parts = [r] * lo_n
            if hi_n is None:
                parts.append(g.star(r))
            else:
                parts += [g.opt(r)] * (hi_n - lo_n)
            r = g.seq(*parts) if parts else g.eps()
        else:
            return r
        if self.peek() in ("?", "+"):
            raise g.Unextractable("lazy / possessive quantifier")
        return r

    def esc(self):
        c = self.take()
        if c is None:
            raise g.Unextractable("dangling backslash")
        table = {"d": DIGIT, "D": ANY - DIGIT, "w": WORD, "W": ANY - WORD, "s": SPACE, "S": ANY - SPACE, "n": {10}, "t": {9}, "r": {13}}
        if c in table:
            return set(table[c])
        if c.isalnum():
            raise g.Unextractable("escape \\%s" % c)
        return {ord(c)}

    def cls(self):
        neg = False
        if self.peek() == "^":
            self.take()
            neg = True
        out = set()
        first = True
        while True:
            c = self.take()
            if c is None:
                raise g.Unextractable("unterminated class")
            if c == "]" and not first:
                break
            first = False
            if c == "[":
                raise g.Unextractable("nested / named class")
            lo = self.esc() if c == "\\" else {ord(c)}
            if self.peek() == "-" and self.i + 1 < len(self.s) and self.s[self.i + 1] != "]" and len(lo) == 1:
                self.take()
                d = self.take()
                hi = self.esc() if d == "\\" else {ord(d)}
                if len(hi) != 1:
                    raise g.Unextractable("class range to a set")
                a, b = next(iter(lo)), next(iter(hi))
                if a > 127 or b > 127 or a > b:
                    raise g.Unextractable("non-ASCII / inverted class range")
                out |= set(range(a, b + 1))
            else:
                out |= lo
        if any(x > 127 for x in out if isinstance(x, int) and x != g.NONASCII):
            raise g.Unextractable("non-ASCII character in class")
        return (ANY - out) if neg else out

    def atom(self):
        c = self.take()
        if c == "(":
            if self.s.startswith("?:", self.i):
                self.i += 2
            elif self.peek() == "?":
                raise g.Unextractable("group flags / look-around")
            r = self.alt()
            if self.take() != ")":
                raise g.Unextractable("unbalanced group")
            return r
        if c == "[":
            return g.sym(self.cls())
        if c == ".":
            return g.sym(ANY - {10})
        if c == "\\":
            return g.sym(self.esc())
        if c in "^$":
            raise g.Unextractable("anchor inside the pattern")
        if c in "*+?{":
            raise g.Unextractable("quantifier without an atom")
        if ord(c) > 127:
            raise g.Unextractable("non-ASCII literal")
        return g.sym({ord(c)})


def parse(pattern):
    """the set of whole texts for which Regex::new(pattern).is_match(text) holds"""
    s = pattern
    pre = post = g.star(g.sym(ANY))
    if s.startswith("^"):
        s, pre = s[1:], g.eps()
    if s.endswith("$") and not s.endswith("\\$"):
        s, post = s[:-1], g.eps()
    p = _P(s)
    r = p.alt()
    if p.peek() is not None:
        raise g.Unextractable("unbalanced `)`")
    return g.seq(pre, r, post)
