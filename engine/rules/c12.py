"""C12 — an interrupted write never leaves a file that opens as a valid, wrong container.

R-COMMIT-ORDER on every TilesWriterTrait::write_to_writer that writes one file through DataWriterTrait (versatiles, pmtiles):
  (a) exactly one write_start site, at the top level of the entry (not in a loop, branch or helper)
  (b) no append / set_position / write_start is evaluated after it
  (c) the success exit follows it (no earlier `return Ok`)
  (d) every assignment to the header precedes the serialisation handed to write_start
  (e-versatiles) the first writer call appends the header serialised *before* any range is assigned, and FileHeader::new
                 starts both ranges empty: every prefix carries a header with an empty block-index range
  (e-pmtiles)    every set_position target is >= HeaderV3::len() and the first writer call positions beyond the header, so only
                 write_start writes the magic bytes
  (f) readers: HeaderV3::deserialize checks length and magic before Ok; FileHeader::from_blob checks the magic;
      VersaTilesReader::open_reader decodes the block index unconditionally before returning Ok
"""
from . import comp, ir
from .report import m_drop_stmt, m_replace

META = {
    "level": "other",
    "explanation": (
        "Decides the ordering part of C12: the DataWriterTrait calls reachable from each single-file writer entry are linearised "
        "in evaluation order (local helper functions inlined, loop/branch context kept) and checked as a commit protocol: "
        "the header that makes the file valid is written by the single, final, unconditional write_start, after every header "
        "field assignment; before that point the file either carries a header whose block-index range is empty (versatiles) "
        "or no magic at all because nothing else writes below HeaderV3::len() (pmtiles); the readers check magic/length and "
        "decode the block index before returning Ok. Hence every prefix of the operation sequence is rejected on open or is complete."),
    "not_decided": "a torn final header write (byte-granular cut inside write_start); whether brotli rejects an empty block index; buffering/flush order inside BufWriter and the OS.",
    "trusted_base": ["DataWriterTrait implementations perform the operations in call order", "rustc name resolution"],
}

WMETHODS = ("append", "write_start", "set_position", "get_position")


def writer_events(P, b, depth=0, ctx=("top",), seen=None):
    """linearised DataWriterTrait events: dicts {kind, node, ctx, fn}"""
    seen = seen or set()
    out = []

    def walk(n, ctx):
        k = n.get("k")
        if k == "closure":
            for c in ir.children(n):
                walk(c, ctx + ("closure",))
            return
        if k in ("for", "while", "loop"):
            for key in ("iter", "c"):
                if key in n:
                    walk(n[key], ctx)
            walk(n["body"], ctx + ("loop",))
            return
        if k == "if":
            walk(n["c"], ctx)
            walk(n["then"], ctx + ("branch",))
            if "else" in n:
                walk(n["else"], ctx + ("branch",))
            return
        if k == "match":
            walk(n["e"], ctx)
            for a in n["arms"]:
                walk(a["body"], ctx + ("branch",))
            return
        for c in ir.children(n):
            walk(c, ctx)
        if k == "mcall" and (n.get("q") or "").endswith(tuple("DataWriterTrait::" + m for m in WMETHODS)):
            out.append({"kind": n["name"], "node": n, "ctx": ctx, "fn": b["q"]})
        elif k in ("call", "mcall") and depth < 3:
            for t in P.targets_of(n):
                cb = P.fn(t)
                if cb is None or t in seen or t == b["q"]:
                    continue
                if any("DataWriterTrait" in x for x in cb.get("in_t", ())):
                    out.extend(writer_events(P, cb, depth + 1, ctx + ("helper:" + t.rsplit("::", 1)[-1],), seen | {b["q"]}))
    walk(ir.fn_block(b), ctx)
    return out


def write_errors_rule(ck, P):
    """R-WRITE-ERR: a failing write stops the writer.  Every call of a DataWriterTrait method in the container writers hands its
    Result straight to `?`, unwrap or expect, or is the value its function returns (and that function's callers do the same).
    A Result that is stored, mapped or overwritten can be forgotten: the writer would go on to commit indexes and the final header
    over a tile that was not written completely."""
    sites, bad = 0, []

    def tail_value(fn_body, node):
        """is `node` the value the function evaluates to (tail position through blocks / `return node`)?"""
        cur = ir.fn_block(fn_body)
        for _ in range(8):
            if cur is node:
                return True
            if cur.get("k") == "block" and "tail" in cur:
                cur = cur["tail"]
                continue
            if cur.get("k") in ("await",):
                cur = cur["e"]
                continue
            return False
        return False
    for b in P.bodies:
        if "::container::" not in b["q"] or "::tests::" in b["q"] or b.get("target") not in (None, "lib"):
            continue
        if not (b["q"].split("::")[-2].endswith("Writer") or "writer" in b["q"]):
            continue
        for n, parents, _ in ir.walk(b["body"]):
            if n.get("k") not in ("mcall", "call") or not (n.get("t") or "").startswith("std::result::Result"):
                continue
            if n.get("dk", "").startswith("Ctor") or "m" in n or any("m" in p_ and not p_.get("um") for p_ in parents[-3:]):
                continue          # Ok(..)/Err(..) constructors and macro-generated calls (ensure!, bail!, format!)
            mac = next((p_ for p_ in reversed(parents) if "m" in p_ and p_.get("src")), None)
            if mac is not None and mac["src"].lstrip().startswith(("log::", "trace!", "debug!", "info!", "warn!", "error!", "format!", "println!", "eprintln!", "write!", "writeln!")):
                continue          # a value that is only printed
            sites += 1
            par = [p for p in parents if p.get("k") not in ("await",)]
            p1 = par[-1] if par else {}
            ok = p1.get("k") == "try" or (p1.get("k") == "mcall" and p1.get("name") in ("unwrap", "expect") and p1.get("recv") is n)
            if not ok and p1.get("k") == "mcall" and p1.get("name") in ("context", "with_context") and p1.get("recv") is n and len(par) >= 2:
                p2 = par[-2]
                ok = p2.get("k") == "try" or (p2.get("k") == "mcall" and p2.get("name") in ("unwrap", "expect"))
            if not ok and p1.get("k") == "ret":
                ok = True
            if not ok and p1.get("k") == "match" and p1.get("e") is n:
                # handled explicitly: some arm for Err leaves the function
                ok = any("Result::Err" in str(a.get("pat")) and (ir.diverges(a["body"]) or ir.contains(a["body"], lambda y: y.get("k") == "call" and (y.get("q") or "").endswith("Result::Err::{Ctor#0}")))
                         for a in p1.get("arms", ()))
            if not ok:
                # the value of the function / closure-free tail
                encl = [p for p in parents if p.get("k") == "closure" and "async fn body" not in (p.get("t") or "") and "Coroutine" not in (p.get("ck") or "")]
                if not encl and tail_value(b, n):
                    callers = [c for c in P.bodies if ir.contains(c["body"], lambda y: y.get("k") in ("call", "mcall") and ir.callee(y) == b["q"])]
                    ok = bool(callers)
                    for c in callers:
                        for y, ps, _m in ir.walk(c["body"]):
                            if y.get("k") in ("call", "mcall") and ir.callee(y) == b["q"]:
                                pp = [p for p in ps if p.get("k") != "await"]
                                q1 = pp[-1] if pp else {}
                                if not (q1.get("k") == "try" or (q1.get("k") == "mcall" and q1.get("name") in ("unwrap", "expect")) or q1.get("k") == "ret" or tail_value(c, y)):
                                    ok = False
            if not ok:
                bad.append("%s(..) in %s at %s" % (n["name"], b["q"].rsplit("::", 2)[-1] if "::" in b["q"] else b["q"], ir.loc(n)))
    ck.anchor("R-WRITE-ERR", "fallible calls in the container writers", sites, 30)
    ck.check(not bad, "R-WRITE-ERR", "writers|result-consumed", "every fallible call in the container writers (DataWriterTrait, tar, rusqlite, std::fs, own helpers) ends the writer on failure (`?`, unwrap/expect or returned to a caller that does): %d call(s)" % sites,
             "the Result of %s is neither propagated nor unwrapped where it is produced: a failed (torn) write can be forgotten and the writer still commits indexes and the final header" % bad[:3])


def mbtiles_fresh_rule(ck, P):
    """the MBTiles writer starts from an empty database: an existing file at the target path is removed (under `path.exists()` only)
    before the connection is opened — otherwise rows of the previous content survive next to the new ones"""
    from . import census
    nw = [b for b in P.bodies if b["q"].endswith("mbtiles::writer::MBTilesWriter::new")]
    if not ck.anchor("R-COMMIT-ORDER", "MBTilesWriter::new", nw, 1):
        return
    b = nw[0]
    order = {id(n): i for i, n in enumerate(ir.walk_nodes(b["body"]))}
    rm = census.nodes_with_facts(ir.fn_block(b), lambda y: y.get("k") == "call" and (y.get("q") or "").endswith(("fs::remove_file", "fs::File::create")))
    opens = [y for y in ir.walk_nodes(b["body"]) if y.get("k") in ("call", "mcall") and ((y.get("q") or "").endswith(("SqliteConnectionManager::file", "Connection::open")))]
    ok = False
    why = "no removal of an existing file"
    if rm and opens:
        n, fs = rm[0]
        conds = [f for f in fs if f[0] in ("pred", "cmp")]
        fine = bool(conds) and all(f[0] == "pred" and f[2] in ("exists", "is_file", "try_exists") and f[4] is True for f in conds)
        fine = fine or not ir.contains(ir.fn_block(b), lambda y: y.get("k") == "if" and ir.contains(y["then"], lambda z: z is n))
        ok = fine and order[id(n)] < order[id(opens[0])]
        why = "removal guarded by %s, before the open: %s" % ([" ".join(map(str, f[1:])) for f in conds], order[id(n)] < order[id(opens[0])])
    ck.check(ok, "R-COMMIT-ORDER", b["q"] + "|fresh-file", "an existing file at the target path is removed before the database is opened (only guard: the file exists)",
             "the MBTiles writer can open a database that still holds the previous content (%s): old tiles and metadata survive next to the new ones" % why, ir.loc(b))


def rules(ck, P):
    write_errors_rule(ck, P)
    mbtiles_fresh_rule(ck, P)
    entries = []
    for i in P.impls_of("::TilesWriterTrait"):
        m = P.impl_method(i, "write_to_writer")
        if m is None:
            continue
        # private helpers that take the writer and do not loop (e.g. a `commit_header(&header, writer)`) are inlined, so that a header write
        # moved into a helper is still a top-level event of the entry; helpers with loops (write_blocks) stay calls and are followed
        # by writer_events as before
        def straight_writer_helper(cb, _ok=ir.same_impl_helper(m)):
            return _ok(cb) and any("DataWriterTrait" in x for x in cb.get("in_t", ())) and not ir.contains(cb["body"], lambda y: y.get("k") in ("for", "while", "loop", "closure"))
        m = ir.inline_helpers(P, m, straight_writer_helper, depth=1)
        ev = writer_events(P, m)
        if any(e["kind"] == "write_start" for e in ev) or len(ev) >= 2:
            entries.append((i, m, ev))
    ck.anchor("R-COMMIT-ORDER", "single-file writers (write through DataWriterTrait)", entries, 2)
    for impl, m, ev in entries:
        short = impl["self_adt"].rsplit("::", 1)[-1]
        kinds = [e["kind"] for e in ev]
        ck.note("%s: %s" % (short, " ".join("%s%s" % (e["kind"], "*" if "loop" in e["ctx"] else "") for e in ev)))
        ws_all = [e for e in ev if e["kind"] == "write_start"]
        # a header (re)written at offset 0 *before* the block-index range is assigned is as harmless as the provisional header the
        # versatiles writer appends first (its block-index range is still empty, so the reader rejects the file): only write_starts
        # whose serialisation follows the blocks_range assignment commit the file
        sts0 = ir.stmts_of(ir.fn_block(m))
        provisional = []
        if ev and ev[0]["kind"] == "append":
            br = [i for i, s_ in enumerate(sts0) for y in ir.walk_nodes(s_) if y.get("k") == "assign" and ir.place_str(y["l"]).endswith(".blocks_range")]
            for e in ws_all:
                arg0 = e["node"]["a"][0]
                si0 = next((i for i, s_ in enumerate(sts0) if ir.contains(s_, lambda y: y is e["node"])), None)
                h0 = ir.local_hid(arg0)
                for i, s_ in enumerate(sts0):
                    if s_.get("k") == "let" and h0 is not None and any(x["hid"] == h0 for x in ir.pat_binds(s_["pat"])):
                        si0 = i
                if br and si0 is not None and si0 < min(br) and e["ctx"] == ("top",):
                    provisional.append(e)
        ws = [e for e in ws_all if e not in provisional]
        # (a)
        oka = len(ws) == 1 and ws[0]["ctx"] == ("top",)
        ck.check(oka, "R-COMMIT-ORDER", short + "|a-single-top-level", "exactly one committing write_start, unconditional, at the top level of write_to_writer%s" % (" (%d provisional header rewrite(s) before the block index range is known)" % len(provisional) if provisional else ""),
                 "committing write_start sites: %s" % [(e["fn"].rsplit("::", 1)[-1], e["ctx"]) for e in ws], ir.loc(m))
        if not ws:
            continue
        wi = ev.index(ws[0])
        # (b)
        after = [e["kind"] for e in ev[wi + 1:] if e["kind"] != "get_position"]
        ck.check(not after, "R-COMMIT-ORDER", short + "|b-last", "no writer call is evaluated after write_start", "writer calls after write_start: %s" % after, ir.loc(ws[0]["node"]))
        # (c) statement position: write_start statement is followed only by the Ok(()) tail; no earlier `return Ok`
        blk = ir.fn_block(m)
        sts = ir.stmts_of(blk)
        si = next((i for i, s in enumerate(sts) if ir.contains(s, lambda y: y is ws[0]["node"])), None)
        rets = [n for n in ir.walk_nodes(blk) if n.get("k") == "ret" and not ir.contains(n, lambda y: (y.get("q") or "").endswith("Result::Err::{Ctor#0}"))]
        tail_ok = si is not None and all(not ir.contains(s, lambda y: y.get("k") in ("mcall", "call") and y.get("name") in WMETHODS) for s in sts[si + 1:])
        ck.check(tail_ok and not rets, "R-COMMIT-ORDER", short + "|c-success-exit", "the only success exit follows write_start", "a success exit can be reached without write_start (early returns: %d)" % len(rets), ir.loc(m))
        # (d) header assignments precede the serialisation handed to write_start
        arg = ws[0]["node"]["a"][0]
        lets = comp.lets_of(m)
        ser = [y for y in ir.walk_nodes(arg) if y.get("k") == "mcall" and y.get("name") in ("to_blob", "serialize")]
        ser_stmt = si
        hdr_h = None
        def root_local(h_):
            """follow `let p = &x` / `let p = x.clone()` bindings (incl. parameter bindings of inlined helpers) to the original local"""
            for _ in range(6):
                init_ = lets.get(h_)
                if init_ is None:
                    return h_
                e_ = ir.strip(init_)
                while e_ is not None and (e_.get("k") in ("ref", "un") or (e_.get("k") == "mcall" and e_.get("name") in ("clone", "to_owned", "as_ref", "borrow") and not e_.get("a"))):
                    e_ = ir.strip(e_["e"] if e_.get("k") in ("ref", "un") else e_["recv"])
                if e_ is None or e_.get("k") != "path" or e_.get("r") != "local":
                    return h_
                h_ = e_["hid"]
            return h_
        if not ser:
            h = ir.local_hid(arg)
            for i, s in enumerate(sts):
                for y_ in ir.walk_nodes(s):
                    if y_.get("k") == "let" and "init" in y_ and any(x["hid"] == h for x in ir.pat_binds(y_["pat"])):
                        found_ = [y for y in ir.walk_nodes(y_["init"]) if y.get("k") == "mcall" and y.get("name") in ("to_blob", "serialize")]
                        if found_:
                            ser_stmt = i
                            ser = found_
        if ser:
            hdr_h = root_local(ir.local_hid(ser[0]["recv"]))
        assigns = [(i, ir.place_str(y["l"])) for i, s in enumerate(sts) for y in ir.walk_nodes(s) if y.get("k") == "assign" and hdr_h is not None and _root(y["l"]) == hdr_h]
        okd = bool(ser) and hdr_h is not None and bool(assigns) and all(i < ser_stmt for i, _ in assigns)
        ck.check(okd, "R-COMMIT-ORDER", short + "|d-header-complete", "all %d header field assignments precede the serialisation passed to write_start" % len(assigns),
                 "header is serialised (statement %s) before assignments %s" % (ser_stmt, [a for a in assigns if a[0] >= (ser_stmt or 0)]), ir.loc(m))
        # (e)
        first = ev[0]
        if first["kind"] == "append":
            # versatiles style: provisional header first
            farg = first["node"]["a"][0]
            fser_stmt = None
            h = ir.local_hid(farg)
            for i, s in enumerate(sts):
                if s.get("k") == "let" and any(x["hid"] == h for x in ir.pat_binds(s["pat"])) and ir.contains(s.get("init", {}), lambda y: y.get("k") == "mcall" and y.get("name") in ("to_blob", "serialize") and root_local(ir.local_hid(y["recv"])) == hdr_h):
                    fser_stmt = i
            range_assigns = [i for i, p in assigns if p.endswith(("meta_range", "blocks_range"))]
            oke = fser_stmt is not None and bool(range_assigns) and all(i > fser_stmt for i in range_assigns) and first["ctx"] == ("top",)
            ck.check(oke, "R-COMMIT-ORDER", short + "|e-provisional-header", "the first write is the header serialised before any range is assigned",
                     "the provisional header is not serialised before the ranges are assigned", ir.loc(first["node"]))
            fh = [b for b in P.bodies if b["q"].endswith("file_header::FileHeader::new")]
            if fh:
                okn = False
                for n in ir.walk_nodes(fh[0]["body"]):
                    if n.get("k") == "struct" and (n.get("q") or "").endswith("FileHeader"):
                        f = {x["name"]: x["e"] for x in n["fields"]}
                        okn = all((ir.strip(f.get(k, {})).get("q") or "").endswith("ByteRange::empty") for k in ("meta_range", "blocks_range"))
                ck.check(okn, "R-COMMIT-ORDER", short + "|e-empty-ranges", "FileHeader::new starts with empty meta and block-index ranges", "FileHeader::new does not start with empty ranges", ir.loc(fh[0]))
        else:
            # pmtiles style: data written beyond the header area
            hl = [b for b in P.bodies if b["q"].endswith("header_v3::HeaderV3::len")]
            hlen = ir.const_eval(ir.unparen(ir.fn_block(hl[0])), {}) if hl else None
            ck.check(first["kind"] == "set_position" and first["ctx"] == ("top",), "R-COMMIT-ORDER", short + "|e-first-positions", "the first writer call positions the cursor beyond the header area",
                     "the first writer call is %s" % first["kind"], ir.loc(first["node"]))
            gp_after_first = set()
            started = False
            for e in ev:
                if e is first:
                    started = True
                if started and e["kind"] == "get_position":
                    gp_after_first.add(id(e["node"]))
            for k, e in enumerate([e for e in ev if e["kind"] == "set_position"]):
                a = ir.strip(e["node"]["a"][0])
                v = ir.const_eval(a, {})
                ok_p = False
                desc = ir.place_str(a)
                if v is not None and hlen is not None:
                    ok_p = v >= hlen
                elif a.get("k") == "call" and (a.get("q") or "").endswith("HeaderV3::len"):
                    ok_p = True
                elif a.get("k") == "path" and a.get("r") == "local":
                    init = lets.get(a["hid"])
                    ok_p = init is not None and any(id(y) in gp_after_first for y in ir.walk_nodes(init))
                    desc += " (= get_position() after the first positioning)"
                ck.check(ok_p and "loop" not in e["ctx"], "R-COMMIT-ORDER", "%s|e-set_position#%d" % (short, k + 1), "set_position(%s) >= HeaderV3::len() = %s" % (desc, hlen),
                         "set_position(%s) may point into the header area" % desc, ir.loc(e["node"]))
    # ---------------- (f) readers
    hd = [b for b in P.bodies if b["q"].endswith("header_v3::HeaderV3::deserialize")]
    if ck.anchor("R-COMMIT-ORDER", "HeaderV3::deserialize", hd, 1):
        b = hd[0]
        sts = ir.stmts_of(ir.fn_block(b))
        magic = None
        for i, s in enumerate(sts):
            if any(y.get("k") == "lit" and y.get("lk") == "bytes" and y.get("v") == "504d54696c6573" for y in ir.walk_with_consts(s)) and ir.contains(s, lambda y: y.get("k") == "ret"):
                magic = i
        lenck = next((i for i, s in enumerate(sts) if ir.contains(s, lambda y: y.get("k") == "bin" and ir.place_str(y["l"]).endswith("len()") and ir.const_eval(y["r"], {}) == 127) and ir.contains(s, lambda y: y.get("k") == "ret")), None)
        okret = [i for i, s in enumerate(sts) if ir.contains(s, lambda y: y.get("k") == "call" and (y.get("q") or "").endswith("Result::Ok::{Ctor#0}"))]
        ck.check(magic is not None and lenck is not None and okret and min(okret) > max(magic, lenck), "R-COMMIT-ORDER", b["q"] + "|f-magic", "length (127) and magic 'PMTiles' are checked before a header is returned",
                 "magic/length check does not dominate the Ok result", ir.loc(b))
    fb = [b for b in P.bodies if b["q"].endswith("file_header::FileHeader::from_blob")]
    if ck.anchor("R-COMMIT-ORDER", "FileHeader::from_blob", fb, 1):
        b = fb[0]
        okm = ir.contains(b["body"], lambda y: y.get("k") == "lit" and y.get("lk") in ("str", "bytes") and ("versatiles_v02" in str(y.get("v")) or "76657273617469" in str(y.get("v")))) and \
            ir.contains(b["body"], lambda y: y.get("k") == "if" and ir.diverges(y["then"]))
        ck.check(okm, "R-COMMIT-ORDER", b["q"] + "|f-magic", "the versatiles magic is compared and a mismatch is an error", "no magic check in FileHeader::from_blob", ir.loc(b))
    orr = [b for b in P.bodies if b["q"].endswith("versatiles::reader::VersaTilesReader::open_reader")]
    if ck.anchor("R-COMMIT-ORDER", "VersaTilesReader::open_reader", orr, 1):
        b = orr[0]
        blk = ir.fn_block(b)
        sts = ir.stmts_of(blk)
        bi = None
        for i, s in enumerate(sts):
            if s.get("k") == "let" and ir.contains(s.get("init", {}), lambda y: y.get("k") == "call" and (y.get("q") or "").endswith("BlockIndex::from_brotli_blob")):
                # top-level statement (not inside an if) and propagated with `?`
                init = ir.strip(s["init"])
                while init.get("k") == "mcall" and init.get("name") in ("context", "with_context"):
                    init = ir.strip(init["recv"])
                if s["init"].get("k") == "try" or ir.contains(s["init"], lambda y: y.get("k") == "try"):
                    bi = i
        from . import mvt
        cnt = mvt.exit_counts(P, {"body": blk}, lambda y: 1 if (y.get("k") == "call" and (y.get("q") or "").endswith("BlockIndex::from_brotli_blob")) else None)
        ck.check(cnt == {1}, "R-COMMIT-ORDER", b["q"] + "|f-block-index-every-path", "every successful path of open_reader decodes a block index exactly once (no fallback to an empty index)",
                 "open_reader can succeed without decoding a block index (decodes per successful path: %s): a header whose block-index range reads as empty — the provisional header, or a torn final one — opens as an empty container" % sorted(cnt), ir.loc(b))
        ck.check(bi is not None and ir.contains(sts[bi], lambda y: y.get("k") == "field" and y.get("name") == "blocks_range" and "FileHeader" in ((ir.strip(y["e"]).get("t") or "") + (ir.strip(y["e"]).get("ta") or ""))), "R-COMMIT-ORDER", b["q"] + "|f-block-index",
                 "the block index named by the header is read and decoded unconditionally, with `?`, before the reader is returned",
                 "the block index is not decoded unconditionally before Ok", ir.loc(b))

    # the commit protocol is about the order in which bytes reach the FILE: the single-file writers get there through the trait's default
    # write_to_path (DataWriterFile::from_path + write_to_writer, every operation applied to the file as it is issued).  A writer that
    # overrides it - assembling the container in memory and writing the finished image front to back - puts the final header on disk
    # first, and every truncation of that one write opens as a valid container without its tiles.
    wt = [t for q, t in P.traits.items() if q.endswith("container::writer::TilesWriterTrait")]
    if ck.anchor("R-COMMIT-ORDER", "TilesWriterTrait", wt, 1):
        dflt = [b for b in P.bodies if b["q"].endswith("TilesWriterTrait::write_to_path") and b.get("trait_default_of")]
        okd = len(dflt) == 1 and ir.contains(dflt[0]["body"], lambda y: y.get("k") == "call" and (y.get("q") or "").endswith("DataWriterFile::from_path")) and \
            ir.contains(dflt[0]["body"], lambda y: (y.get("q") or "").endswith("TilesWriterTrait::write_to_writer"))
        ck.check(okd, "R-COMMIT-ORDER", "TilesWriterTrait::write_to_path|default", "the default write_to_path opens a DataWriterFile on the path and hands it to write_to_writer",
                 "the default write_to_path does not write through DataWriterFile::from_path + write_to_writer", ir.loc(dflt[0]) if dflt else None)
        over = [b["q"] for b in P.bodies if b.get("trait_item", "").endswith("TilesWriterTrait::write_to_path") and not b.get("trait_default_of") and
                any(w in b["q"] for w in ("VersaTilesWriter", "PMTilesWriter"))]
        ck.check(not over, "R-COMMIT-ORDER", "single-file writers|write_to_path", "VersaTilesWriter and PMTilesWriter reach the file only through the default write_to_path",
                 "%s overrides write_to_path: the order in which bytes reach the file is no longer the order of write_to_writer's operations, so the header-last commit protocol "
                 "does not protect an interrupted write" % [o.split(" as ")[0].rsplit("::", 1)[-1] for o in over])
        raw = []
        for b in P.bodies:
            if b["s"][0].startswith(("versatiles_container/src/container/versatiles/writer", "versatiles_container/src/container/pmtiles/writer")) and "::tests::" not in b["q"]:
                for y in ir.walk_nodes(b["body"]):
                    if y.get("k") in ("call", "mcall") and (y.get("q") or "").startswith(("std::fs::write", "std::fs::File::create", "std::fs::OpenOptions", "std::fs::rename", "std::fs::copy")):
                        raw.append((b["q"].rsplit("::", 1)[-1], y["q"], ir.loc(y)))
        ck.check(not raw, "R-COMMIT-ORDER", "single-file writers|raw-fs", "the single-file writers do not touch the filesystem themselves",
                 "a single-file writer writes to the filesystem directly (%s), outside the operation order the commit protocol is argued on" % [r[:2] for r in raw[:3]])
    # the crash argument starts from an EMPTY file: whatever opens the output must create or truncate it, so that bytes of an older
    # container at the same path cannot complete an unfinished new one
    fp = [x for x in P.bodies if x["q"].endswith("data_writer_file::DataWriterFile::from_path")]
    if ck.anchor("R-COMMIT-ORDER", "DataWriterFile::from_path", fp, 1):
        b = fp[0]
        create = ir.contains(b["body"], lambda y: y.get("k") == "call" and (y.get("q") or "") in ("std::fs::File::create", "std::fs::File::create_new"))
        opts = [y for y in ir.walk_nodes(b["body"]) if y.get("k") == "mcall" and "OpenOptions" in (y.get("q") or "")]
        trunc = any(y["name"] in ("truncate", "create_new") and y.get("a") and (ir.strip(y["a"][0]).get("v") in (True, "true") or ir.const_eval(y["a"][0], {}) in (1, True)) for y in opts)
        opens = [y for y in ir.walk_nodes(b["body"]) if (y.get("k") == "call" and (y.get("q") or "").startswith("std::fs::File::")) or (y.get("k") == "mcall" and "OpenOptions::open" in (y.get("q") or ""))]
        ck.check((create or trunc) and bool(opens), "R-COMMIT-ORDER", b["q"] + "|fresh-file", "the output file is created empty (File::create / truncate(true) / create_new(true))",
                 "the output file is opened without truncation (%s): an interrupted rewrite leaves the previous container's header and directories in place over partly replaced tile data" %
                 sorted({y.get("name") or (y.get("q") or "").rsplit("::", 1)[-1] for y in opts + opens}), ir.loc(b))
    # a torn header write leaves a prefix of the new header over zeros: the fields at its end (zoom range, bounds, centre) can still be
    # zero while magic, ranges and compression are already final.  Tile lookups must therefore not trust those trailing fields to
    # decide whether a tile exists.
    ADVISORY = ("min_zoom", "max_zoom", "min_lon_e7", "min_lat_e7", "max_lon_e7", "max_lat_e7", "center_zoom", "center_lon_e7", "center_lat_e7",
                "addressed_tiles_count", "tile_entries_count", "tile_contents_count", "clustered", "zoom_range", "bbox")
    for suffix, hdr_t in (("::PMTilesReader", "HeaderV3"), ("::VersaTilesReader", "FileHeader")):
        for i in P.impls_of("::TilesReaderTrait"):
            if not i.get("self_adt", "").endswith(suffix):
                continue
            for mname in ("get_tile_data", "get_bbox_tile_stream"):
                m_ = P.impl_method(i, mname)
                if m_ is None:
                    continue
                used = sorted({y["name"] for y in ir.walk_nodes(m_["body"]) if y.get("k") == "field" and y.get("name") in ADVISORY and
                               hdr_t in ((ir.strip(y["e"]).get("t") or "") + (ir.strip(y["e"]).get("ta") or ""))})
                ck.check(not used, "R-COMMIT-ORDER", "%s|%s|f-advisory-fields" % (suffix.strip(":"), mname), "tile lookups do not consult the header's trailing advisory fields (zoom range, bounds, counts)",
                         "the lookup consults header field(s) %s, which a torn header write can leave at zero while the file already opens: stored tiles are reported absent" % used, ir.loc(m_))
    # an unfinished versatiles file carries an EMPTY block-index range: the reader must not accept an empty buffer as an index
    fbb = [x for x in P.bodies if x["q"].endswith("block_index::BlockIndex::from_brotli_blob")]
    if ck.anchor("R-COMMIT-ORDER", "BlockIndex::from_brotli_blob", fbb, 1):
        from . import mvt
        b = fbb[0]

        def dec(n):
            q_ = n.get("q") or ""
            return 1 if n.get("k") == "call" and q_.endswith(("compression::decompress_brotli", "compression::decompress")) else None
        counts = mvt.exit_counts(P, b, dec)
        ck.check(counts == {1}, "R-COMMIT-ORDER", b["q"] + "|f-empty-index-rejected", "every successful decode of a block index goes through the brotli decoder (which rejects the empty buffer of an unfinished file)",
                 "a block index can be returned without passing the buffer through the brotli decoder (decoder calls per successful path: %s): the empty block-index range of an interrupted write opens as a valid, empty container" % sorted(counts), ir.loc(b))
    # ... and that decoder is one that reports an unfinished stream: brotli's whole-stream function BrotliDecompress (or the pull
    # Decompressor drained with read_to_end) fails on empty / truncated input; the push DecompressorWriter reports a missing end of stream
    # only from close() / into_inner(), which write_all never calls, so a truncated or empty buffer decodes to Ok
    db = [x for x in P.bodies if x["q"].endswith("utils::compression::decompress_brotli")]
    if ck.anchor("R-COMMIT-ORDER", "decompress_brotli", db, 1):
        b = db[0]
        used = sorted({(n.get("q") or "") for n in ir.walk_nodes(b["body"]) if n.get("k") in ("call", "mcall", "path", "struct") and (n.get("q") or "").startswith("brotli")})
        whole = any(q.endswith("BrotliDecompress") for q in used)
        pull = any("Decompressor" in q and "Writer" not in q for q in used) and ir.contains(b["body"], lambda y: y.get("k") == "mcall" and y.get("name") == "read_to_end")
        push = any("DecompressorWriter" in q for q in used)
        closed = ir.contains(b["body"], lambda y: y.get("k") == "mcall" and y.get("name") in ("close", "into_inner") and "Decompressor" in ((ir.strip(y["recv"]).get("t") or "") + (y.get("q") or "")))
        ck.check((whole or pull) and not push or (push and closed), "R-COMMIT-ORDER", b["q"] + "|f-truncation-reported",
                 "the brotli decoder behind the block / tile index reports an unfinished stream (whole-stream BrotliDecompress, or a pull decoder drained to the end)",
                 "decompress_brotli uses %s: an empty or truncated buffer is not reported as an error (the push decoder only notices a missing end of stream in close()), "
                 "so the empty block index of an interrupted write decodes to an empty index and the file opens" % [q.rsplit("::", 1)[-1] for q in used], ir.loc(b))


def _root(n):
    n = ir.strip(n)
    while n is not None and n.get("k") in ("field", "index"):
        n = ir.strip(n["e"])
    return ir.local_hid(n) if n is not None else None


def mutants(P):
    out = []
    v = "<versatiles_container::container::versatiles::writer::VersaTilesWriter as versatiles_container::container::writer::TilesWriterTrait>::write_to_writer"
    p = "<versatiles_container::container::pmtiles::writer::PMTilesWriter as versatiles_container::container::writer::TilesWriterTrait>::write_to_writer"
    for b in P.bodies:
        if b["q"].endswith("VersaTilesWriter as versatiles_container::container::writer::TilesWriterTrait>::write_to_writer") or ("VersaTilesWriter" in b["q"] and b["q"].endswith("::write_to_writer")):
            v = b["q"]
        if "PMTilesWriter" in b["q"] and b["q"].endswith("::write_to_writer"):
            p = b["q"]

    def early_header(body):
        # move the write_start statement before the statement that writes the blocks
        blk = ir.fn_block(body)
        sts = blk["stmts"]
        wi = next((i for i, s in enumerate(sts) if ir.contains(s, lambda y: y.get("k") == "mcall" and y.get("name") == "write_start")), None)
        bi = next((i for i, s in enumerate(sts) if ir.contains(s, lambda y: y.get("k") in ("call", "mcall") and (y.get("q") or "").endswith("write_blocks"))), None)
        if wi is None or bi is None:
            return False
        st = sts.pop(wi)
        sts.insert(bi, st)
        return True
    out.append(("versatiles writer: final header written before the blocks", v, early_header))

    def header_first_full(body):
        # the provisional header is serialised after the ranges were assigned: swap first append with last assignment
        blk = ir.fn_block(body)
        sts = blk["stmts"]
        ai = next((i for i, s in enumerate(sts) if ir.contains(s, lambda y: y.get("k") == "assign" and ir.place_str(y["l"]).endswith("meta_range"))), None)
        li = next((i for i, s in enumerate(sts) if s.get("k") == "let" and ir.contains(s.get("init", {}), lambda y: y.get("k") == "mcall" and y.get("name") == "to_blob")), None)
        if ai is None or li is None or ai < li:
            return False
        st = sts.pop(ai)
        sts.insert(li, st)
        return True
    out.append(("versatiles writer: range assigned before the provisional header is serialised", v, header_first_full))

    def pos_zero(body):
        def fn(n):
            n["a"][0] = {"k": "lit", "lk": "int", "v": 0, "t": "u64"}
        return m_replace(body, lambda n: n.get("k") == "mcall" and n.get("name") == "set_position" and ir.contains(n, lambda y: (y.get("q") or "").endswith("HeaderV3::len")), fn)
    out.append(("pmtiles writer: directory written at offset 0", p, pos_zero))

    def cond_start(body):
        blk = ir.fn_block(body)
        for i, s in enumerate(blk["stmts"]):
            if ir.contains(s, lambda y: y.get("k") == "mcall" and y.get("name") == "write_start"):
                blk["stmts"][i] = {"k": "if", "t": "()", "s": body["s"], "c": {"k": "lit", "lk": "bool", "v": True, "t": "bool"}, "then": {"k": "block", "stmts": [s], "s": body["s"]}}
                return True
        return False
    out.append(("pmtiles writer: write_start made conditional", p, cond_start))

    def no_magic(body):
        return m_drop_stmt(body, lambda n: n.get("k") == "lit" and n.get("lk") == "bytes" and n.get("v") == "504d54696c6573")
    out.append(("pmtiles header: magic check removed", "versatiles_container::container::pmtiles::types::header_v3::HeaderV3::deserialize", no_magic))
    return out
