"""Census engine: panic-capable sites reachable from an entry set, with path facts, automatic discharge rules,
reviewed tables and known findings. Shared by C19 (decoders), C02 (streams), C05 (handlers), C09 (pipeline build)."""
import json
import os
import re

from . import ir

UNWRAPS = {
    "core::option::Option::unwrap": "unwrap", "core::option::Option::expect": "expect",
    "core::result::Result::unwrap": "unwrap", "core::result::Result::expect": "expect",
    "core::result::Result::unwrap_err": "unwrap_err", "core::result::Result::expect_err": "expect_err",
}
# std functions that panic on bad arguments (argument-dependent)
PANICKY_STD = {
    "alloc::vec::Vec::remove": "Vec::remove", "alloc::vec::Vec::insert": "Vec::insert", "alloc::vec::Vec::swap_remove": "Vec::swap_remove",
    "alloc::vec::Vec::split_off": "Vec::split_off", "alloc::vec::Vec::drain": "Vec::drain", "alloc::vec::Vec::truncate": None,
    "core::slice::<impl [T]>::split_at": "slice::split_at", "[T]::split_at": "slice::split_at", "[T]::split_at_mut": "slice::split_at",
    "[T]::copy_from_slice": "copy_from_slice", "[T]::clone_from_slice": "clone_from_slice", "[T]::chunks": "chunks", "[T]::chunks_exact": "chunks",
    "[T]::windows": "windows", "[T]::swap": "slice::swap", "str::split_at": "str::split_at",
    "core::cell::RefCell::borrow": "RefCell::borrow", "core::cell::RefCell::borrow_mut": "RefCell::borrow_mut",
    "core::iter::traits::iterator::Iterator::step_by": "step_by", "alloc::string::String::remove": "String::remove",
    "alloc::string::String::insert": "String::insert", "alloc::string::String::truncate": "String::truncate",
    "alloc::string::String::drain": "String::drain", "alloc::string::String::split_off": "String::split_off",
    "alloc::collections::vec_deque::VecDeque::remove": None,
    "core::num::<impl u32>::pow": None, "core::num::<impl u64>::pow": None,
    "std::thread::JoinHandle::join": None,
    "core::char::from_digit": "char::from_digit", "core::char::methods::<impl char>::to_digit": None,
    "char::encode_utf8": "char::encode_utf8", "char::encode_utf16": "char::encode_utf16", "char::from_digit": "char::from_digit",
    "core::cmp::Ord::clamp": "clamp", "f64::clamp": "clamp", "f32::clamp": "clamp",
    "[T]::rotate_left": "rotate", "[T]::rotate_right": "rotate", "[T]::select_nth_unstable": "select_nth",
    "core::time::Duration::from_secs_f64": "Duration::from_secs_f64", "core::time::Duration::from_secs_f32": "Duration::from_secs_f32",
}
PANIC_MACROS = ("panic", "unreachable", "todo", "unimplemented", "assert", "assert_eq", "assert_ne", "debug_assert", "debug_assert_eq", "debug_assert_ne")
INT_TYPES = {"u8", "u16", "u32", "u64", "u128", "usize", "i8", "i16", "i32", "i64", "i128", "isize"}


class Site:
    __slots__ = ("fn", "kind", "desc", "node", "loc", "facts", "mac", "key", "parents", "rawkey", "tymap")

    def __init__(self, fn, kind, desc, node, facts, mac, parents):
        self.fn, self.kind, self.desc, self.node, self.facts, self.mac, self.parents = fn, kind, desc, node, facts, mac, parents
        self.loc = ir.loc(node)
        self.key = None
        self.rawkey = None
        self.tymap = None


# ------------------------------------------------------------------ fact extraction from conditions

def cond_facts(c, truth, out):
    """append facts implied by condition c having the given truth value"""
    c = ir.unparen(c)
    if c is None:
        return
    k = c.get("k")
    if k == "un" and c.get("op") == "!":
        cond_facts(c["e"], not truth, out)
        return
    if k == "call" and c.get("q") == "anyhow::__private::not" and c.get("a"):
        cond_facts(c["a"][0], not truth, out)
        return
    if k == "bin" and c.get("op") == "&&":
        if truth:
            cond_facts(c["l"], True, out)
            cond_facts(c["r"], True, out)
        return
    if k == "bin" and c.get("op") == "||":
        if not truth:
            cond_facts(c["l"], False, out)
            cond_facts(c["r"], False, out)
        return
    cm = ir.cmp_norm(c, negate=not truth)
    if cm is not None:
        out.append(("cmp",) + cm)
        return
    if k == "mcall" and c.get("name") in ("is_some", "is_none", "is_ok", "is_err", "is_empty", "contains_key", "contains", "starts_with", "ends_with", "is_char_boundary", "exists", "is_file", "is_dir", "try_exists"):
        arg = ir.place_str(c["a"][0]) if c.get("a") else ""
        out.append(("pred", ir.place_str(c["recv"]), c["name"], arg, truth))
        return
    if k == "letx":
        # `if let Some(x) = e` true-branch
        if truth:
            q = c["pat"].get("q", "")
            out.append(("letpat", ir.place_str(c["init"]), q))
        return
    if k == "call" and (c.get("q") or "").endswith("matches") or (k == "match" and c.get("msrc") == "Normal" and c.get("t") == "bool"):
        return


def _int(s):
    try:
        return int(s)
    except (TypeError, ValueError):
        return None


def len_lower_bound(place, facts):
    """largest n such that facts imply len(place) >= n"""
    lb = 0
    lp = place + ".len()"
    for f in facts:
        if f[0] == "cmp":
            _, a, op, b = f
            if a == lp and _int(b) is not None:
                n = _int(b)
                lb = max(lb, {"==": n, ">=": n, ">": n + 1}.get(op, 0))
            if b == lp and _int(a) is not None:
                n = _int(a)
                lb = max(lb, {"==": n, "<=": n, "<": n + 1}.get(op, 0))
        if f[0] == "pred" and f[1] == place and f[2] == "is_empty" and f[4] is False:
            lb = max(lb, 1)
        # v.first() / v.last() known to be Some(..): `v.first() == Some(x)`, `if let Some(x) = v.first()`, `v.first().is_some()`
        for acc in (".first()", ".last()", ".get(0)"):
            pa = place + acc
            if f[0] == "cmp" and f[2] == "==" and ((f[1] == pa and str(f[3]).startswith("Some")) or (f[3] == pa and str(f[1]).startswith("Some"))):
                lb = max(lb, 1)
            if f[0] == "letpat" and f[1] == pa and str(f[2]).endswith("Option::Some::{Ctor#0}"):
                lb = max(lb, 1)
            if f[0] == "pred" and f[1] == pa and ((f[2] == "is_some" and f[4] is True) or (f[2] == "is_none" and f[4] is False)):
                lb = max(lb, 1)
    return lb


def has_pred(facts, place, name, truth):
    return any(f[0] == "pred" and f[1] == place and f[2] == name and f[4] is truth for f in facts)


def index_below_len(idx_place, coll_place, facts):
    lp = coll_place + ".len()"
    for f in facts:
        if f[0] == "cmp":
            _, a, op, b = f
            if a == idx_place and b == lp and op == "<":
                return True
            if b == idx_place and a == lp and op == ">":
                return True
        if f[0] == "range" and f[1] == idx_place and f[2] == lp:
            return True
    return False


# ------------------------------------------------------------------ site collection

def collect_sites(P, b):
    """all panic-capable sites of one body with the path facts that dominate them"""
    sites = []
    fq = b["q"]

    def add(kind, desc, n, facts, mac, parents):
        sites.append(Site(fq, kind, desc, n, tuple(facts), mac, parents))

    def visit(n, facts, mac, parents):
        if "m" in n:
            mac = n["m"]
        elif n.get("um"):
            mac = ""
        k = n.get("k")
        np_ = parents + (n,)
        # ---- structured control flow with facts
        if k == "block":
            fs = list(facts)
            for st in n.get("stmts", ()):
                visit(st, fs, mac, np_)
                x = st["e"] if st.get("k") == "semi" else st
                x = ir.unparen(x) if x.get("k") == "block" else x
                if x.get("k") == "if" and "else" not in x and ir.diverges(x["then"]):
                    cond_facts(x["c"], False, fs)
                elif x.get("k") == "if" and "else" in x and ir.diverges(x["else"]) and not ir.diverges(x["then"]):
                    cond_facts(x["c"], True, fs)
                elif x.get("k") == "block":
                    # macro-generated wrapper blocks (ensure!, assert!): look one level inside
                    for y in x.get("stmts", ()):
                        y = y["e"] if y.get("k") == "semi" else y
                        if y.get("k") == "if" and "else" not in y and ir.diverges(y["then"]):
                            cond_facts(y["c"], False, fs)
                    t = x.get("tail")
                    if t is not None and t.get("k") == "if" and "else" not in t and ir.diverges(t["then"]):
                        cond_facts(t["c"], False, fs)
                if x.get("k") == "match" and x.get("msrc") == "Normal":
                    # assert_eq! expands to match (&a, &b) { (l, r) => if !(*l == *r) { panic } }
                    pass
            if "tail" in n:
                visit(n["tail"], fs, mac, np_)
            return
        if k == "if":
            visit(n["c"], facts, mac, np_)
            ft = list(facts)
            cond_facts(n["c"], True, ft)
            visit(n["then"], ft, mac, np_)
            if "else" in n:
                fe = list(facts)
                cond_facts(n["c"], False, fe)
                visit(n["else"], fe, mac, np_)
            return
        if k == "while":
            visit(n["c"], facts, mac, np_)
            fb = list(facts)
            cond_facts(n["c"], True, fb)
            visit(n["body"], fb, mac, np_)
            return
        if k == "for":
            visit(n["iter"], facts, mac, np_)
            fb = list(facts)
            it = ir.unparen(n["iter"])
            binds = ir.pat_binds(n["pat"])
            if it.get("k") == "struct" and "Range" in (it.get("q") or "") and len(binds) == 1:
                fl = {f["name"]: f["e"] for f in it["fields"]}
                if "end" in fl:
                    fb.append(("range", binds[0]["name"], ir.place_str(fl["end"])))
            if it.get("k") == "call" and "Range" in (it.get("q") or "") and len(binds) == 1 and len(it.get("a", ())) == 2:
                fb.append(("range", binds[0]["name"], ir.place_str(it["a"][1])))
            visit(n["body"], fb, mac, np_)
            return
        if k == "bin" and n.get("op") == "&&":
            visit(n["l"], facts, mac, np_)
            fr = list(facts)
            cond_facts(n["l"], True, fr)
            visit(n["r"], fr, mac, np_)
            return
        if k == "bin" and n.get("op") == "||":
            visit(n["l"], facts, mac, np_)
            fr = list(facts)
            cond_facts(n["l"], False, fr)
            visit(n["r"], fr, mac, np_)
            return
        if k == "match":
            visit(n["e"], facts, mac, np_)
            for a in n["arms"]:
                fa = list(facts)
                pk = a["pat"]
                if pk.get("k") in ("tstruct", "struct", "expr") and (pk.get("q") or pk.get("e", {}).get("q")):
                    fa.append(("letpat", ir.place_str(n["e"]), pk.get("q") or pk["e"].get("q")))
                if pk.get("k") == "expr" and pk["e"].get("k") == "lit":
                    fa.append(("cmp", ir.place_str(n["e"]), "==", repr(pk["e"].get("v")) if not isinstance(pk["e"].get("v"), int) else str(pk["e"]["v"])))
                if "guard" in a:
                    visit(a["guard"], fa, mac, np_)
                    cond_facts(a["guard"], True, fa)
                visit(a["body"], fa, mac, np_)
            return
        # ---- sites
        if k == "call":
            q = n.get("q") or ""
            if q.startswith(ir.PANIC_FNS):
                chain = mac.split("<")
                which = next((m for m in chain if m.split("::")[-1] in PANIC_MACROS), None)
                # desugared overflow/bounds checks do not appear in HIR; these are explicit macros
                add("panic", (which or q).split("::")[-1], n, facts, mac, parents)
            elif q in PANICKY_STD and PANICKY_STD[q]:
                add("std", PANICKY_STD[q], n, facts, mac, parents)
        elif k == "mcall":
            q = n.get("q") or ""
            if q in UNWRAPS:
                add("unwrap", "%s on %s" % (UNWRAPS[q], _recv_desc(n["recv"])), n, facts, mac, parents)
            elif q in PANICKY_STD and PANICKY_STD[q]:
                add("std", "%s on %s" % (PANICKY_STD[q], ir.place_str(n["recv"])), n, facts, mac, parents)
        elif k == "index":
            bt = (n["e"].get("ta") or n["e"].get("t") or "")
            add("index", "%s[%s]" % (ir.place_str(n["e"]), _idx_desc(n["i"])), n, facts, mac, parents)
        elif k in ("bin", "assignop") and n.get("op") in ("/", "%", "/=", "%=") and "q" not in n:
            lt = n["l"].get("t")
            if lt in INT_TYPES:
                add("div", "%s %s %s" % (ir.place_str(n["l"]), n["op"], ir.place_str(n["r"])), n, facts, mac, parents)
        elif k == "mcall" and False:
            pass
        if k in ("bin", "assignop") and n.get("op") in ("<<", ">>", "<<=", ">>=") and n["l"].get("t") in INT_TYPES:
            if ir.const_eval(n["r"], {}) is None:
                add("shift", "%s %s %s" % (ir.place_str(n["l"]), n["op"], ir.place_str(n["r"])), n, facts, mac, parents)
        if k == "mcall" and n.get("name") in ("div", "rem") and (n.get("q") or "").startswith("core::ops::arith::") and n["recv"].get("t") in INT_TYPES | {"&" + t for t in INT_TYPES}:
            add("div", "%s.%s(%s)" % (ir.place_str(n["recv"]), n["name"], ir.place_str(n["a"][0])), n, facts, mac, parents)
        if k == "closure":
            # closure bodies run later; facts that mention only immutable captured state still hold, but be conservative
            visit(n["body"], [f for f in facts if f[0] in ("cmp", "pred")], mac, np_)
            return
        for c in ir.children(n):
            visit(c, facts, mac, np_)

    visit(b["body"], [], "", ())
    # ordinals for stable keys
    _assign_keys(b, sites)
    return sites



def nodes_with_facts(root, pred):
    """[(node, facts)] for every node under `root` satisfying pred, with the path facts that dominate it (same tracking as
    collect_sites: if/else branches, statements after a diverging `if`, while conditions)"""
    out = []

    def visit(n, facts):
        k = n.get("k")
        if pred(n):
            out.append((n, tuple(facts)))
        if k == "block":
            fs = list(facts)
            for st in n.get("stmts", ()):
                visit(st, fs)
                x = st["e"] if st.get("k") == "semi" else st
                x = ir.unparen(x) if x.get("k") == "block" else x
                if x.get("k") == "if" and "else" not in x and ir.diverges(x["then"]):
                    cond_facts(x["c"], False, fs)
                elif x.get("k") == "if" and "else" in x and ir.diverges(x["else"]) and not ir.diverges(x["then"]):
                    cond_facts(x["c"], True, fs)
                elif x.get("k") == "block":
                    for y in x.get("stmts", ()):
                        y = y["e"] if y.get("k") == "semi" else y
                        if y.get("k") == "if" and "else" not in y and ir.diverges(y["then"]):
                            cond_facts(y["c"], False, fs)
                    t = x.get("tail")
                    if t is not None and t.get("k") == "if" and "else" not in t and ir.diverges(t["then"]):
                        cond_facts(t["c"], False, fs)
            if "tail" in n:
                visit(n["tail"], fs)
            return
        if k == "if":
            visit(n["c"], facts)
            ft = list(facts)
            cond_facts(n["c"], True, ft)
            visit(n["then"], ft)
            if "else" in n:
                fe = list(facts)
                cond_facts(n["c"], False, fe)
                visit(n["else"], fe)
            return
        if k == "while":
            visit(n["c"], facts)
            fb = list(facts)
            cond_facts(n["c"], True, fb)
            visit(n["body"], fb)
            return
        for c in ir.children(n):
            visit(c, facts)
    visit(root, [])
    return out


def _recv_desc(r):
    r = ir.strip(r)
    if r.get("k") in ("mcall", "call"):
        q = r.get("rvq") or r.get("q") or "?"
        return q.rsplit("::", 2)[-2] + "::" + q.rsplit("::", 1)[-1] + "(..)" if "::" in q else q
    if r.get("k") in ("try", "await"):
        return _recv_desc(r["e"])
    return ir.place_str(r)


def _idx_desc(i):
    i = ir.unparen(i)
    if i.get("k") == "struct" and "Range" in (i.get("q") or ""):
        fl = {f["name"]: ir.place_str(f["e"]) for f in i["fields"]}
        return "%s..%s" % (fl.get("start", ""), fl.get("end", ""))
    if i.get("k") == "call" and "Range" in (i.get("q") or ""):
        return "..".join(ir.place_str(a) for a in i.get("a", ()))
    return ir.place_str(i)


def _key_desc(s):
    return re.sub(r"\s+", " ", s.desc)[:120]


def short_type(t):
    """`&mut std::vec::Vec<u8>` -> `&mut Vec`: type name without path, generics and lifetimes"""
    t = t or "?"
    pre = ""
    m = re.match(r"^(&(?:'\w+ )?(?:mut )?)", t)
    if m:
        pre, t = ("&mut " if "mut" in m.group(1) else "&"), t[m.end():]
    out, depth = [], 0
    for ch in t:
        if ch == "<":
            depth += 1
        elif ch == ">":
            depth -= 1
        elif depth == 0:
            out.append(ch)
    t = "".join(out).strip()
    if t.startswith(("[", "(")):
        return pre + re.sub(r"[\w:]+::", "", t)
    return pre + t.rsplit("::", 1)[-1]


def type_map(b):
    """local name -> short type for one body (first binding wins); used to make site keys independent of variable names"""
    memo = b.get("_tymap")
    if memo is not None:
        return memo
    out = {}

    def go(n):
        if isinstance(n, dict):
            if n.get("k") == "bind" and n.get("name") and "hid" in n:
                nm = n["name"]
                if nm not in ("self", "__self") and nm not in out:
                    out[nm] = short_type(n.get("t"))
            for v in n.values():
                go(v)
        elif isinstance(n, (list, tuple)):
            for v in n:
                go(v)
    go(b.get("params"))
    go(b["body"])
    b["_tymap"] = out
    return out


def norm_text(tymap, text):
    """replace every local variable name in `text` by `$<short type>`"""
    if not tymap or not text:
        return text
    rx = re.compile(r"(?<![\w$.:])(" + "|".join(sorted(map(re.escape, tymap), key=len, reverse=True)) + r")\b(?!\s*\(|::)")
    text = text.replace("..", "\u2025")
    return rx.sub(lambda m: "$" + tymap[m.group(1)], text).replace("\u2025", "..")


def _assign_keys(b, sites):
    """stable keys: function | kind | descriptor with local names replaced by their types, plus an ordinal for repeats.
    A rename of a local variable leaves every key unchanged."""
    tm = type_map(b)
    counts, rcounts = {}, {}
    for s in sites:
        s.tymap = tm
        raw = "%s|%s|%s" % (s.fn, s.kind, _key_desc(s))
        rcounts[raw] = rcounts.get(raw, 0) + 1
        s.rawkey = raw if rcounts[raw] == 1 else "%s#%d" % (raw, rcounts[raw])
        base = "%s|%s|%s" % (s.fn, s.kind, norm_text(tm, _key_desc(s)))
        counts[base] = counts.get(base, 0) + 1
        s.key = base if counts[base] == 1 else "%s#%d" % (base, counts[base])


# ------------------------------------------------------------------ automatic discharge

def all_const(n):
    """expression built from literals / consts only"""
    for x in ir.walk_nodes(n):
        k = x.get("k")
        if k == "path" and x.get("r") == "local":
            return False
        if k in ("closure", "await", "try", "index"):
            return False
    return True


def array_len(t):
    m = re.search(r"\[.*; (\d+)\]$", t or "")
    return int(m.group(1)) if m else None


def auto_discharge(s):
    n = s.node
    if s.kind == "unwrap":
        r = ir.strip(n["recv"])
        if r.get("k") in ("call", "mcall") and all_const(r):
            return "receiver is built from literals/constants only (%s)" % _recv_desc(r)
        while r.get("k") == "mcall" and r.get("name") in ("as_ref", "as_mut", "as_deref", "as_deref_mut") and not r.get("a"):
            r = ir.strip(r["recv"])
        place = ir.place_str(r)
        q = n.get("q")
        if q.startswith("core::option::") and has_pred(s.facts, place, "is_some", True):
            return "dominated by %s.is_some()" % place
        if q.startswith("core::option::") and has_pred(s.facts, place, "is_none", False):
            return "dominated by !%s.is_none()" % place
        if q.startswith("core::result::") and (has_pred(s.facts, place, "is_ok", True) or has_pred(s.facts, place, "is_err", False)):
            return "dominated by %s.is_ok()" % place
        # X.first()/last()/iter().next() under a length guard
        if r.get("k") == "mcall" and r.get("name") in ("first", "last", "first_mut", "last_mut", "pop", "next") and not r.get("a"):
            base = ir.strip(r["recv"])
            if base.get("k") == "mcall" and base.get("name") in ("iter", "chars", "into_iter"):
                base = ir.strip(base["recv"])
            bp = ir.place_str(base)
            if len_lower_bound(bp, s.facts) >= 1:
                return "dominated by a guard implying %s is non-empty" % bp
        # map.get(k).unwrap() under contains_key(k)
        if r.get("k") == "mcall" and r.get("name") in ("get", "get_mut") and r.get("a"):
            bp = ir.place_str(r["recv"])
            kp = ir.place_str(r["a"][0])
            if any(f[0] == "pred" and f[1] == bp and f[2] == "contains_key" and f[3] == kp and f[4] for f in s.facts):
                return "dominated by %s.contains_key(%s)" % (bp, kp)
        return None
    if s.kind == "index":
        base, idx = n["e"], ir.unparen(n["i"])
        bt = base.get("t", "")
        bta = base.get("ta", "") or bt
        bp = ir.place_str(base)
        alen = array_len(bt) or array_len(bta.lstrip("&").replace("mut ", ""))
        iv = ir.const_eval(idx, {})
        if iv is not None:
            if alen is not None and 0 <= iv < alen:
                return "constant index %d into an array of length %d" % (iv, alen)
            lb = len_lower_bound(bp, s.facts)
            if lb > iv:
                return "constant index %d under a guard implying len >= %d" % (iv, lb)
        # constant ranges
        rng = _const_range(idx)
        if rng is not None:
            lo, hi = rng
            need = hi if hi is not None else lo
            if alen is not None and (need or 0) <= alen:
                return "constant range within an array of length %d" % alen
            if need is not None and len_lower_bound(bp, s.facts) >= need:
                return "constant range under a guard implying len >= %d" % need
        # `for c in xs.chunks_exact(N)` / `xs.windows(N)` (constant N): every c has exactly N elements
        bh = ir.local_hid(base)
        if bh is not None and (iv is not None or rng is not None):
            need = (iv + 1) if iv is not None else ((rng[1] if rng[1] is not None else rng[0]) or 0)
            for p_ in s.parents:
                if p_.get("k") == "for" and p_["pat"].get("k") == "bind" and p_["pat"].get("hid") == bh:
                    it = ir.unparen(ir.strip(p_["iter"]))
                    if it.get("k") == "mcall" and (it.get("q") or "") in ("[T]::chunks_exact", "[T]::windows", "core::slice::<impl [T]>::chunks_exact", "core::slice::<impl [T]>::windows") and it.get("a"):
                        nn = ir.const_eval(it["a"][0], {})
                        if nn is not None and need <= nn and not ir.contains(p_["body"], lambda y: y.get("k") == "assign" and ir.local_hid(y["l"]) == bh):
                            return "element of %s(%d): constant index below the fixed chunk length" % (it["name"], nn)
        ip = ir.place_str(idx)
        if index_below_len(ip, bp, s.facts):
            return "index %s is below %s.len() on this path" % (ip, bp)
        # map[key] under map.contains_key(key) (no mutation of the map can sit between a dominating fact and the use of a shared borrow)
        if ("HashMap<" in bta or "BTreeMap<" in bta) and any(f[0] == "pred" and f[1] == bp and f[2] == "contains_key" and f[3] == ip and f[4] for f in s.facts):
            if not _mutated_between(s, bp):
                return "dominated by %s.contains_key(%s)" % (bp, ip)
        return None
    if s.kind == "div":
        r = n["r"] if n.get("k") in ("bin", "assignop") else n["a"][0]
        v = ir.const_eval(r, {})
        if v is not None and v != 0:
            return "constant non-zero divisor %d" % v
        rp = ir.place_str(r)
        for f in s.facts:
            if f[0] == "cmp" and ((f[1] == rp and f[3] == "0" and f[2] in ("!=", ">")) or (f[3] == rp and f[1] == "0" and f[2] in ("!=", "<"))):
                return "divisor %s is non-zero on this path" % rp
        return None
    if s.kind == "std" and n.get("k") == "mcall" and s.desc.startswith(("char::encode_utf8", "char::encode_utf16")) and n.get("a"):
        need = 4 if "utf8" in s.desc else 2
        al_ = array_len((ir.strip(n["a"][0]).get("t") or "").lstrip("&").replace("mut ", "")) or array_len((ir.strip(n["a"][0]).get("ta") or "").lstrip("&").replace("mut ", ""))
        inner = ir.strip(n["a"][0])
        while al_ is None and inner is not None and inner.get("k") in ("ref", "un"):
            inner = ir.strip(inner["e"])
            al_ = array_len((inner or {}).get("t") or "")
        if al_ is not None and al_ >= need:
            return "scratch buffer of %d units holds every character" % al_
        return None
    if s.kind == "std" and n.get("k") == "mcall" and s.desc.startswith(("chunks", "windows")) and len(n.get("a", ())) == 1:
        sz = ir.const_eval(n["a"][0], {})
        if sz is not None and sz > 0:
            return "constant non-zero size %d" % sz
        return None
    if s.kind == "std" and n.get("k") == "mcall" and s.desc.startswith("clamp") and len(n.get("a", ())) == 2:
        lo, hi = ir.const_eval(n["a"][0], {}), ir.const_eval(n["a"][1], {})
        if lo is not None and hi is not None and lo <= hi:
            return "constant bounds %s <= %s" % (lo, hi)
        return None
    if s.kind == "std" and n.get("k") == "mcall" and s.desc.startswith(("Vec::remove", "Vec::swap_remove")) and n.get("a"):
        iv = ir.const_eval(n["a"][0], {})
        bp = ir.place_str(n["recv"])
        if iv is not None and len_lower_bound(bp, s.facts) > iv:
            return "constant index %d under a guard implying %s has more elements" % (iv, bp)
        return None
    return None



def _mutated_between(s, place):
    """is `place` written (insert/remove/clear/retain/&mut use) in the site's function before the site?  Conservative: any such
    call anywhere in the body that precedes the site in source order counts."""
    body = None
    for p_ in s.parents:
        body = p_
        break
    if body is None:
        return True
    seen_site = [False]
    bad = [False]
    for y in ir.walk_nodes(body):
        if y is s.node:
            seen_site[0] = True
            break
        if y.get("k") == "mcall" and ir.place_str(y["recv"]) == place and y.get("name") in ("insert", "remove", "clear", "retain", "drain", "entry", "get_mut", "iter_mut", "values_mut", "remove_entry", "pop_first", "pop_last", "extend", "append"):
            bad[0] = True
    return bad[0]


def _const_range(idx):
    idx = ir.unparen(idx)
    if idx.get("k") == "struct" and "Range" in (idx.get("q") or ""):
        fl = {f["name"]: ir.const_eval(f["e"], {}) for f in idx["fields"]}
        names = {f["name"] for f in idx["fields"]}
        if all(v is not None for v in fl.values()):
            hi = fl.get("end")
            if hi is not None and "RangeInclusive" in idx.get("q", ""):
                hi += 1
            if "end" not in names:
                return (fl.get("start", 0), None)
            return (fl.get("start", 0), hi)
    return None


# ------------------------------------------------------------------ tables

def site_facts(s):
    """the comparisons / predicates that dominate a site, rendered with local names replaced by their types"""
    return sorted({norm_text(s.tymap, " ".join(map(str, f[1:]))) for f in s.facts if f[0] in ("cmp", "pred", "range", "letpat")})


def site_args(s):
    """for an unwrap/expect on the result of a call: the arguments of that call as terms over the function's parameters, fields and
    uninterpreted calls (affine.py; locals resolved through their single `let`), rendered independently of names and HIR ids.
    The review of such a site argues about these values; when they change the review has to be repeated."""
    from . import affine as A
    if s.kind != "unwrap" or not s.parents:
        return None
    r = ir.strip(s.node.get("recv")) if s.node.get("recv") is not None else None
    while r is not None and r.get("k") == "mcall" and r.get("name") in ("context", "with_context", "ok_or", "ok_or_else", "map_err", "ok", "as_ref", "as_mut") :
        r = ir.strip(r["recv"])
    if r is None or r.get("k") not in ("call", "mcall"):
        return None
    args = ([r["recv"]] if r.get("k") == "mcall" else []) + list(r.get("a", ()))
    if not args:
        return None
    root = s.parents[0]
    multi = {}
    for y in ir.walk_nodes(root):
        if y.get("k") in ("assign", "assignop") and y["l"].get("k") == "path":
            h = ir.local_hid(y["l"])
            if h is not None:
                multi[h] = True
    env = A.Env()
    for y in ir.walk_nodes(root):
        if y.get("k") == "let" and "init" in y and y["pat"].get("k") == "bind":
            h = y["pat"]["hid"]
            env.m[h] = A.opaque() if h in multi else A.ev(y["init"], env)
    tm = s.tymap or {}

    def nm(hid, name):
        return norm_text(tm, name)
    out = []
    for a in args:
        try:
            out.append(A.show_stable(A.ev(a, env), nm))
        except (KeyError, TypeError, ValueError, RecursionError):
            out.append("?")
    return out


def entry_lapsed(e, s):
    """a reviewed entry records the guards that dominated the site when it was reviewed; if one of them no longer dominates the
    site the review no longer applies (None = still valid, else the reason)"""
    want = e.get("facts") or []
    have = set(site_facts(s))
    gone = [f for f in want if f not in have]
    if gone:
        return "guard(s) %s that dominated the site when it was reviewed are gone" % gone
    if e.get("args") is not None:
        now = site_args(s)
        if now != e["args"]:
            return "the arguments of the call whose result is unwrapped changed since the review: %s, reviewed with %s" % (now, e["args"])
    return None


def load_table(name):
    p = os.path.join(os.path.dirname(os.path.dirname(os.path.dirname(os.path.abspath(__file__)))), "tables", name)
    if not os.path.exists(p):
        return {}
    with open(p) as fh:
        d = json.load(fh)
    return {e["key"]: e for e in d["sites"]}


def run_census(ck, P, rule, entries, table, scope_note="", classify=None):
    """report every reachable panic-capable site that is neither auto-discharged nor reviewed.
    classify(site) -> None | 'skip:<reason>' lets a property exclude site classes it does not quantify over."""
    seen = P.reachable(entries)
    n_sites = 0
    stats = {"auto": 0, "reviewed": 0, "violation": 0, "skipped": 0}
    used = set()
    for fq in sorted(seen):
        b = P.fn(fq)
        if b is None:
            continue
        for s in collect_sites(P, b):
            n_sites += 1
            if classify is not None:
                c = classify(s)
                if c:
                    stats["skipped"] += 1
                    continue
            why = auto_discharge(s)
            if why:
                stats["auto"] += 1
                ck.ok(rule, s.key, "auto: " + why, s.loc)
                continue
            e = table.get(s.key)
            lapsed = entry_lapsed(e, s) if e is not None else None
            if e is not None and lapsed is None:
                used.add(s.key)
                stats["reviewed"] += 1
                ck.ok(rule, s.key, "reviewed: " + e["reason"], s.loc)
                continue
            stats["violation"] += 1
            chain = P.chain(seen, fq)
            ck.violation(rule, s.key, "panic-capable %s site `%s` reachable from %s (via %s)%s%s" % (
                s.kind, s.desc, chain[0].rsplit("::", 1)[-1], " -> ".join(c.rsplit("::", 1)[-1] for c in chain[-4:]), scope_note,
                " (reviewed entry lapsed: %s)" % lapsed if lapsed else ""), s.loc)
    ck.note("%s: %d reachable bodies, %d sites: %s; %d reviewed-table entries unused (lapsed or unreachable)" % (
        rule, len(seen), n_sites, stats, len(set(table) - used)))
    return seen, n_sites, stats


# ------------------------------------------------------------------ decoded-value taint (R-ALLOC, R-ARITH)

DECODE_SOURCES = ("versatiles_core::io::value_reader::ValueReader::read_", "byteorder::io::ReadBytesExt::read_",
                  "rusqlite::row::Row::get", "core::str::<impl str>::parse", "str::parse")
ALLOC_SINKS = {"alloc::vec::from_elem": 1, "alloc::vec::Vec::with_capacity": 0, "alloc::string::String::with_capacity": 0,
               "alloc::vec::Vec::resize": 1, "alloc::vec::Vec::reserve": 1, "alloc::vec::Vec::reserve_exact": 1}
CHECKED = ("checked_", "saturating_", "wrapping_", "overflowing_")


REQUEST_MODE = {"on": False}


def decoded_taint(b, param_idx=()):
    """hids of locals whose value is derived from bytes read by a decoder (flow-insensitive)"""
    tainted = set()
    for i in param_idx:
        if i < len(b.get("params", ())):
            for x in ir.pat_binds(b["params"][i]):
                if x["t"] in INT_TYPES:
                    tainted.add(x["hid"])
    # parameters of type ByteRange are container-supplied offsets/lengths
    rng_params = set()
    coord_params = set()
    for p in b.get("params", ()):
        for x in ir.pat_binds(p):
            if x["t"].endswith("ByteRange"):
                rng_params.add(x["hid"])
            if x["t"].endswith("TileCoord3"):
                coord_params.add(x["hid"])
    al_ = ir.Aliases(b)
    for h, o in list(al_.m.items()):
        if al_.canon(h) in coord_params:
            coord_params.add(h)
    # `let mut coord = *coord;` copies
    for n_ in ir.walk_nodes(b["body"]):
        if n_.get("k") == "let" and "init" in n_ and n_["pat"].get("k") == "bind" and n_["pat"]["t"].endswith("TileCoord3"):
            i_ = ir.strip(n_["init"])
            if i_.get("k") == "path" and i_.get("r") == "local" and i_["hid"] in coord_params:
                coord_params.add(n_["pat"]["hid"])

    def is_src(n):
        if n.get("k") in ("mcall", "call"):
            q = n.get("q") or ""
            if q.startswith(DECODE_SOURCES):
                return True
        if REQUEST_MODE["on"]:
            # request-derived integers: fields of a TileCoord3 parameter (coordinates come straight from the URL)
            if n.get("k") == "field" and n.get("name") in ("x", "y", "z") and (n["e"].get("t", "") + n["e"].get("ta", "")).count("TileCoord3") and \
                    ir.local_hid(n["e"]) in coord_params:
                return True
            return False
        if n.get("k") == "field" and n.get("name") in ("offset", "length") and n["e"].get("t", "").endswith("ByteRange") or \
                (n.get("k") == "field" and n.get("name") in ("offset", "length") and (n["e"].get("ta", "") or "").endswith("ByteRange")):
            return True
        return False

    def expr_tainted(e):
        for x in ir.walk_nodes(e):
            if x.get("k") == "closure":
                continue
            if is_src(x):
                return True
            if x.get("k") == "path" and x.get("r") == "local" and x["hid"] in tainted:
                return True
        return False
    changed = True
    while changed:
        changed = False
        for n in ir.walk_nodes(b["body"]):
            if n.get("k") == "let" and "init" in n:
                if expr_tainted(n["init"]):
                    for x in ir.pat_binds(n["pat"]):
                        if x["t"] in INT_TYPES and x["hid"] not in tainted:
                            tainted.add(x["hid"])
                            changed = True
            if n.get("k") in ("assign", "assignop"):
                h = ir.local_hid(n["l"])
                if h is not None and n["l"].get("k") == "path" and n["l"].get("t") in INT_TYPES and h not in tainted and expr_tainted(n["r"]):
                    tainted.add(h)
                    changed = True
    return tainted, expr_tainted


def bounded_above(place, facts):
    for f in facts:
        if f[0] == "cmp":
            _, a, op, b_ = f
            if a == place and op in ("<", "<=", "=="):
                return True
            if b_ == place and op in (">", ">=", "=="):
                return True
    return False


ALLOC_CONST_MAX = 1 << 24     # elements: a constant bound above this is "out of proportion to the input" for a few-byte message


def alloc_bounded(place, facts):
    """an allocation size is acceptably bounded if it is compared against another run-time quantity (remaining input, a
    length) or against a constant of at most ALLOC_CONST_MAX elements; `n <= 10_000_000_000` does not bound an allocation"""
    for f in facts:
        if f[0] != "cmp":
            continue
        _, a, op, b_ = f
        other = None
        if a == place and op in ("<", "<=", "=="):
            other = b_
        elif b_ == place and op in (">", ">=", "=="):
            other = a
        if other is None:
            continue
        try:
            v = int(str(other).replace("_", ""))
        except ValueError:
            return True
        if v <= ALLOC_CONST_MAX:
            return True
    return False


def param_taint_fixpoint(P, fns):
    """interprocedural: integer parameters that receive a decoded value from some caller in `fns`"""
    pt = {}
    changed = True
    rounds = 0
    while changed and rounds < 6:
        changed = False
        rounds += 1
        for fq in fns:
            b = P.fn(fq)
            if b is None:
                continue
            al = ir.Aliases(b)
            tainted, expr_tainted = decoded_taint(b, pt.get(fq, ()))
            # async/async_trait parameter re-bindings
            for n in ir.walk_nodes(b["body"]):
                if n.get("k") not in ("call", "mcall"):
                    continue
                args = ([n["recv"]] if n["k"] == "mcall" else []) + list(n.get("a", ()))
                for t in P.targets_of(n):
                    cb = P.fn(t)
                    if cb is None:
                        continue
                    for i, a in enumerate(args):
                        if a.get("t") in INT_TYPES and expr_tainted(a) and i not in pt.get(t, ()):
                            pt.setdefault(t, set()).add(i)
                            changed = True
    return pt


def collect_decode_sites(P, b, param_idx=()):
    """allocation and arithmetic sites whose operand is a decoded value without a dominating upper bound"""
    tainted, expr_tainted = decoded_taint(b, param_idx)
    out = []
    lets = {}
    for n_ in ir.walk_nodes(b["body"]):
        if n_.get("k") == "let" and "init" in n_ and n_["pat"].get("k") == "bind" and "Mut" not in n_["pat"].get("mode", "").split(",")[-1]:
            lets[n_["pat"]["hid"]] = n_["init"]

    def visit(n, facts, parents):
        k = n.get("k")
        np_ = parents + (n,)
        if k == "block":
            fs = list(facts)
            for st in n.get("stmts", ()):
                visit(st, fs, np_)
                x = st["e"] if st.get("k") == "semi" else st
                if x.get("k") == "if" and "else" not in x and ir.diverges(x["then"]):
                    cond_facts(x["c"], False, fs)
            if "tail" in n:
                visit(n["tail"], fs, np_)
            return
        if k == "if":
            visit(n["c"], facts, np_)
            ft = list(facts)
            cond_facts(n["c"], True, ft)
            visit(n["then"], ft, np_)
            if "else" in n:
                fe = list(facts)
                cond_facts(n["c"], False, fe)
                visit(n["else"], fe, np_)
            return
        if k in ("call", "mcall"):
            q = n.get("q") or ""
            if q in ALLOC_SINKS:
                args = ([n["recv"]] if k == "mcall" else []) + list(n.get("a", ()))
                i = ALLOC_SINKS[q]
                if i < len(args):
                    sz = args[i]
                    if ir.const_eval(sz, {}) is None and expr_tainted(sz):
                        ops = _operand_places(sz)
                        if not any(alloc_bounded(p_, facts) for p_ in ops):
                            out.append(Site(b["q"], "alloc", "%s(%s)" % (q.rsplit("::", 1)[-1], ir.place_str(sz)), n, tuple(facts), "", parents))
            if q.endswith("::Blob::new_sized") and n.get("a"):
                sz = n["a"][0]
                if ir.const_eval(sz, {}) is None and expr_tainted(sz) and not any(alloc_bounded(p_, facts) for p_ in _operand_places(sz)):
                    out.append(Site(b["q"], "alloc", "Blob::new_sized(%s)" % ir.place_str(sz), n, tuple(facts), "", parents))
        if k in ("bin", "assignop") and n.get("op") in ("+", "-", "*", "+=", "-=", "*=") and n["l"].get("t") in INT_TYPES and "q" not in n:
            if (expr_tainted(n["l"]) or expr_tainted(n["r"])):
                op = n["op"].rstrip("=") if n["op"] not in ("<<",) else "<<"
                tmax = TYPE_MAX.get(n["l"].get("t"), 2 ** 64 - 1)
                ul, ur = upper_bound(n["l"], facts, lets), upper_bound(n["r"], facts, lets)
                safe = False
                if op == "+":
                    safe = ul + ur <= tmax
                elif op == "*":
                    safe = ul * ur <= tmax
                elif op == "<<":
                    bits = tmax.bit_length()
                    safe = ur < bits and (ul << ur) <= tmax
                elif op == "-":
                    safe = _lower_guard(ir.place_str(n["l"]), n, facts) or (ir.const_eval(n["r"], {}) is not None and lower_bound(n["l"], facts, lets) >= ir.const_eval(n["r"], {}))
                if not safe:
                    out.append(Site(b["q"], "arith", "%s %s %s" % (ir.place_str(n["l"]), n["op"], ir.place_str(n["r"])), n, tuple(facts), "", parents))
        if k == "closure":
            visit(n["body"], [f for f in facts if f[0] in ("cmp", "pred")], np_)
            return
        for c in ir.children(n):
            visit(c, facts, np_)

    visit(b["body"], [], ())
    _assign_keys(b, out)
    return out


TYPE_MAX = {"u8": 2 ** 8 - 1, "u16": 2 ** 16 - 1, "u32": 2 ** 32 - 1, "u64": 2 ** 64 - 1, "usize": 2 ** 64 - 1, "u128": 2 ** 128 - 1,
            "i8": 2 ** 7 - 1, "i16": 2 ** 15 - 1, "i32": 2 ** 31 - 1, "i64": 2 ** 63 - 1, "isize": 2 ** 63 - 1, "i128": 2 ** 127 - 1}


def _fact_ub(place, facts):
    best = None
    for f in facts:
        if f[0] != "cmp":
            continue
        _, a, op, b_ = f
        v = None
        if a == place:
            c = _const_of(b_)
            if c is not None:
                v = {"<": c - 1, "<=": c, "==": c}.get(op)
        elif b_ == place:
            c = _const_of(a)
            if c is not None:
                v = {">": c - 1, ">=": c, "==": c}.get(op)
        if v is not None:
            best = v if best is None else min(best, v)
    return best


def _fact_lb(place, facts):
    best = None
    for f in facts:
        if f[0] != "cmp":
            continue
        _, a, op, b_ = f
        v = None
        if a == place:
            c = _const_of(b_)
            if c is not None:
                v = {">": c + 1, ">=": c, "==": c}.get(op)
        elif b_ == place:
            c = _const_of(a)
            if c is not None:
                v = {"<": c + 1, "<=": c, "==": c}.get(op)
        if v is not None:
            best = v if best is None else max(best, v)
    return best


def _const_of(txt):
    try:
        return int(txt)
    except (TypeError, ValueError):
        pass
    if txt in ir.CONSTS:
        return ir.CONSTS[txt]
    for k, v in ir.CONSTS.items():
        if k.endswith("::" + txt):
            return v
    return None


def upper_bound(e, facts, lets, depth=0):
    """inclusive upper bound of an integer expression on this path (type maximum if nothing better is known)"""
    e = ir.unparen(e)
    t = e.get("t", "")
    tmax = TYPE_MAX.get(t.lstrip("&"), 2 ** 64 - 1)
    if depth > 8:
        return tmax
    c = ir.const_eval(e, {})
    if c is not None:
        return c
    k = e.get("k")
    best = tmax
    fb = _fact_ub(ir.place_str(e), facts)
    if fb is not None:
        best = min(best, fb)
    if k == "path" and e.get("r") == "local":
        init = lets.get(e["hid"])
        if init is not None:
            best = min(best, upper_bound(init, facts, lets, depth + 1))
    elif k == "cast":
        best = min(best, upper_bound(e["e"], facts, lets, depth + 1))
    elif k in ("try", "await", "ref") or (k == "un" and e.get("op") == "*"):
        best = min(best, upper_bound(e["e"], facts, lets, depth + 1))
    elif k == "bin":
        ul, ur = upper_bound(e["l"], facts, lets, depth + 1), upper_bound(e["r"], facts, lets, depth + 1)
        op = e.get("op")
        if op == "+":
            best = min(best, ul + ur)
        elif op == "*":
            best = min(best, ul * ur)
        elif op in ("-", "/", ">>"):
            best = min(best, ul)
        elif op == "%":
            best = min(best, max(ur - 1, 0))
        elif op == "&":
            best = min(best, ul, ur)
        elif op == "<<":
            best = min(best, ul << min(ur, 128))
    elif k == "mcall":
        nm = e.get("name")
        if nm == "min" and e.get("a"):
            best = min(best, upper_bound(e["recv"], facts, lets, depth + 1), upper_bound(e["a"][0], facts, lets, depth + 1))
        elif nm in ("unwrap", "expect", "clone", "into", "unwrap_or_default") and not e.get("a") or nm in ("context", "with_context"):
            best = min(best, upper_bound(e["recv"], facts, lets, depth + 1))
        elif nm in ("read_u8",):
            best = min(best, 255)
        elif nm in ("read_u16",):
            best = min(best, 65535)
        elif nm in ("read_u32", "read_i32"):
            best = min(best, 2 ** 32 - 1)
    return best


def lower_bound(e, facts, lets, depth=0):
    e = ir.unparen(e)
    c = ir.const_eval(e, {})
    if c is not None:
        return c
    lb = _fact_lb(ir.place_str(e), facts)
    best = lb if lb is not None else 0
    # an unsigned value that is known to differ from 0 is at least 1
    if (e.get("t") or "") in ("u8", "u16", "u32", "u64", "u128", "usize"):
        pl = ir.place_str(e)
        if any(f[0] == "cmp" and f[2] == "!=" and ((f[1] == pl and _const_of(f[3]) == 0) or (f[3] == pl and _const_of(f[1]) == 0)) for f in facts):
            best = max(best, 1)
    if e.get("k") == "path" and e.get("r") == "local" and depth < 6:
        init = lets.get(e["hid"])
        if init is not None:
            best = max(best, lower_bound(init, facts, lets, depth + 1))
    if e.get("k") == "cast" and depth < 6:
        best = max(best, lower_bound(e["e"], facts, lets, depth + 1))
    return best


def _operand_places(e):
    e = ir.unparen(ir.strip(e))
    out = [ir.place_str(e)]
    if e.get("k") == "cast":
        out += _operand_places(e["e"])
    return out


def _lower_guard(place, n, facts):
    """for `a - b`: a fact `b <= a` / `a >= b`; for others: none"""
    if n.get("op") not in ("-", "-="):
        return False
    a, b_ = ir.place_str(n["l"]), ir.place_str(n["r"])
    for f in facts:
        if f[0] == "cmp":
            if (f[1] == a and f[3] == b_ and f[2] in (">=", ">")) or (f[1] == b_ and f[3] == a and f[2] in ("<=", "<")):
                return True
    return False
