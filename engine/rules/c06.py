"""C06 — conversion selects and relocates tiles exactly as the options say.

R-D4           the four coordinate-transform words of TilesConvertReader (coverage, lookup, stream-in, stream-out)
               are extracted as guarded flip_y/swap_xy call sequences and evaluated in the dihedral group for all four
               flag valuations: cov(flip,swap) = swap∘flip, sout = cov, sin = cov⁻¹, look = cov⁻¹.
R-SELECT       coverage = transformed source pyramid ∩ requested pyramid (intersect after the transforms); CLI: zoom
               limits and bbox narrow a full pyramid, the border is added after the bbox intersection.
R-SAME-READER  serve and convert obtain the transform through TilesConvertReader::new_from_reader; the struct is built
               nowhere else.
R-FLAG-WIRE    CLI flag flip_y reaches parameter flip_y and swap_xy reaches swap_xy (not crossed) in both tools.
"""
import itertools

from . import comp, ir
from .wire import _tokens as wire_tokens
from .report import m_replace

META = {
    "level": "other",
    "explanation": (
        "Decides the coordinate-mapping part of C06 for all tile sets at once: the words of TransformCoord calls that "
        "TilesConvertReader applies to its advertised coverage, to a looked-up coordinate, to the box handed to the inner "
        "stream and to streamed coordinates are extracted from resolved call sites (guards resolved to the "
        "TilesConverterParameters fields, local helper functions followed to depth 3) and composed as elements of the "
        "dihedral group D4 acting on a 8x8 grid for every flag valuation. Obligations: coverage with both flags is "
        "swap∘flip (flip first, as documented), stream-out equals coverage, stream-in and lookup equal its inverse. Also "
        "decided: intersection with the requested pyramid happens after the transforms, the CLI narrows a full pyramid in "
        "the order min/max/bbox then border, serve and convert share one reader type, flags are wired to the same-named parameters, "
        "and every blob on both access paths passes the recompressor (C04)."),
    "not_decided": "geo-bbox -> tile-box numerics (C15); payload identity (C04 decides the encoding part); TileBBox::flip_y/swap_xy arithmetic itself.",
    "trusted_base": ["TransformCoord::flip_y/swap_xy implement (x, M-y) and (y, x) on coordinates, boxes and pyramids alike (C15 territory)", "rustc name resolution"],
}

M = 7
PTS = [(x, y) for x in range(M + 1) for y in range(M + 1)]
OPS = {"flip_y": lambda p: (p[0], M - p[1]), "swap_xy": lambda p: (p[1], p[0])}


def apply_word(word, val, p):
    """word: [(flag, op)], val: {flag: bool}"""
    for flag, op in word:
        if flag is None or val.get(flag):
            p = OPS[op](p)
    return p


def table(word, val):
    return tuple(apply_word(word, val, p) for p in PTS)


def inverse(tab):
    inv = {t: p for p, t in zip(PTS, tab)}
    return tuple(inv[p] for p in PTS)


def tc_op(n):
    """is n a resolved TransformCoord call? -> 'flip_y' | 'swap_xy' | None"""
    if n.get("k") != "mcall" and n.get("k") != "call":
        return None
    q = n.get("q") or ""
    if "::TransformCoord::" in q:
        nm = q.rsplit("::", 1)[1]
        if nm in OPS:
            return nm
    return None


class WordExtractor:
    def __init__(self, P, body):
        self.P = P
        self.body = body
        self.lets = {}
        for n in ir.walk_nodes(body["body"]):
            if n.get("k") == "let" and "init" in n:
                for b in ir.pat_binds(n["pat"]):
                    self.lets[b["hid"]] = n["init"]
        self.problems = []

    def flag_of(self, c, depth=0):
        """resolve a guard expression to the TilesConverterParameters field it reads"""
        c = ir.unparen(ir.strip(c))
        if c is None or depth > 4:
            return None
        if c.get("k") == "field" and c.get("name") in OPS and "TilesConverterParameters" in (c["e"].get("t", "") + c["e"].get("ta", "")):
            return c["name"]
        if c.get("k") == "path" and c.get("r") == "local":
            init = self.lets.get(c["hid"])
            if init is not None:
                return self.flag_of(init, depth + 1)
            # captured by a closure: same hid resolves through lets of the enclosing body (already indexed)
        return None

    def origin(self, hid, depth=0):
        """follow plain copies (`let b = a;`, `a.clone()`, `*a`) back to the first binding"""
        init = self.lets.get(hid)
        if init is None or depth > 6:
            return hid
        x = ir.strip(init)
        while x is not None and x.get("k") == "mcall" and x.get("name") in ("clone", "to_owned") and not x.get("a"):
            x = ir.strip(x["recv"])
        h = ir.local_hid(x) if x is not None and x.get("k") == "path" else None
        if h is None:
            return hid
        return self.origin(h, depth + 1)

    def word(self, node, tracked, depth=0):
        """ordered [(flag|None, op)] of TransformCoord calls on the tracked place inside node.
        tracked: predicate on receiver expression"""
        out = []
        self._walk(node, tracked, None, out, depth)
        return out

    def _walk(self, n, tracked, flag, out, depth):
        k = n.get("k")
        if k == "if":
            f = self.flag_of(n["c"])
            has_tc = ir.contains(n["then"], lambda y: tc_op(y) is not None) or ("else" in n and ir.contains(n["else"], lambda y: tc_op(y) is not None))
            if has_tc:
                if f is None:
                    # `if a || b { ... }` wrappers: descend without a flag, inner guards decide
                    cond_flags = [self.flag_of(x) for x in ir.walk_nodes(n["c"]) if x.get("k") in ("field", "path")]
                    if not any(cond_flags):
                        self.problems.append("unrecognised guard around a transform at %s" % ir.loc(n))
                    self._walk(n["then"], tracked, flag, out, depth)
                else:
                    if flag is not None and flag != f:
                        self.problems.append("nested guards at %s" % ir.loc(n))
                    self._walk(n["then"], tracked, f, out, depth)
                if "else" in n and ir.contains(n["else"], lambda y: tc_op(y) is not None):
                    self.problems.append("transform in an else-branch at %s" % ir.loc(n))
                return
        op = tc_op(n)
        if op is not None:
            recv = n.get("recv") if n.get("k") == "mcall" else (n["a"][0] if n.get("a") else None)
            if recv is not None and tracked(recv):
                out.append((flag, op))
            return
        if k in ("call", "mcall") and depth < 3:
            # local helper that transforms the tracked value passed by &mut
            args = ([n["recv"]] if k == "mcall" else []) + list(n.get("a", ()))
            for i, a in enumerate(args):
                if a.get("k") == "ref" and a.get("mut") and tracked(a):
                    for t in self.P.targets_of(n):
                        cb = self.P.fn(t)
                        if cb and ir.contains(cb["body"], lambda y: tc_op(y) is not None):
                            ph = [b["hid"] for b in ir.pat_binds(cb["params"][i])]
                            sub = WordExtractor(self.P, cb)
                            w = sub.word(cb["body"], lambda r: ir.local_hid(r) in ph, depth + 1)
                            # helper guards on its own parameters are not resolvable: require unguarded helper
                            for (f2, op2) in w:
                                out.append((flag if f2 is None else f2, op2))
                            self.problems.extend(sub.problems)
        for c in ir.children(n):
            if c.get("k") == "closure":
                continue  # closures are separate sites
            self._walk(c, tracked, flag, out, depth)


def _lookup_refusals(ck, gtd):
    """The converting lookup may answer `no tile` by itself only for coordinates outside the tile grid of their level
    (x >= 2^z or y >= 2^z); every other coordinate must be handed to the source, as the stream path does.  A wider test
    (e.g. a validity helper that also rejects a zoom level) makes lookups and streams/conversions disagree."""
    lets = comp.lets_of(gtd)
    cp = [b for p in gtd["params"] for b in ir.pat_binds(p) if "TileCoord3" in b["t"]]
    al = ir.Aliases(gtd)
    cph = {al.canon(b["hid"]) for b in cp}

    def is_grid_size(e):
        e = ir.strip(e)
        while e is not None and e.get("k") == "cast":
            e = ir.strip(e["e"])
        if e is not None and e.get("k") == "path" and e.get("r") == "local" and e["hid"] in lets:
            return is_grid_size(lets[e["hid"]])
        if e is not None and e.get("k") == "mcall" and e.get("name") == "pow" and ir.const_eval(e["recv"], {}) == 2:
            return comp.deep_place(e["a"][0], lets).endswith(".z") and al.hid(_root(e["a"][0])) in cph
        if e is not None and e.get("k") == "bin" and e.get("op") == "<<" and ir.const_eval(e["l"], {}) == 1:
            return comp.deep_place(e["r"], lets).endswith(".z") and al.hid(_root(e["r"])) in cph
        return False

    def _root(e):
        e = ir.strip(e)
        while e is not None and e.get("k") in ("field", "cast", "mcall", "call"):
            if e.get("k") == "call":
                e = ir.strip(e["a"][0]) if e.get("a") else None
            else:
                e = ir.strip(e["e"] if e.get("k") in ("field", "cast") else e["recv"])
        return e

    def disjuncts(c):
        c = ir.unparen(c)
        if c.get("k") == "bin" and c.get("op") == "||":
            return disjuncts(c["l"]) + disjuncts(c["r"])
        return [c]
    bad = []
    n_ref = 0
    for n, parents, _ in ir.walk(gtd["body"]):
        is_none_ret = n.get("k") == "ret" and ir.contains(n, lambda y: (y.get("q") or "").endswith("Option::None::{Ctor#0}"))
        if not is_none_ret:
            continue
        n_ref += 1
        guards = [p for p in parents if p.get("k") == "if"]
        if len(guards) != 1 or not ir.contains(guards[0]["then"], lambda y: y is n):
            bad.append("return Ok(None) at %s is not under a single grid-bound test" % ir.loc(n))
            continue
        for d in disjuncts(guards[0]["c"]):
            ok = False
            if d.get("k") == "bin" and d.get("op") in (">=", ">", "<", "<="):
                l, r, op = d["l"], d["r"], d["op"]
                if op in ("<", "<="):
                    l, r, op = r, l, {"<": ">", "<=": ">="}[op]
                lp = comp.deep_place(l, lets)
                ok = op == ">=" and lp.endswith((".x", ".y", "x)", "y)")) and al.hid(_root(l)) in cph and is_grid_size(r)
            if not ok:
                bad.append("condition `%s` at %s" % (d.get("src") or ir.place_str(d), ir.loc(d)))
    ck.check(not bad, "R-D4", gtd["q"] + "|refusals", "the lookup answers `no tile` on its own only for coordinates outside the 2^z grid (%d early return(s))" % n_ref,
             "the lookup refuses coordinates for a reason other than x >= 2^z || y >= 2^z: %s — lookups (serve) and streams (convert) then disagree" % bad, ir.loc(gtd))


def _from_geo_rule(ck, P):
    """TileBBox::from_geo: per axis, the tile box runs from the min corner to max(max corner, min corner) — the rounding
    guard may only pull an axis that is really inverted back to its own min corner.  Every `TileBBox::new` the function can
    return is checked per axis against the comparisons that dominate it."""
    from . import census
    fg = [b for b in P.bodies if b["q"].endswith("tile_bbox::TileBBox::from_geo")]
    if not ck.anchor("R-SELECT", "TileBBox::from_geo", fg, 1):
        return
    b = fg[0]
    lets = comp.lets_of(b)
    corners = []     # locals holding TileCoord2::from_geo results, in order: min corner (round down), max corner (round up)
    for n in ir.walk_nodes(b["body"]):
        if n.get("k") == "let" and "init" in n and n["pat"].get("k") == "bind" and ir.contains(n["init"], lambda y: y.get("k") == "call" and (y.get("q") or "").endswith("TileCoord2::from_geo")):
            c = [y for y in ir.walk_nodes(n["init"]) if y.get("k") == "call" and (y.get("q") or "").endswith("TileCoord2::from_geo")][0]
            corners.append((n["pat"], ir.const_eval(c["a"][3], {}) if len(c["a"]) > 3 else None, ir.strip(c["a"][3]).get("v") if len(c["a"]) > 3 else None))
    if not ck.check(len(corners) == 2, "R-SELECT", "from_geo|corners", "two corners are converted (min corner, max corner)", "%d corner conversions" % len(corners), ir.loc(b)):
        return
    pmin, pmax = corners[0][0], corners[1][0]
    sites = []

    def visit(n, facts):
        k = n.get("k")
        if k == "block":
            fs = list(facts)
            for st in n.get("stmts", ()):
                visit(st, fs)
                x = st["e"] if st.get("k") == "semi" else st
                if x.get("k") == "if" and "else" not in x and ir.diverges(x["then"]):
                    census.cond_facts(x["c"], False, fs)
            if "tail" in n:
                visit(n["tail"], fs)
            return
        if k == "if":
            ft = list(facts)
            census.cond_facts(n["c"], True, ft)
            visit(n["then"], ft)
            if "else" in n:
                fe = list(facts)
                census.cond_facts(n["c"], False, fe)
                visit(n["else"], fe)
            return
        if k == "call" and (n.get("q") or "").endswith("TileBBox::new") and len(n.get("a", ())) == 5:
            sites.append((n, tuple(facts)))
        for c in ir.children(n):
            visit(c, facts)
    visit(ir.fn_block(b), [])
    from . import affine as A
    bad = []
    for n, facts in sites:
        for axis, i_min, i_max in (("x", 1, 3), ("y", 2, 4)):
            mn = A.sym(((pmin["hid"], pmin["name"]), "." + axis))
            mx = A.sym(((pmax["hid"], pmax["name"]), "." + axis))
            env = A.Env()
            a_min, a_max = A.ev(n["a"][i_min], env), A.ev(n["a"][i_max], env)
            pm, px = "%s.%s" % (pmin["name"], axis), "%s.%s" % (pmax["name"], axis)
            inverted = any(f[0] == "cmp" and ((f[1] == px and f[2] == "<" and f[3] == pm) or (f[1] == pm and f[2] == ">" and f[3] == px)) for f in facts)
            upright = any(f[0] == "cmp" and ((f[1] == px and f[2] == ">=" and f[3] == pm) or (f[1] == pm and f[2] == "<=" and f[3] == px)) for f in facts)
            ok = A.eq(a_min, mn) and (A.eq(a_max, A.tmax(mx, mn)) or (A.eq(a_max, mx) and upright) or (A.eq(a_max, mn) and inverted))
            if not ok:
                bad.append("%s axis at %s: [%s, %s] under %s" % (axis, ir.loc(n), A.show(a_min), A.show(a_max), [" ".join(map(str, f[1:])) for f in facts if f[0] == "cmp"] or "no condition"))
    ck.check(bool(sites) and not bad, "R-SELECT", "from_geo|per-axis", "every box from_geo can return is, per axis, [min corner, max(max corner, min corner)] (%d construction site(s))" % len(sites),
             "from_geo can return a box whose extent on one axis depends on the other axis being inverted: %s" % bad[:2], ir.loc(b))


def _coord_from_geo_rule(ck, P):
    """TileCoord2::from_geo: after the rounding guard both tile indices are CLAMPED into [0, 2^z - 1] (a corner on the edge of
    the world stays in the first / last column; it must not wrap around or overflow the grid)."""
    fg = [b for b in P.bodies if b["q"].endswith("tile_coords::TileCoord2::from_geo")]
    if not ck.anchor("R-SELECT", "TileCoord2::from_geo", fg, 1):
        return
    b = fg[0]
    lets = comp.lets_of(b)
    st = [n for n in ir.walk_nodes(b["body"]) if n.get("k") == "struct" and (n.get("q") or "").endswith("TileCoord2")]
    if not ck.check(len(st) == 1, "R-SELECT", "coord_from_geo|ctor", "one TileCoord2 literal", "%d TileCoord2 literals" % len(st), ir.loc(b)):
        return
    zooms = [h for h, init in lets.items() if ir.contains(init, lambda y: (y.get("k") == "mcall" and y.get("name") in ("powi", "powf", "pow") and ir.const_eval(y["recv"], {}) in (2, None) and
                                                                 (ir.strip(y["recv"]).get("v") in ("2.0", "2", 2, "2.0f64", "2f64") or ir.const_eval(y["recv"], {}) == 2)) or
                                                  (y.get("k") == "bin" and y.get("op") == "<<" and ir.const_eval(y["l"], {}) == 1))]
    bad = []
    for f in st[0]["fields"]:
        e = ir.strip(f["e"])
        while e is not None and e.get("k") == "cast":
            e = ir.strip(e["e"])
        ops = []
        x = e
        while x is not None and x.get("k") == "mcall":
            ops.append(x)
            x = ir.strip(x["recv"])
        names = [o["name"] for o in ops]

        def is_top(a):
            a = ir.unparen(ir.strip(a))
            return a.get("k") == "bin" and a.get("op") == "-" and ir.local_hid(a["l"]) in zooms and str(ir.strip(a["r"]).get("v")) in ("1.0", "1", "1.0f64")

        def is_zero(a):
            return str(ir.strip(a).get("v")) in ("0.0", "0", "0.0f64", "0f64")
        ok = False
        if sorted(names) == ["max", "min"]:
            mn = [o for o in ops if o["name"] == "min"][0]
            mx = [o for o in ops if o["name"] == "max"][0]
            ok = is_top(mn["a"][0]) and is_zero(mx["a"][0])
        elif names == ["clamp"]:
            ok = is_zero(ops[0]["a"][0]) and is_top(ops[0]["a"][1])
        if not ok:
            bad.append("%s: %s" % (f["name"], names or ir.place_str(e)))
    # the projected value goes through tan / ln, so a corner that lies ON a tile edge arrives as k +- 1e-15: it is rounded with a positive
    # tolerance towards the INSIDE of the box - floor(v + eps) for a lower corner, floor(v - eps) (or ceil(v - eps) - 1) for an upper corner.
    # Exact rounding puts half of the tile-aligned boxes one row too far out.
    rp = [x for p_ in b["params"] for x in ir.pat_binds(p_) if x["t"] == "bool"]
    rounds = []
    for y, ps_, _ in ir.walk(b["body"]):
        if y.get("k") == "mcall" and y.get("name") in ("floor", "ceil", "round", "trunc") and (ir.strip(y["recv"]).get("t") in ("f64", "f32")):
            br = None
            for i_, p_ in enumerate(ps_):
                if p_.get("k") == "if" and rp and ir.local_hid(ir.strip(ir.unparen(ir.strip(p_["c"])))) == rp[0]["hid"]:
                    br = "up" if ir.contains(p_["then"], lambda z: z is y) else "down"
            r = ir.unparen(ir.strip(y["recv"]))
            sign = None
            if r.get("k") == "mcall" and r.get("name") in ("add", "sub") and r.get("a"):
                v = ir.strip(r["a"][0]).get("v")
                try:
                    sign = ("+" if r["name"] == "add" else "-") if float(v) > 0 else None
                except (TypeError, ValueError):
                    sign = None
            elif r.get("k") == "bin" and r.get("op") in ("+", "-"):
                v = ir.strip(r["r"]).get("v")
                try:
                    sign = r["op"] if float(v) > 0 else None
                except (TypeError, ValueError):
                    sign = None
            rounds.append((br, y["name"], sign))
    want_ok = len(rounds) == 4 and sorted(rounds, key=str) == sorted([("up", "floor", "-")] * 2 + [("down", "floor", "+")] * 2, key=str) or \
        (len(rounds) == 4 and sorted(rounds, key=str) == sorted([("up", "ceil", "-")] * 2 + [("down", "floor", "+")] * 2, key=str))
    ck.check(want_ok, "R-SELECT", "coord_from_geo|tolerance", "corners are rounded with a positive tolerance towards the inside of the box: floor(v + eps) for a lower, floor(v - eps) for an upper corner",
             "TileCoord2::from_geo rounds the projected corner without a tolerance towards the inside of the box (%s): a box edge that lies on a tile edge arrives as k +- 1e-15 after tan/ln, and exact "
             "rounding selects a surplus row of tiles that only touch the box" % rounds, ir.loc(b))
    ck.check(not bad and bool(zooms), "R-SELECT", "coord_from_geo|clamped", "both tile indices are clamped into [0, 2^z - 1] after the rounding guard",
             "a tile index is not clamped into [0, 2^z - 1] (%s): a corner on the edge of the world wraps around or leaves the grid" % bad, ir.loc(st[0]))


def rules(ck, P):
    from . import c04 as _c04
    _c04.converter_paths_rule(ck, P)
    _c04.converter_entry_rule(ck, P)
    from . import boxalg
    boxalg.transform_rule(ck, P, "R-BOX-D4")
    _from_geo_rule(ck, P)
    _coord_from_geo_rule(ck, P)
    # the selection the CLI builds is in OUTPUT coordinates (new_from_reader transforms the source pyramid, then intersects with the
    # selection): the tools narrow it by zoom limits, the geographic box and the border only - a flip / swap of the selection itself
    # selects the pre-image of the requested box
    from . import c03 as _c03
    _c03.pyramid_writers_rule(ck, P, "R-SELECT", {
        "versatiles/src/tools/convert.rs": {"set_zoom_min", "set_zoom_max", "intersect_geo_bbox", "add_border"},
        "versatiles/src/tools/serve.rs": set(),
    }, what_="narrowing of the selection", floor=4,
        consequence="the converter expects the selection in output coordinates, so tiles inside the requested box go missing and tiles outside it appear")
    comp.levels_rule(ck, P, "R-SELECT", ("set_zoom_min", "set_zoom_max", "intersect_geo_bbox", "intersect", "add_border"))
    conv = [a for q, a in P.adts.items() if q.endswith("::TilesConvertReader")]
    if not ck.anchor("R-D4", "TilesConvertReader", conv, 1):
        return
    Q = conv[0]["q"]
    impl = [i for i in P.impls_of("::TilesReaderTrait") if i.get("self_adt") == Q]
    if not ck.anchor("R-D4", "impl TilesReaderTrait for TilesConvertReader", impl, 1):
        return
    impl = impl[0]
    # ---- constructor sites
    ctors = [(b, n) for b in P.bodies for n in ir.walk_nodes(b["body"]) if n.get("k") == "struct" and n.get("q") == Q]
    ck.check(len(ctors) == 1, "R-SAME-READER", "struct-literal", "TilesConvertReader is built in exactly one function (%s)" % [b["q"] for b, _ in ctors],
             "TilesConvertReader is built in %d places" % len(ctors))
    if not ctors:
        return
    ctor_b, ctor_n = ctors[0]

    words = {}
    problems = []
    # cov: transforms on the pyramid of the parameters stored in the struct
    we = WordExtractor(P, ctor_b)
    rp_field = [f for f in ctor_n["fields"] if "TilesReaderParameters" in f["e"].get("t", "")]
    if rp_field:
        rp_h = ir.local_hid(rp_field[0]["e"])
        words["cov"] = we.word(ir.fn_block(ctor_b), lambda r: ir.place_str(r).endswith("bbox_pyramid") and _root_hid(r) == rp_h)
        problems += we.problems
    # look
    gtd = P.impl_method(impl, "get_tile_data")
    gbs = P.impl_method(impl, "get_bbox_tile_stream")
    if not ck.anchor("R-D4", "get_tile_data+get_bbox_tile_stream overrides", [x for x in (gtd, gbs) if x], 2):
        return
    we = WordExtractor(P, gtd)
    inner = [n for n in ir.walk_nodes(gtd["body"]) if n.get("k") == "mcall" and (n.get("q") or "").endswith("TilesReaderTrait::get_tile_data")]
    if ck.anchor("R-D4", "inner get_tile_data call", inner, 1):
        ch = ir.local_hid(inner[0]["a"][0])
        words["look"] = we.word(ir.fn_block(gtd), lambda r: ir.local_hid(r) == ch)
        problems += we.problems
        # the looked-up local is a copy of the requested coordinate
        cparam = [b["hid"] for p in gtd["params"] for b in ir.pat_binds(p) if "TileCoord3" in b["t"]]
        ck.check(we.origin(ch) in cparam, "R-D4", gtd["q"] + "|coord-origin",
                 "the transformed coordinate is a copy of the requested coordinate", "the looked-up coordinate is not derived from the request", ir.loc(gtd))
    _lookup_refusals(ck, gtd)
    we = WordExtractor(P, gbs)
    inner = [n for n in ir.walk_nodes(gbs["body"]) if n.get("k") == "mcall" and (n.get("q") or "").endswith("TilesReaderTrait::get_bbox_tile_stream")]
    if ck.anchor("R-D4", "inner get_bbox_tile_stream call", inner, 1):
        bh = ir.local_hid(inner[0]["a"][0])
        words["sin"] = we.word(ir.fn_block(gbs), lambda r: ir.local_hid(r) == bh)
        problems += we.problems
        bparam = [b["hid"] for p in gbs["params"] for b in ir.pat_binds(p) if "TileBBox" in b["t"]]
        ck.check(we.origin(bh) in bparam, "R-D4", gbs["q"] + "|bbox-origin",
                 "the box handed to the inner stream is a copy of the requested box", "the inner box is not derived from the request", ir.loc(gbs))
    mc = [n for n in ir.walk_nodes(gbs["body"]) if n.get("k") == "mcall" and (n.get("q") or "").endswith("TileStream::map_coord") and n["a"] and n["a"][0].get("k") == "closure"]
    if ck.anchor("R-D4", "map_coord closure", mc, 1):
        clo = mc[0]["a"][0]
        ph = [b["hid"] for p in clo["params"] for b in ir.pat_binds(p)]
        words["sout"] = we.word(clo["body"], lambda r: ir.local_hid(r) in ph)
        problems += we.problems
        tail = ir.unparen(clo["body"])
        ret = tail.get("tail") if tail.get("k") == "block" else tail
        ck.check(ret is not None and ir.local_hid(ret) in ph, "R-D4", gbs["q"] + "|sout-returns", "the map_coord closure returns the transformed coordinate",
                 "the map_coord closure does not return its transformed parameter", ir.loc(clo))
        # the map must not be skipped when a flag is set: its guard must be true whenever a flag is
        guard = None
        for n, parents, _ in ir.walk(gbs["body"]):
            if n is mc[0]:
                for p in reversed(parents):
                    if p.get("k") == "if":
                        guard = p
                        break
        if guard is not None:
            fl = {we.flag_of(x) for x in ir.walk_nodes(guard["c"]) if x.get("k") in ("path", "field")} - {None}
            is_or = ir.unparen(guard["c"]).get("k") == "bin" and ir.unparen(guard["c"]).get("op") == "||"
            ck.check(fl == {"flip_y", "swap_xy"} and is_or, "R-D4", gbs["q"] + "|sout-guard",
                     "stream-out mapping is applied whenever flip_y || swap_xy", "stream-out mapping is skipped for some flag valuation (guard flags %s)" % sorted(fl), ir.loc(guard))
    for p in problems:
        ck.violation("R-D4", "extraction|" + p, p)
    if len(words) < 4:
        ck.violation("R-D4", "anchor-missing|words", "could not extract all four transform words: %s" % sorted(words))
        return
    ck.note("words: " + "; ".join("%s=%s" % (k, v) for k, v in sorted(words.items())))
    for w, seq in words.items():
        ck.check(all(f is not None for f, _ in seq) and {op for _, op in seq} <= set(OPS) and len(seq) == 2, "R-D4", "shape|" + w,
                 "%s applies one guarded flip_y and one guarded swap_xy: %s" % (w, seq), "%s word has an unexpected shape: %s" % (w, seq))
    ident = tuple(PTS)
    for fy, sx in itertools.product((False, True), repeat=2):
        val = {"flip_y": fy, "swap_xy": sx}
        vn = "flip=%d,swap=%d" % (fy, sx)
        cov = table(words["cov"], val)
        spec = tuple(OPS["swap_xy"](OPS["flip_y"](p)) if (fy and sx) else apply_word([("flip_y", "flip_y"), ("swap_xy", "swap_xy")], val, p) for p in PTS)
        ck.check(cov == spec, "R-D4", "cov|" + vn, "coverage transform = documented map (flip first, then swap)",
                 "coverage transform differs from the documented map (flip first, then swap)", ir.loc(ctor_b))
        inv = inverse(cov)
        ck.check(table(words["sout"], val) == cov, "R-D4", "sout|" + vn, "stream-out transform equals the coverage transform",
                 "stream-out transform differs from the coverage transform: streamed coordinates fall outside the advertised coverage", ir.loc(gbs))
        ck.check(table(words["sin"], val) == inv, "R-D4", "sin|" + vn, "stream-in transform is the inverse of the coverage transform",
                 "stream-in transform is not the inverse of the coverage transform: the inner stream is asked for the wrong box", ir.loc(gbs))
        ck.check(table(words["look"], val) == inv, "R-D4", "look|" + vn, "lookup transform is the inverse of the coverage transform",
                 "lookup transform is not the inverse of the coverage transform (it maps %s to %s, the pre-image under the coverage map is %s): "
                 "lookups disagree with the advertised coverage and with the stream" % ((1, 2), table(words["look"], val)[PTS.index((1, 2))], inv[PTS.index((1, 2))]), ir.loc(gtd))

    # ---- R-SELECT (converter): intersect after the transforms, on the same pyramid
    blk = ir.fn_block(ctor_b)
    sts = ir.stmts_of(blk)
    t_idx = [i for i, s in enumerate(sts) if ir.contains(s, lambda y: tc_op(y) is not None)]
    i_idx = [i for i, s in enumerate(sts) if ir.contains(s, lambda y: y.get("k") == "mcall" and (y.get("q") or "").endswith("TileBBoxPyramid::intersect")
                                                         and ir.place_str(y["recv"]).endswith("bbox_pyramid") and _root_hid(y["recv"]) == rp_h)]
    ck.check(bool(i_idx) and bool(t_idx) and min(i_idx) > max(t_idx), "R-SELECT", ctor_b["q"] + "|intersect-after-transform",
             "the requested pyramid is intersected after flip/swap (selection is in output coordinates)",
             "the requested pyramid is not intersected after the transforms", ir.loc(ctor_b))
    if i_idx:
        isec = [y for y in ir.walk_nodes(sts[i_idx[0]]) if y.get("k") == "mcall" and (y.get("q") or "").endswith("TileBBoxPyramid::intersect")][0]
        # the argument comes from cp.bbox_pyramid
        arg = isec["a"][0]
        src_ok = ir.contains(sts[i_idx[0]], lambda y: y.get("k") == "field" and y.get("name") == "bbox_pyramid" and "TilesConverterParameters" in (y["e"].get("t", "") + y["e"].get("ta", "")))
        ck.check(src_ok, "R-SELECT", ctor_b["q"] + "|intersect-arg", "the intersected pyramid is the converter parameter's bbox_pyramid", "intersect argument is not the requested pyramid", ir.loc(arg))

    # ---- R-SELECT (CLI)
    cli = [b for b in P.bodies if b["q"].endswith("tools::convert::get_bbox_pyramid")]
    if ck.anchor("R-SELECT", "convert::get_bbox_pyramid", cli, 1):
        b = cli[0]
        order = []
        for n in ir.walk_nodes(b["body"]):
            if n.get("k") in ("mcall", "call"):
                q = n.get("q") or ""
                for nm in ("new_full", "set_zoom_min", "set_zoom_max", "intersect_geo_bbox", "add_border"):
                    if q.endswith("TileBBoxPyramid::" + nm):
                        order.append(nm)
        ck.check(order == ["new_full", "set_zoom_min", "set_zoom_max", "intersect_geo_bbox", "add_border"], "R-SELECT", b["q"] + "|order",
                 "CLI selection narrows a full pyramid: zoom min, zoom max, geo bbox, then border", "CLI selection order is %s" % order, ir.loc(b))
        # each limit is applied exactly when its option is given, with the option's own value; "no selection" is answered only when no
        # limiting option is present; the pyramid starts from all 32 levels
        from . import census
        nf = [n for n in ir.walk_nodes(b["body"]) if n.get("k") == "call" and (n.get("q") or "").endswith("TileBBoxPyramid::new_full")]
        ck.check(len(nf) == 1 and ir.const_eval(nf[0]["a"][0], {}) == 32, "R-SELECT", b["q"] + "|full-start", "the selection starts from the full pyramid of all levels (new_full(32))",
                 "the selection does not start from new_full(32)", ir.loc(b))
        wired = {}
        for n, parents, _ in ir.walk(b["body"]):
            if n.get("k") == "mcall" and (n.get("q") or "").endswith(("TileBBoxPyramid::set_zoom_min", "TileBBoxPyramid::set_zoom_max")):
                nm = n["q"].rsplit("::", 1)[-1]
                okw = False
                for p_ in reversed(parents):
                    if p_.get("k") == "if" and ir.unparen(p_["c"]).get("k") == "letx":
                        lx = ir.unparen(p_["c"])
                        okw = (lx["pat"].get("q") or "").endswith("Option::Some::{Ctor#0}") and ir.place_str(lx["init"]).endswith("." + nm.replace("set_zoom_", "") + "_zoom") and \
                            ir.local_hid(n["a"][0]) in {x["hid"] for x in ir.pat_binds(lx["pat"])} and ir.contains(p_["then"], lambda z: z is n)
                        break
                wired[nm] = okw
        ck.check(wired == {"set_zoom_min": True, "set_zoom_max": True}, "R-SELECT", b["q"] + "|zoom-options", "--min-zoom / --max-zoom reach set_zoom_min / set_zoom_max with their own value when given",
                 "zoom options are not wired to their limits: %s" % wired, ir.loc(b))
        nones = [(n, f) for n, f in census.nodes_with_facts(ir.fn_block(b), lambda y: y.get("k") == "ret" and y.get("e") is not None and
                                                        ir.contains(y["e"], lambda z: (z.get("q") or "").endswith("Option::None::{Ctor#0}")))]
        okn = len(nones) == 1
        if okn:
            preds = {(f[1].rsplit(".", 1)[-1], f[2], f[4]) for f in nones[0][1] if f[0] == "pred"}
            okn = {("min_zoom", "is_none", True), ("max_zoom", "is_none", True), ("bbox", "is_none", True)} <= preds
        ck.check(okn, "R-SELECT", b["q"] + "|no-selection", "`no selection` (None) is returned only when --min-zoom, --max-zoom and --bbox are all absent",
                 "the CLI answers `no selection` although a limiting option may be present (or always builds one)", ir.loc(b))
        gl = [n for n in ir.walk_nodes(b["body"]) if n.get("k") == "if" and ir.diverges(n["then"]) and ir.cmp_norm(n["c"]) is not None and ir.cmp_norm(n["c"])[0].endswith(".len()")]
        ck.check(len(gl) == 1 and ir.cmp_norm(gl[0]["c"])[1:] == ("!=", "4"), "R-SELECT", b["q"] + "|bbox-arity", "a --bbox value is rejected exactly when it does not hold 4 numbers",
                 "the arity guard of --bbox is %s" % ([ir.cmp_norm(g["c"]) for g in gl]), ir.loc(b))
        # the border option widens all four sides by the same value; TileBBox::add_border subtracts on the min side, adds on the max side
        ab = [n for n in ir.walk_nodes(b["body"]) if n.get("k") == "mcall" and (n.get("q") or "").endswith("TileBBoxPyramid::add_border")]
        if ab:
            hs = [ir.local_hid(a) for a in ab[0]["a"]]
            src_ok = False
            for n, parents, _ in ir.walk(b["body"]):
                if n is ab[0]:
                    for p_ in parents:
                        if p_.get("k") == "if" and p_["c"].get("k") == "letx" and ir.place_str(p_["c"]["init"]).endswith("bbox_border"):
                            src_ok = {x["hid"] for x in ir.pat_binds(p_["c"]["pat"])} == set(hs)
            ck.check(len(hs) == 4 and len(set(hs)) == 1 and None not in hs and src_ok, "R-SELECT", b["q"] + "|border-args", "the border option is applied to all four sides",
                     "add_border is not called with the bbox_border option on all four sides (%s)" % [ir.place_str(a) for a in ab[0]["a"]], ir.loc(ab[0]))
        tb = [x for x in P.bodies if x["q"].endswith("tile_bbox::TileBBox::add_border")]
        pb_ = [x for x in P.bodies if x["q"].endswith("TileBBoxPyramid::add_border")]
        if ck.anchor("R-SELECT", "add_border implementations", tb + pb_, 2):
            fwd = [n for n in ir.walk_nodes(pb_[0]["body"]) if n.get("k") == "mcall" and (n.get("q") or "").endswith("TileBBox::add_border")]
            pn = [x["name"] for p_ in pb_[0]["params"] for x in ir.pat_binds(p_) if x["name"] != "self"]
            ck.check(len(fwd) == 1 and [ir.place_str(a) for a in fwd[0]["a"]] == pn, "R-SELECT", "pyramid.add_border|forward", "the pyramid forwards (x_min, y_min, x_max, y_max) unchanged to every level",
                     "pyramid add_border forwards %s for parameters %s" % ([ir.place_str(a) for a in fwd[0]["a"]] if fwd else None, pn), ir.loc(pb_[0]))
            # per side: min sides move down (saturating), max sides move up (clamped to the grid)
            from . import affine as A
            t = tb[0]
            sides = {}
            for n in ir.walk_nodes(t["body"]):
                if n.get("k") == "assign" and ir.place_str(n["l"]).startswith("self.") and ir.place_str(n["l"]).split(".")[1] in ("x_min", "y_min", "x_max", "y_max"):
                    side = ir.place_str(n["l"]).split(".")[1]
                    used = {ir.place_str(y) for y in ir.walk_nodes(n["r"]) if y.get("k") == "path" and y.get("r") == "local"}
                    ops = {y.get("name") or y.get("op") for y in ir.walk_nodes(n["r"]) if y.get("k") in ("mcall", "bin")}
                    sides[side] = (used, ops)
            oks = len(sides) == 4
            for side, (used, ops) in sides.items():
                oks = oks and any(wire_tokens(u) == wire_tokens(side) for u in used) and ("self" in used)
                if side.endswith("min"):
                    oks = oks and bool(ops & {"saturating_sub", "-", "checked_sub"}) and not (ops & {"+", "saturating_add"})
                else:
                    oks = oks and bool(ops & {"+", "saturating_add", "checked_add"}) and bool(ops & {"min"})
            ck.check(oks, "R-SELECT", "bbox.add_border|sides", "each side moves outward by its own parameter (min sides subtract, max sides add and clamp to the grid)",
                     "TileBBox::add_border does not move each side outward by its own parameter: %s" % {k: (sorted(v[0]), sorted(x for x in v[1] if x)) for k, v in sides.items()}, ir.loc(t))
        # narrowing calls pass the same-named option
        for n in ir.walk_nodes(b["body"]):
            if n.get("k") == "mcall" and (n.get("q") or "").endswith(("TileBBoxPyramid::set_zoom_min", "TileBBoxPyramid::set_zoom_max")):
                want = "min_zoom" if n["name"] == "set_zoom_min" else "max_zoom"
                h = ir.local_hid(n["a"][0])
                srcs = []
                for x, parents, _ in ir.walk(b["body"]):
                    if x.get("k") == "letx" and any(bb["hid"] == h for bb in ir.pat_binds(x["pat"])):
                        srcs.append(ir.place_str(x["init"]))
                ck.check(any(s.endswith("." + want) for s in srcs), "R-SELECT", b["q"] + "|" + n["name"], "%s receives option %s" % (n["name"], want),
                         "%s receives %s" % (n["name"], srcs), ir.loc(n))

    # ---- R-SAME-READER / R-FLAG-WIRE
    nfr = ctor_b["q"]
    users = {}
    for b in P.bodies:
        if b["crate"] != "versatiles":
            continue
        for n in ir.walk_nodes(b["body"]):
            if n.get("k") in ("call", "mcall") and (n.get("q") in (nfr,) or (n.get("q") or "").endswith("::convert_tiles_container")):
                users.setdefault(b["q"], []).append(n)
    tools = sorted(u.split("::tools::")[-1].split("::")[0] for u in users if "::tools::" in u)
    ck.check("convert" in tools and "serve" in tools, "R-SAME-READER", "tools", "convert and serve both go through TilesConvertReader::new_from_reader (%s)" % tools,
             "convert/serve do not both use TilesConvertReader::new_from_reader: %s" % tools)
    cc = [b for b in P.bodies if b["q"].endswith("::convert_tiles_container")]
    if cc:
        ck.check(ir.contains(cc[0]["body"], lambda y: y.get("k") == "call" and y.get("q") == nfr), "R-SAME-READER", "convert_tiles_container",
                 "convert_tiles_container builds its reader with new_from_reader", "convert_tiles_container bypasses new_from_reader")
    # serve: EVERY tile source is wrapped when a flag is set (the guard may not depend on state that changes between sources)
    sv = [P.fn(u) for u in users if "::tools::serve::" in u]
    if ck.anchor("R-SAME-READER", "serve function using new_from_reader", sv, 1):
        b = sv[0]
        loops = [n for n in ir.walk_nodes(b["body"]) if n.get("k") == "for" and ir.contains(n["body"], lambda y: y.get("k") == "mcall" and y.get("name") == "add_tile_source")]
        ok = False
        why = "no loop over the tile sources that adds them to the server"
        if len(loops) == 1:
            lp = loops[0]
            wraps = []
            for n, parents, _ in ir.walk(lp["body"]):
                if n.get("k") == "call" and n.get("q") == nfr:
                    wraps.append((n, [p for p in parents if p.get("k") in ("if", "match", "while", "for", "loop", "closure")]))
            if len(wraps) != 1:
                why = "%d new_from_reader calls inside the source loop (the wrapper must be built per source)" % len(wraps)
            else:
                n, guards = wraps[0]
                ap = [x for p_ in b["params"] for x in ir.pat_binds(p_)]
                al = ir.Aliases(b)
                arg_h = {al.canon(x["hid"]) for x in ap}
                bad = []
                flags = set()
                for g in guards:
                    if g.get("k") != "if":
                        bad.append("wrapped inside `%s`" % g["k"])
                        continue
                    c = g["c"]
                    for y in ir.walk_nodes(c):
                        if y.get("k") == "path" and y.get("r") == "local" and al.canon(y["hid"]) not in arg_h:
                            bad.append("guard reads local `%s`" % y["name"])
                        if y.get("k") in ("mcall", "call", "letx"):
                            bad.append("guard evaluates `%s`" % (y.get("name") or y.get("q") or y["k"]))
                        if y.get("k") == "field" and y.get("name") in OPS:
                            flags.add(y["name"])
                    if not ir.contains(g["then"], lambda y: y is n):
                        bad.append("wrap is in the else branch")
                is_or = len(guards) == 1 and ir.unparen(guards[0]["c"]).get("k") == "bin" and ir.unparen(guards[0]["c"]).get("op") == "||"
                ok = not bad and flags == set(OPS) and is_or
                why = "; ".join(bad) or "guard flags %s" % sorted(flags)
                # the wrapped reader is the one handed to the server
                add = [y for y in ir.walk_nodes(lp["body"]) if y.get("k") == "mcall" and y.get("name") == "add_tile_source"]
                asg = [y for y in ir.walk_nodes(lp["body"]) if y.get("k") == "assign" and ir.contains(y["r"], lambda z: z is n)]
                ok = ok and len(add) == 1 and len(asg) == 1 and ir.local_hid(asg[0]["l"]) == ir.local_hid(add[0]["a"][1])
        ck.check(ok, "R-SAME-READER", "serve|every-source", "serve wraps every tile source when flip_y || swap_xy (guard reads only the command-line flags) and serves the wrapped reader",
                 "serve does not apply the transform to every source: %s" % why, ir.loc(b))
    # flags
    newp = [b for b in P.bodies if b["q"].endswith("TilesConverterParameters::new")]
    for uq in users:
        b = P.fn(uq)
        for n in ir.walk_nodes(b["body"]):
            if n.get("k") == "assign" and n["l"].get("k") == "field" and n["l"]["name"] in OPS and "TilesConverterParameters" in n["l"]["e"].get("t", ""):
                src = ir.place_str(n["r"])
                ck.check(src.endswith("." + n["l"]["name"]), "R-FLAG-WIRE", uq + "|" + n["l"]["name"], "parameter %s is set from option %s" % (n["l"]["name"], src),
                         "parameter %s is set from option %s (crossed flags)" % (n["l"]["name"], src), ir.loc(n))
            if n.get("k") == "call" and newp and n.get("q") == newp[0]["q"]:
                pnames = [ir.pat_binds(p)[0]["name"] for p in newp[0]["params"]]
                for pn, a in zip(pnames, n["a"]):
                    if pn in OPS:
                        src = ir.place_str(a)
                        ck.check(wire_tokens(src.split(".")[-1]) == wire_tokens(pn), "R-FLAG-WIRE", uq + "|new|" + pn, "parameter %s receives option %s" % (pn, src),
                                 "parameter %s receives option %s (crossed flags)" % (pn, src), ir.loc(n))
    # completeness: a tool that starts from new_default() sets BOTH transform flags from its options before the parameters reach new_from_reader
    for uq in users:
        b = P.fn(uq)
        nd = [y for y in ir.walk_nodes(b["body"]) if y.get("k") == "call" and (y.get("q") or "").endswith("TilesConverterParameters::new_default")]
        if not nd:
            continue
        setf = {n["l"]["name"] for n in ir.walk_nodes(b["body"]) if n.get("k") == "assign" and n["l"].get("k") == "field" and "TilesConverterParameters" in n["l"]["e"].get("t", "")}
        ck.check({"flip_y", "swap_xy"} <= setf, "R-FLAG-WIRE", uq + "|both-flags", "parameters built from new_default() get flip_y and swap_xy from the command line",
                 "parameters built from new_default() only get %s from the command line: the other transform flag is ignored" % sorted(setf), ir.loc(b))
    if newp:
        # constructor stores each parameter in the same-named field
        for n in ir.walk_nodes(newp[0]["body"]):
            if n.get("k") == "struct":
                for f in n["fields"]:
                    if f["name"] in OPS:
                        ck.check(wire_tokens(ir.place_str(f["e"])) == wire_tokens(f["name"]), "R-FLAG-WIRE", newp[0]["q"] + "|" + f["name"], "constructor stores %s in field %s" % (f["name"], f["name"]),
                                 "constructor stores %s in field %s" % (ir.place_str(f["e"]), f["name"]), ir.loc(n))


def _root_hid(n):
    n = ir.strip(n)
    while n is not None and n.get("k") in ("field", "index"):
        n = ir.strip(n["e"])
    return ir.local_hid(n) if n is not None else None


def mutants(P):
    out = []
    base = "<versatiles_container::container::converter::TilesConvertReader as versatiles_core::types::tiles_reader::TilesReaderTrait>::"

    def swap_names(body, first=True):
        seen = []

        def fn(n):
            pass
        nodes = [n for n in ir.walk_nodes(body["body"]) if tc_op(n)]
        if len(nodes) < 2:
            return False
        a, b = nodes[0], nodes[1]
        a["q"], b["q"] = b["q"], a["q"]
        a["name"], b["name"] = b.get("name"), a.get("name")
        if "rvq" in a or "rvq" in b:
            a["rvq"], b["rvq"] = b.get("rvq"), a.get("rvq")
        return True
    # swapping the *operations* while keeping the guards breaks flag/operation agreement
    out.append(("stream: first two transform calls exchanged under their guards", base + "get_bbox_tile_stream", swap_names))

    def reorder_if(body):
        blk = ir.fn_block(body)
        sts = blk["stmts"]
        idx = [i for i, s in enumerate(sts) if s.get("k") == "if" and ir.contains(s, lambda y: tc_op(y) is not None)]
        if len(idx) < 2:
            return False
        sts[idx[0]], sts[idx[1]] = sts[idx[1]], sts[idx[0]]
        return True
    out.append(("stream-in: guarded transforms reordered", base + "get_bbox_tile_stream", reorder_if))
    out.append(("lookup: guarded transforms reordered", base + "get_tile_data", reorder_if))
    out.append(("coverage: guarded transforms reordered", "versatiles_container::container::converter::TilesConvertReader::new_from_reader", reorder_if))

    def drop_flip(body):
        from .report import m_drop_stmt
        return m_drop_stmt(body, lambda n: tc_op(n) == "flip_y")
    out.append(("lookup: flip dropped", base + "get_tile_data", drop_flip))
    return out
