"""C04 — recompression changes only the encoding, never the payload.

E-COMP typestate: every function that touches a tile payload on the conversion path is summarised as a map between
encodings {U, G, B}; the recompressor built for (source, target, force) must map enc(source) to enc(target) for all 18
valuations, and both access paths of the converting reader must pass every blob through it."""
import itertools

from . import absint, comp, ir
from .absint import OPAQUE, is_variant
from .report import m_replace

META = {
    "level": "other",
    "explanation": (
        "Decides the encoding-typestate part of C04 for all payloads at once. Leaf summaries come from which external "
        "codec a function constructs (flate2 Gz{En,De}coder, Brotli{Compress,Decompress}); `compress`, `decompress`, "
        "`recompress`, FnConv::run, TileConverter::new_tile_recompressor + process_blob/process_stream are then evaluated "
        "by an abstract interpreter over the IR with abstract blobs (content = the stored tile, encoding in {U,G,B}): "
        "each codec must be applied to a payload in the encoding it expects, and the result must carry the declared target "
        "encoding for every arm / all 9 (from,to) pairs / all 18 (source,target,force) valuations. The converting reader "
        "declares the encoding the recompressor targets, feeds it the inner reader's declared encoding, and applies it on "
        "the lookup path and the stream path. Container metadata is compressed with the value the container records and "
        "decompressed with the recorded value (versatiles, pmtiles, tar, directory)."),
    "not_decided": "that gzip/brotli round-trip bytes (library property); payload size classes; that a reader's declared compression describes its stored bytes.",
    "trusted_base": ["flate2 and brotli encode/decode are inverse on all inputs", "rustc name resolution", "abstract interpreter models if/match/?/for/closures of the evaluated functions"],
}

UTIL = "versatiles_core::utils::compression::"
ENCS = ("U", "G", "B")


def blob(e):
    return ("blob", e)


def converter_paths_rule(ck, P):
    """E-COMP-PIPE|converter-paths: the converting reader re-encodes on BOTH of its paths whenever a recompressor is configured: in
    get_tile_data and get_bbox_tile_stream the call of the recompressor (process_blob / process_stream) sits under no other condition than
    `if let Some(r) = &self.tile_recompressor` (and, for the lookup, the tile being present) — in particular not under the flip / swap flags."""
    impl = [i for i in P.impls_of("::TilesReaderTrait") if i.get("self_adt", "").endswith("::TilesConvertReader")]
    if not ck.anchor("E-COMP-PIPE", "impl TilesReaderTrait for TilesConvertReader", impl, 1):
        return
    for mname, callee in (("get_tile_data", "process_blob"), ("get_bbox_tile_stream", "process_stream")):
        m = P.impl_method(impl[0], mname, inline=False)
        if m is None:
            ck.violation("E-COMP-PIPE", "anchor-missing|TilesConvertReader::" + mname, "method not found")
            continue
        blk = ir.fn_block(m)
        calls = [(y, ps) for y, ps, _ in ir.walk(blk) if y.get("k") == "mcall" and (ir.callee(y) or "").endswith("TileConverter::" + callee)]
        ok, why = len(calls) == 1, "%d recompressor calls" % len(calls)
        if ok:
            y, ps = calls[0]
            conds = []
            for i_, p_ in enumerate(ps):
                if p_.get("k") == "if":
                    nxt = ps[i_ + 1] if i_ + 1 < len(ps) else y
                    in_then = p_.get("then") is nxt or ir.contains(p_["then"], lambda z: z is y)
                    c = ir.unparen(p_["c"])
                    is_opt = c.get("k") == "letx" and (c["pat"].get("q") or "").endswith("Option::Some::{Ctor#0}") and in_then and \
                        (ir.place_str(c["init"]).endswith("tile_recompressor") or "Blob" in (ir.strip(c["init"]).get("t") or "") or ir.local_hid(c["init"]) is not None)
                    if not is_opt:
                        conds.append("%s-branch of `if %s`" % ("then" if in_then else "else", (p_["c"].get("src") or ir.place_str(p_["c"]) or "…")[:50]))
                elif p_.get("k") in ("match", "while", "for", "loop"):
                    conds.append(p_["k"])
            ok = not conds
            why = "it is reached only in the " + ", ".join(conds)
        ck.check(ok, "E-COMP-PIPE", "TilesConvertReader|%s|recompress-unconditional" % mname, "%s re-encodes whenever a recompressor is configured (no other condition)" % mname,
                 "%s applies the recompressor conditionally (%s): tiles keep their source encoding on the other path while the reader advertises the target encoding" % (mname, why), ir.loc(m))


def converter_entry_rule(ck, P, rule="E-COMP-PIPE"):
    """convert_tiles_container hands the writer the CONVERTING reader: every write_to_filename in it gets the value built by
    TilesConvertReader::new_from_reader(reader, cp) from the function's own parameters.  A shortcut that writes the source reader directly is
    only a shortcut if its condition looks at every field of TilesConverterParameters (each one changes the output: selection, compression,
    forced recompression, flip_y, swap_xy); a bypass whose condition leaves a field out is reported with the field."""
    fb = [b for b in P.bodies if b["q"].endswith("container::converter::convert_tiles_container")]
    adt = [q for q in P.adts if q.endswith("container::converter::TilesConverterParameters")]
    if not ck.anchor(rule, "convert_tiles_container + TilesConverterParameters", fb + adt, 2):
        return
    b = fb[0]
    fields = {f["name"] for v in P.adts[adt[0]]["variants"] for f in v["fields"]}
    ck.anchor(rule, "TilesConverterParameters fields", sorted(fields), 5)
    blk = ir.fn_block(b)
    al = ir.Aliases(b)
    pars = {}
    for p_ in b["params"]:
        for x in ir.pat_binds(p_):
            role = "reader" if "TilesReaderTrait" in x["t"] else ("cp" if x["t"].endswith("TilesConverterParameters") else None)
            if role:
                pars[role] = al.canon(x["hid"])
    # async desugaring re-binds the parameters: canonical hids through `let x = x`
    def root(n):
        h = al.hid(ir.strip(n))
        return h
    conv = {}
    for n in ir.walk_nodes(blk):
        if n.get("k") == "let" and n["pat"].get("k") == "bind" and "init" in n:
            c = [y for y in ir.walk_nodes(n["init"]) if y.get("k") == "call" and (y.get("q") or "").endswith("TilesConvertReader::new_from_reader")]
            if c:
                conv[n["pat"]["hid"]] = c[0]
    writes = [(y, ps) for y, ps, _ in ir.walk(blk) if y.get("k") == "call" and (y.get("q") or "").endswith("getters::write_to_filename")]
    ck.anchor(rule, "write_to_filename in convert_tiles_container", writes, 1)

    def reads_of(expr, depth=0):
        got = set()
        for y in ir.walk_nodes(expr):
            if y.get("k") == "field" and y.get("name") in fields and "TilesConverterParameters" in ((ir.strip(y["e"]).get("t") or "") + (ir.strip(y["e"]).get("ta") or "")):
                got.add(y["name"])
            if depth < 2 and y.get("k") in ("call", "mcall"):
                cal = P.fn(y.get("q") or "")
                if cal is not None and any("TilesConverterParameters" in t for t in cal.get("in_t", ())):
                    got |= reads_of(cal["body"], depth + 1)
        return got
    for k, (w, ps) in enumerate(writes):
        a0 = ir.strip(w["a"][0])
        while a0.get("k") in ("ref", "deref"):
            a0 = ir.strip(a0["e"])
        h = ir.local_hid(a0)
        key = "convert_tiles_container|write#%d" % (k + 1)
        if h in conv:
            c = conv[h]
            okargs = len(c["a"]) == 2 and root(c["a"][0]) == pars.get("reader") and root(c["a"][1]) == pars.get("cp")
            ck.check(okargs, rule, key, "the written reader is TilesConvertReader::new_from_reader(reader, cp) of the function's own arguments",
                     "the converter is not built from the function's reader and parameters", ir.loc(w))
            continue
        guards = [p_ for p_ in ps if p_.get("k") == "if"]
        seen = set()
        for g in guards:
            seen |= reads_of(g["c"])
        missing = sorted(fields - seen)
        ck.check(bool(guards) and not missing, rule, key, "a write that bypasses the converter is guarded by a condition over every conversion parameter",
                 "convert_tiles_container writes a reader that is not the converter%s: tiles are written without %s being applied" %
                 (" under a condition that ignores %s" % missing if guards else " unconditionally", "/".join(missing) if missing else "the conversion"), ir.loc(w))


def override_order_rule(ck, P):
    """E-COMP-PIPE|override-before-wrap: --override-input-compression corrects what a READER reports about its stored bytes.  The converting
    wrapper copies the reported compression when it is built (its own parameters and its recompressor start from it) and its
    override_compression only forwards to the wrapped reader, so in the tools the override must be applied to the reader BEFORE it is handed to
    TilesConvertReader::new_from_reader / convert_tiles_container — an override after wrapping leaves the wrapper advertising the old value."""
    from . import mvt
    n_over, bad = 0, []
    for b in P.bodies:
        if not b["q"].startswith("versatiles::tools::") or "::tests::" in b["q"]:
            continue
        order = list(mvt._eval_order(b["body"]))
        pos = {id(y): i for i, y in enumerate(order)}
        overs = [y for y in order if y.get("k") == "mcall" and (y.get("q") or "").endswith("TilesReaderTrait::override_compression")]
        wraps = [y for y in order if y.get("k") == "call" and (y.get("q") or "").endswith(("TilesConvertReader::new_from_reader", "::convert_tiles_container"))]
        for o in overs:
            n_over += 1
            rh = ir.local_hid(o["recv"])
            # an override on the converting wrapper itself is, by construction, after the wrapping
            rt = (ir.strip(o["recv"]).get("t") or "")
            init = next((y["init"] for y in order if y.get("k") == "let" and y["pat"].get("k") == "bind" and y["pat"]["hid"] == rh and "init" in y), None)
            wo = [x for x in P.bodies if x["q"].endswith("TilesReaderTrait>::override_compression") and "TilesConvertReader" in x["q"]]
            forwards_only = not wo or not any(y.get("k") == "assign" and ir.place_str(y["l"]).endswith("tile_recompressor") for y in ir.walk_nodes(wo[0]["body"]))
            if forwards_only and ("TilesConvertReader" in rt or (init is not None and ir.contains(init, lambda z: z.get("k") == "call" and (z.get("q") or "").endswith("TilesConvertReader::new_from_reader")))):
                bad.append("%s: override_compression at %s is applied to the converting wrapper, not to the reader it wraps" % (b["q"].rsplit("::", 2)[-2], ir.loc(o)))
                continue
            for w in wraps:
                same = any(z.get("k") == "path" and z.get("r") == "local" and z.get("hid") == rh for z in ir.walk_nodes(w))
                # a wrap that feeds the overridden local, evaluated before the override, inside the same loop round / function
                if same and pos[id(w)] < pos[id(o)]:
                    bad.append("%s: override_compression at %s follows the wrapping at %s" % (b["q"].rsplit("::", 2)[-2], ir.loc(o), ir.loc(w)))
    ck.anchor("E-COMP-PIPE", "override_compression calls in the tools", n_over, 2)
    ck.check(not bad, "E-COMP-PIPE", "tools|override-before-wrap", "the input-compression override reaches the reader before it is wrapped by the converter (%d call(s))" % n_over,
             "the compression override is applied after the reader was wrapped: %s — the wrapper keeps advertising (and recompressing from) the old compression" % bad[:2])


def reader_declares_rule(ck, P, rule="E-COMP-WIRE"):
    """what a single-file reader DECLARES about its tiles comes from the header fields that describe the tiles: the PMTiles header has two
    compression bytes (internal = directories and metadata, tile = the tiles) and a tile type; the versatiles header a format and a
    compression.  The parameters the reader publishes are built from exactly those."""
    table = {"pmtiles::reader::PMTilesReader::open_reader": ("tile_type", "tile_compression"),
             "versatiles::reader::VersaTilesReader::open_reader": ("tile_format", "compression")}
    for suffix, (ffmt, fcomp) in table.items():
        fb = [b for b in P.bodies if b["q"].endswith(suffix)]
        if not ck.anchor(rule, suffix.rsplit("::", 2)[-2] + "::open_reader", fb, 1):
            continue
        b = fb[0]
        lets = comp.lets_of(b)
        new = [y for y in ir.walk_nodes(b["body"]) if y.get("k") == "call" and (y.get("q") or "").endswith("TilesReaderParameters::new")]
        ok, why = False, "%d TilesReaderParameters::new calls" % len(new)
        if len(new) == 1:
            a0, a1 = comp.deep_place(new[0]["a"][0], lets), comp.deep_place(new[0]["a"][1], lets)
            ok = (".%s" % ffmt) in a0 and (".%s" % fcomp) in a1 and "header" in a0.split(".")[0] + a1.split(".")[0]
            why = "format from `%s`, compression from `%s`" % (a0, a1)
        ck.check(ok, rule, suffix.rsplit("::", 2)[-2] + "|declares", "the reader declares the tile format from header.%s and the tile compression from header.%s" % (ffmt, fcomp),
                 "the parameters of %s are not built from header.%s / header.%s (%s): the compression it declares is not the one its tiles are stored with" % (suffix.rsplit("::", 2)[-2], ffmt, fcomp, why), ir.loc(b))


def rules(ck, P):
    converter_paths_rule(ck, P)
    reader_declares_rule(ck, P)
    converter_entry_rule(ck, P)
    override_order_rule(ck, P)
    # the pmtiles target keeps its (compressed) metadata and root directory apart: see wire.pm_layout_rules
    from . import wire
    wire.pm_layout_rules(ck, P)
    # the mbtiles target implies the compression by its format string: (format, compression) table of writer and reader
    from . import c01
    c01.mbtiles_format_rules(ck, P)
    leaves = comp.leaf_summaries(P)
    good = {q: s for q, s in leaves.items() if s}
    ck.anchor("E-COMP-LEAF", "codec leaf functions", good, 5)
    for q, s in sorted(leaves.items()):
        if s is None:
            ck.violation("E-COMP-LEAF", q, "function drives more than one codec: no single encoding summary")
        else:
            ck.ok("E-COMP-LEAF", q, "summary %s->%s from the codec it constructs" % s)
    # the payload handed to the codec is the function's own blob parameter and the result is what it returns:
    for q, s in good.items():
        b = P.fn(q)
        params = [x for p in b["params"] for x in ir.pat_binds(p)]
        bp = [x for x in params if x["t"].endswith("Blob")]
        uses = ir.contains(b["body"], lambda y: y.get("k") == "mcall" and y.get("name") in ("as_slice", "as_ref", "as_mut_slice", "into_vec") and bp and ir.local_hid(y["recv"]) == bp[0]["hid"])
        ck.check(bool(bp) and uses, "E-COMP-LEAF", q + "|input", "the codec reads the function's blob parameter", "the codec input is not the blob parameter", ir.loc(b))

        # the whole payload goes through the codec: the stream is drained (read_to_end / the library's one-shot function) and no
        # adaptor limits how much is read or written (Read::take, a fixed-size read, truncate/resize of the output, sub-slicing the input)
        LIMITERS = ("take", "read_exact", "truncate", "resize", "split_at", "split_off", "drain", "get", "read", "chunks", "first", "last")
        lim = [y["name"] for y in ir.walk_nodes(b["body"]) if y.get("k") == "mcall" and y.get("name") in LIMITERS and
               any(t in (y.get("q") or "") for t in ("std::io::Read::", "alloc::vec::Vec", "[T]::", "core::slice", "std::io::Take"))]
        sliced = [ir.loc(y) for y in ir.walk_nodes(b["body"]) if y.get("k") == "index" and ir.strip(y["i"]).get("k") == "struct" and "Range" in (ir.strip(y["i"]).get("q") or "")]
        drains = [y for y in ir.walk_nodes(b["body"]) if (y.get("k") == "mcall" and y.get("name") == "read_to_end") or
                  (y.get("k") == "call" and (y.get("q") or "").rsplit("::", 1)[-1] in ("BrotliCompress", "BrotliDecompress", "copy"))]
        ck.check(not lim and not sliced and len(drains) == 1, "E-COMP-LEAF", q + "|whole-payload", "the codec stream is drained completely; nothing limits how many bytes pass",
                 "the payload does not pass the codec as a whole (limiting calls %s, sub-slices at %s, %d draining calls): large tiles are silently cut" % (lim, sliced, len(drains)), ir.loc(b))

        # ... on every successful path: no input (an empty payload, a "small" one) is answered without the codec, because what comes back is
        # stored and declared as a stream of that codec (and an empty blob is "no tile" for the containers)
        from . import mvt as _mvt
        cnt = _mvt.exit_counts(P, b, lambda y: 1 if any(y is d for d in drains) else None)
        ck.check(cnt == {1}, "E-COMP-LEAF", q + "|every-path", "every successful path of the function runs the codec exactly once",
                 "%s can return without running its codec (codec runs per successful path: %s): the value it returns for such an input is not a stream of the declared encoding" % (q.rsplit("::", 1)[-1], sorted(cnt)), ir.loc(b))

    def fresh():
        return comp.CompInterp(P, leaves)

    # ---- (2) tables
    for fn, direction in (("compress", "c"), ("decompress", "d")):
        q = UTIL + fn
        if not ck.anchor("E-COMP-TABLE", fn, [1] if P.fn(q) else [], 1):
            continue
        for e in ENCS:
            it = fresh()
            src = "U" if direction == "c" else e
            want = e if direction == "c" else "U"
            try:
                r = it.call_fn(q, [blob(src), comp.variant(e)])
            except absint.Unsupported as ex:
                ck.violation("E-COMP-TABLE", "%s|%s" % (fn, comp.NAMES[e]), "not evaluable: %s" % ex)
                continue
            got = r[2][0] if is_variant(r, "Result::Ok") else None
            ck.check(got == blob(want) and not it.errors, "E-COMP-TABLE", "%s|%s" % (fn, comp.NAMES[e]),
                     "%s(%s payload, %s) yields a %s payload" % (fn, src, comp.NAMES[e], want),
                     "%s(%s payload, %s) yields %s %s" % (fn, src, comp.NAMES[e], got, it.errors), ir.loc(P.fn(q)))
    # ---- (3) recompress
    q = UTIL + "recompress"
    if ck.anchor("E-COMP-RECOMPRESS", "recompress", [1] if P.fn(q) else [], 1):
        for a, b_ in itertools.product(ENCS, repeat=2):
            it = fresh()
            try:
                r = it.call_fn(q, [blob(a), comp.variant(a), comp.variant(b_)])
                got = r[2][0] if is_variant(r, "Result::Ok") else None
            except absint.Unsupported as ex:
                got = "unsupported: %s" % ex
            ck.check(got == blob(b_) and not it.errors, "E-COMP-RECOMPRESS", "%s->%s" % (comp.NAMES[a], comp.NAMES[b_]),
                     "recompress maps a %s payload declared %s to %s" % (a, comp.NAMES[a], b_),
                     "recompress(%s payload, %s, %s) yields %s %s" % (a, comp.NAMES[a], comp.NAMES[b_], got, it.errors), ir.loc(P.fn(q)))
    # ---- (4) recompressor word x 18 valuations, lookup path and stream path
    TCQ = "versatiles_container::container::tile_converter::TileConverter::"
    if ck.anchor("E-COMP-PIPE", "TileConverter", [x for x in ("new_tile_recompressor", "process_blob", "process_stream") if P.fn(TCQ + x)], 3):
        for s, d, force in itertools.product(ENCS, ENCS, (False, True)):
            key = "%s->%s,force=%d" % (comp.NAMES[s], comp.NAMES[d], force)
            it = fresh()
            stream_out = []

            def map_par(itp, args, node, _so=stream_out):
                st, clo = args[0], args[1]
                if isinstance(st, tuple) and st[0] == "stream":
                    out = itp.call_value(clo, [blob(st[1])])
                    _so.append(out)
                    return ("stream", out[1] if isinstance(out, tuple) and out[0] == "blob" else "?")
                return OPAQUE
            it.handlers["versatiles_core::types::tile_stream::TileStream::map_blob_parallel"] = map_par
            try:
                conv = it.call_fn(TCQ + "new_tile_recompressor", [comp.variant(s), comp.variant(d), force])
                conv = conv[2][0] if is_variant(conv, "Result::Ok") else conv
                pipe = conv[1].get("pipeline") if isinstance(conv, tuple) and conv[0] == "struct" else None
                word = [x[1].rsplit("::", 1)[-1] for x in pipe[1]] if pipe else None
                r = it.call_fn(TCQ + "process_blob", [conv, blob(s)])
                got = r[2][0] if is_variant(r, "Result::Ok") else None
                rs = it.call_fn(TCQ + "process_stream", [conv, ("stream", s)])
            except absint.Unsupported as ex:
                ck.violation("E-COMP-PIPE", key, "not evaluable: %s" % ex)
                continue
            ck.check(got == blob(d) and not it.errors, "E-COMP-PIPE", key + "|lookup",
                     "pipeline %s maps a %s payload to %s" % (word, s, d), "pipeline %s maps a %s payload to %s %s" % (word, s, got, it.errors), ir.loc(P.fn(TCQ + "new_tile_recompressor")))
            ck.check(rs == ("stream", d) and not it.errors, "E-COMP-PIPE", key + "|stream",
                     "stream path applies the same pipeline (%s -> %s)" % (s, d), "stream path yields %s for %s->%s %s" % (rs, s, d, it.errors), ir.loc(P.fn(TCQ + "process_stream")))
            if s == d and not force:
                ck.check(word == [], "E-COMP-PIPE", key + "|noop", "no recompression when encodings agree and force is off", "pipeline %s is not empty" % word)
    # ---- (5) converting reader wiring
    conv = [a for q_, a in P.adts.items() if q_.endswith("::TilesConvertReader")]
    if ck.anchor("E-COMP-WIRE", "TilesConvertReader", conv, 1):
        Q = conv[0]["q"]
        ctor = [(b, n) for b in P.bodies for n in ir.walk_nodes(b["body"]) if n.get("k") == "struct" and n.get("q") == Q]
        if ck.anchor("E-COMP-WIRE", "constructor", ctor, 1):
            b, st = ctor[0]
            lets = comp.lets_of(b)
            nr = comp.calls_to(b, "TileConverter::new_tile_recompressor")
            fields = {f["name"]: f["e"] for f in st["fields"]}
            rp_h = ir.local_hid(fields.get("reader_parameters", {})) if "reader_parameters" in fields else None
            if ck.anchor("E-COMP-WIRE", "new_tile_recompressor call", nr, 1):
                a0, a1, a2 = nr[0]["a"]
                src = comp.deep_place(a0, lets)
                dst = ir.place_str(a1)
                ck.check(src.endswith("get_parameters().tile_compression"), "E-COMP-WIRE", b["q"] + "|source", "recompressor source = inner reader's declared compression (%s)" % src,
                         "recompressor source is %s, not the inner reader's declared compression" % src, ir.loc(nr[0]))
                dh = None
                x = ir.strip(a1)
                while x is not None and x.get("k") == "field":
                    x = ir.strip(x["e"])
                dh = ir.local_hid(x) if x else None
                ck.check(dst.endswith(".tile_compression") and dh == rp_h and rp_h is not None, "E-COMP-WIRE", b["q"] + "|target",
                         "recompressor target = the compression the converting reader declares (%s)" % dst,
                         "recompressor target %s is not the tile_compression of the parameters the reader advertises" % dst, ir.loc(nr[0]))
                ck.check(ir.place_str(a2).endswith(".force_recompress"), "E-COMP-WIRE", b["q"] + "|force", "force flag comes from the converter parameters",
                         "force flag is %s" % ir.place_str(a2), ir.loc(nr[0]))
                tr = fields.get("tile_recompressor")
                trh = ir.local_hid(tr) if tr is not None else None
                init = lets.get(trh)
                always = init is not None and ir.contains(init, lambda y: y is nr[0]) and ir.strip(init).get("k") == "call" and ir.strip(init).get("q", "").endswith("Option::Some::{Ctor#0}")
                ck.check(always, "E-COMP-WIRE", b["q"] + "|always-some", "the stored recompressor is always Some(new_tile_recompressor(..))",
                         "the stored recompressor may be None: blobs would bypass recompression while the declared compression changes", ir.loc(st))
                # declared compression: cp.tile_compression.unwrap_or(rp.tile_compression)
                asg = [n for n in ir.walk_nodes(b["body"]) if n.get("k") == "assign" and ir.place_str(n["l"]).endswith(".tile_compression") and ir.local_hid(_root(n["l"])) == rp_h]
                okd = False
                for n in asg:
                    r = ir.strip(n["r"])
                    if r.get("k") == "mcall" and r.get("name") == "unwrap_or":
                        okd = ir.place_str(r["recv"]).endswith("cp.tile_compression") or "TilesConverterParameters" in r["recv"]["e"].get("t", "")
                        okd = okd and comp.deep_place(r["a"][0], lets).endswith("get_parameters().tile_compression")
                ck.check(okd, "E-COMP-WIRE", b["q"] + "|declared", "declared compression = requested target, else the source's",
                         "declared compression is not `requested.unwrap_or(source)`", ir.loc(b))
        impl = [i for i in P.impls_of("::TilesReaderTrait") if i.get("self_adt") == Q]
        if impl:
            gtd = P.impl_method(impl[0], "get_tile_data")
            gbs = P.impl_method(impl[0], "get_bbox_tile_stream")
            # lookup: blob from inner get_tile_data is replaced by process_blob(b) on the Some path
            inner = comp.calls_to(gtd, "TilesReaderTrait::get_tile_data")
            pb = comp.calls_to(gtd, "TileConverter::process_blob")
            okl = False
            if inner and pb:
                for n in ir.walk_nodes(gtd["body"]):
                    if n.get("k") == "assign" and ir.contains(n["r"], lambda y: y is pb[0]):
                        okl = True
            ck.check(okl and len(pb) == 1, "E-COMP-WIRE", gtd["q"] + "|lookup-path", "lookup: the inner blob is replaced by process_blob(blob)",
                     "lookup path does not pass the blob through the recompressor", ir.loc(gtd))
            ps = comp.calls_to(gbs, "TileConverter::process_stream")
            oks = False
            for n in ir.walk_nodes(gbs["body"]):
                if n.get("k") == "assign" and ps and ir.contains(n["r"], lambda y: y is ps[0]):
                    oks = True
            # and the returned stream is that variable
            ck.check(oks, "E-COMP-WIRE", gbs["q"] + "|stream-path", "stream: the inner stream is replaced by process_stream(stream)",
                     "stream path does not pass the stream through the recompressor", ir.loc(gbs))
    # ---- (6) metadata
    comp.meta_pair_rules(ck, P)
    # process_* fold all elements in order
    for fn in ("process_blob", "process_stream"):
        b = P.fn(TCQ + fn)
        if not b:
            continue
        fors = [n for n in ir.walk_nodes(b["body"]) if n.get("k") == "for"]
        okf = False
        if len(fors) == 1:
            it_ = fors[0]["iter"]
            chain = []
            x = it_
            while x.get("k") == "mcall":
                chain.append(x["name"])
                x = x["recv"]
            okf = chain == ["iter"] or chain == ["iter", "clone"] or set(chain) <= {"iter", "as_ref", "deref"}
        ck.check(okf, "E-COMP-PIPE", TCQ + fn + "|fold", "%s folds every pipeline element in order" % fn, "%s does not iterate the whole pipeline in order" % fn, ir.loc(b))


def _root(n):
    n = ir.strip(n)
    while n is not None and n.get("k") == "field":
        n = ir.strip(n["e"])
    return n


def mutants(P):
    out = []
    TCQ = "versatiles_container::container::tile_converter::TileConverter::"

    def swap_arms(body):
        ms = [n for n in ir.walk_nodes(body["body"]) if n.get("k") == "match" and len(n["arms"]) == 3]
        if not ms:
            return False
        a = ms[0]["arms"]
        a[1]["body"], a[2]["body"] = a[2]["body"], a[1]["body"]
        return True
    out.append(("compress: Gzip and Brotli arms exchanged", UTIL + "compress", swap_arms))
    out.append(("decompress: Gzip and Brotli arms exchanged", UTIL + "decompress", swap_arms))
    out.append(("FnConv::run arms exchanged", "versatiles_container::container::tile_converter::FnConv::run", lambda b: _swap_any(b)))
    out.append(("new_tile_recompressor: source arms exchanged", TCQ + "new_tile_recompressor", swap_arms))

    def cond_and(body):
        return m_replace(body, lambda n: n.get("k") == "bin" and n.get("op") == "||", lambda n: n.__setitem__("op", "&&"))
    out.append(("new_tile_recompressor: force || differs weakened to &&", TCQ + "new_tile_recompressor", cond_and))

    def recompress_args(body):
        cs = [n for n in ir.walk_nodes(body["body"]) if n.get("k") == "call" and (n.get("q") or "").endswith("::compress")]
        ds = [n for n in ir.walk_nodes(body["body"]) if n.get("k") == "call" and (n.get("q") or "").endswith("::decompress")]
        if not cs or not ds:
            return False
        cs[0]["a"][1], ds[0]["a"][1] = ds[0]["a"][1], cs[0]["a"][1]
        return True
    out.append(("recompress: input/output compression arguments exchanged", UTIL + "recompress", recompress_args))

    def drop_process(body):
        from .report import m_drop_stmt
        return m_drop_stmt(body, lambda n: n.get("k") == "mcall" and n.get("name") == "process_blob")
    out.append(("converter lookup skips the recompressor", "<versatiles_container::container::converter::TilesConvertReader as versatiles_core::types::tiles_reader::TilesReaderTrait>::get_tile_data", drop_process))
    return out


def _swap_any(body):
    ms = [n for n in ir.walk_nodes(body["body"]) if n.get("k") == "match" and len(n["arms"]) >= 3]
    if not ms:
        return False
    a = ms[0]["arms"]
    a[0]["body"], a[2]["body"] = a[2]["body"], a[0]["body"]
    return True
