"""C13 — concurrent reads on one opened file-backed reader.

R-POS-IO      no cursor-relative I/O (seek/read/write through the shared file offset) on a
              std::fs::File that is reachable through a shared reference (a field of `&self`,
              a `&File` parameter) or a `try_clone()` of one (a dup'ed descriptor shares the
              offset). Positional I/O (FileExt::read_at & co.) is the accepted idiom.
R-UNSAFE-AUTO every `unsafe impl Send/Sync` on a type in the reader closure is vacuous per the
              trait solver (all fields already implement the auto trait).
R-SYNC-FIELDS every field of every type in the reader closure is Sync per the trait solver.
R-CONTENTION  a branch on try_lock & co. must apply the same value transformations on both outcomes.
R-INTERIOR    interior-mutable state in reader-closure types is limited to lock-protected
              LimitedCache values and write-once cells; no `static mut` in the workspace.
"""
import re

from . import ir
from .report import m_replace

META = {
    "level": "other",
    "explanation": (
        "Decides the structural part of C13: (R-POS-IO) on every path of every workspace function, no "
        "cursor-relative std::io::{Seek,Read,Write,BufRead} call has a receiver that is a std::fs::File reachable "
        "through a shared reference or a try_clone() of one, followed interprocedurally through workspace callees "
        "(depth 4); (R-UNSAFE-AUTO) unsafe Send/Sync impls in the reader closure are vacuous per rustc's trait solver; "
        "(R-SYNC-FIELDS) every field of the reader closure is Sync; (R-INTERIOR) the only interior-mutable fields are "
        "mutex-protected LimitedCache values. Together with Rust's aliasing rules (a `&self` method cannot reach `&mut` "
        "state except through these), each concurrent call works on its own buffer and an offset-free read. (Claimed as `proof` for most of the session; lowered to `other` after the seeded change C13f - completion-ordered results paired by position inside a reader - was first caught only by other checks: the obligation list was not closed. R-COMPLETION-ORDER was added.)"),
    "not_decided": "that the OS implements pread atomically; cache transparency itself (C20); the HTTP reader's remote server.",
    "trusted_base": ["rustc type checker and trait solver (Send/Sync/Freeze facts)", "std::os::unix::fs::FileExt positional reads do not touch the file offset",
                     "external crates (futures::lock::Mutex, reqwest) are sound"],
}

CURSOR_TRAITS = ("std::io::Seek::", "std::io::Read::", "std::io::Write::", "std::io::BufRead::",
                 "byteorder::io::ReadBytesExt::", "byteorder::io::WriteBytesExt::")
WRAPPERS = ("std::io::buffered::bufreader::BufReader::new", "std::io::buffered::bufreader::BufReader::with_capacity",
            "std::io::buffered::bufwriter::BufWriter::new", "std::io::Read::by_ref", "std::io::Read::take")
FILE_T = "std::fs::File"


def is_cursor_call(n):
    q = n.get("q") or ""
    rv = n.get("rvq") or ""
    if q.startswith(CURSOR_TRAITS) or q == "std::io::copy":
        return True
    return any(("as " + t[:-2] + ">") in rv for t in CURSOR_TRAITS)


def _is_shared_ref_ty(t):
    return t.startswith("&") and not t.startswith("&mut ") and not t.startswith("&'static mut")


def _strip_lifetime(t):
    # "&'a T" -> "&T"
    if t.startswith("&'"):
        sp = t.find(" ")
        return "&" + t[sp + 1:]
    return t


class FileTaint:
    """per-body taint: expressions denoting a File whose offset is shared with other holders"""

    def __init__(self, P, body, seed_params=()):
        self.P = P
        self.body = body
        self.tainted = set()      # hids
        self.shared_roots = set()  # hids of locals that are shared references (or aliases of them)
        self.out_calls = []       # (callee q, arg index, node)
        self.sinks = []
        params = body.get("params", [])
        for i, p in enumerate(params):
            for b in ir.pat_binds(p):
                t = _strip_lifetime(b["t"])
                if _is_shared_ref_ty(t):
                    self.shared_roots.add(b["hid"])
                    if FILE_T in t.split("<")[0]:
                        self.tainted.add(b["hid"])
            if i in seed_params:
                for b in ir.pat_binds(p):
                    self.tainted.add(b["hid"])
        self._scan()

    def root_is_shared(self, n):
        """is the place expression rooted at a shared reference?"""
        n = ir.strip(n)
        while n is not None and n.get("k") in ("field", "index", "try", "await", "cast"):
            n = ir.strip(n["e"])
        if n is not None and n.get("k") == "path" and n.get("r") == "local":
            return n["hid"] in self.shared_roots
        if n is not None and n.get("k") == "mcall":
            # e.g. self.inner.as_ref(): follow the receiver
            return self.root_is_shared(n["recv"])
        return False

    def is_tainted(self, n):
        if n is None:
            return False
        k = n.get("k")
        if k == "path":
            return n.get("r") == "local" and n["hid"] in self.tainted
        if k in ("ref", "un", "try", "await", "cast"):
            return self.is_tainted(n["e"])
        if k == "field":
            # a File-typed field reached through a shared reference
            t = n.get("t", "")
            if t == FILE_T or t.endswith("&" + FILE_T) or t == "&" + FILE_T:
                if self.root_is_shared(n["e"]):
                    return True
            return self.is_tainted(n["e"]) and FILE_T in n.get("t", "")
        if k == "mcall":
            q = n.get("q") or ""
            if q == "std::fs::File::try_clone":
                return self.is_tainted(n["recv"])
            if q in ("core::result::Result::unwrap", "core::result::Result::expect", "core::option::Option::unwrap",
                     "core::option::Option::expect", "core::clone::Clone::clone", "core::convert::AsRef::as_ref",
                     "core::convert::AsMut::as_mut", "core::borrow::BorrowMut::borrow_mut", "core::borrow::Borrow::borrow") or q in WRAPPERS:
                return self.is_tainted(n["recv"])
            return False
        if k == "call":
            q = n.get("q") or ""
            if q in WRAPPERS or q.endswith("::from") or q.endswith("::into"):
                return any(self.is_tainted(a) for a in n.get("a", ()))
            return False
        if k == "block":
            return "tail" in n and self.is_tainted(n["tail"])
        return False

    def _scan(self):
        body = self.body["body"]
        # alias/taint propagation to fixpoint over let-bindings and shared aliases
        changed = True
        while changed:
            changed = False
            for n in ir.walk_nodes(body):
                if n.get("k") == "let" and "init" in n:
                    binds = ir.pat_binds(n["pat"])
                    if not binds:
                        continue
                    init = n["init"]
                    if self.is_tainted(init):
                        for b in binds:
                            if b["hid"] not in self.tainted:
                                self.tainted.add(b["hid"])
                                changed = True
                    # alias of a shared reference (`let __self = self;`)
                    h = ir.local_hid(init)
                    if h is not None and h in self.shared_roots and init.get("k") == "path":
                        for b in binds:
                            if b["hid"] not in self.shared_roots:
                                self.shared_roots.add(b["hid"])
                                changed = True
                elif n.get("k") == "closure":
                    # closure params never alias self; captured variables keep their hid
                    pass
        for n in ir.walk_nodes(body):
            k = n.get("k")
            if k == "mcall":
                if is_cursor_call(n) and self.is_tainted(n["recv"]):
                    self.sinks.append(n)
                args = [n["recv"]] + list(n.get("a", ()))
            elif k == "call":
                if is_cursor_call(n) and any(self.is_tainted(a) for a in n.get("a", ())):
                    self.sinks.append(n)
                args = list(n.get("a", ()))
            else:
                continue
            if is_cursor_call(n):
                continue
            for t in self.P.targets_of(n):
                if t in self.P.by_q:
                    for i, a in enumerate(args):
                        if self.is_tainted(a):
                            self.out_calls.append((t, i, n))


def reader_closure(P):
    """workspace ADTs reachable through fields from the reader/data-reader implementations"""
    roots = set()
    for i in P.impls:
        tr = i.get("trait", "")
        if tr.endswith("::TilesReaderTrait") or tr.endswith("::DataReaderTrait"):
            if "self_adt" in i:
                roots.add(i["self_adt"])
    for q in P.adts:
        if q.endswith("::LimitedCache"):
            roots.add(q)
    seen = set()
    stack = list(roots)
    while stack:
        q = stack.pop()
        if q in seen or q not in P.adts:
            continue
        seen.add(q)
        for v in P.adts[q]["variants"]:
            for f in v["fields"]:
                for other in P.adts:
                    if other in f["t"] and other not in seen:
                        stack.append(other)
    return roots, seen


INTERIOR_WORDS = ("Mutex<", "RwLock<", "Atomic", "Cell<", "RefCell<", "UnsafeCell<", "OnceCell<", "OnceLock<", "LazyLock<", "LazyCell<",
                  # synchronisation objects: permits / notifications shared between calls make one call wait for another (a lookup that holds a
                  # permit and the cache lock while it waits for a second permit never returns once enough callers are in flight)
                  "Semaphore", "Notify", "Barrier", "Condvar", "mpsc::", "broadcast::", "watch::")
ACCEPTED_INTERIOR = ("OnceLock<", "LazyLock<")


def completion_order_rule(ck, P):
    """R-COMPLETION-ORDER: inside the reader types, results that arrive in COMPLETION order (buffer_unordered, FuturesUnordered, select_all,
    join-set style collections) are never matched up by POSITION with data in submission order (zip, enumerate, indexing): under a
    second caller that holds a lock one of the futures needs, completion order differs from submission order and values are attached to
    the wrong key.  Carrying the key through the future (returning a (key, value) pair) is the accepted idiom."""
    n_unordered, bad = 0, []
    for b in P.bodies:
        if "::container::" not in b["q"] or "::tests::" in b["q"] or "eader" not in b["q"]:
            continue
        lets = {}
        for y in ir.walk_nodes(b["body"]):
            if y.get("k") == "let" and "init" in y and y["pat"].get("k") == "bind":
                lets[y["pat"]["hid"]] = y
        for y in ir.walk_nodes(b["body"]):
            if not (y.get("k") == "mcall" and y.get("name") in ("buffer_unordered", "try_buffer_unordered", "for_each_concurrent") or
                    (y.get("k") == "call" and (y.get("q") or "").endswith(("FuturesUnordered::new", "stream::select_all", "select_all::select_all", "JoinSet::new")))):
                continue
            n_unordered += 1
            # the local that receives the unordered results (the let whose initialiser contains this call)
            holders = [h for h, l_ in lets.items() if ir.contains(l_["init"], lambda z: z is y)]
            for h in holders:
                for z, parents, _ in ir.walk(b["body"]):
                    if z.get("k") == "path" and z.get("r") == "local" and z.get("hid") == h:
                        par = [p_ for p_ in parents[-4:] if p_.get("k") in ("mcall", "index", "call")]
                        for p_ in par:
                            if (p_.get("k") == "mcall" and p_.get("name") in ("zip", "enumerate", "get", "nth")) or p_.get("k") == "index" or \
                                    (p_.get("k") == "call" and (p_.get("q") or "").endswith(("iter::zip", "izip"))):
                                bad.append("%s: results of `%s` are paired by position (`%s`) at %s" % (b["q"].rsplit("::", 1)[-1], y.get("name") or y.get("q"), p_.get("name") or p_.get("k"), ir.loc(p_)))
                                break
            # the same within one chain: .buffer_unordered(..).zip(..) / .enumerate()
            for z, parents, _ in ir.walk(b["body"]):
                if z is y:
                    for p_ in reversed(parents):
                        if p_.get("k") == "mcall" and ir.contains(p_["recv"], lambda w: w is y) and p_.get("name") in ("zip", "enumerate"):
                            bad.append("%s: `%s` directly after `%s` at %s" % (b["q"].rsplit("::", 1)[-1], p_["name"], y.get("name"), ir.loc(p_)))
    # a single-tile LOOKUP returns one value: if it gathers candidates in completion order (FuturesUnordered, buffer_unordered, select ...)
    # and lets the first one that arrives win, which tile comes back depends on which source answered first - i.e. on whether another
    # caller holds the lock one of the sources needs.  No lookup of a reader or a pipeline operation uses a completion-ordered collection.
    n_look, racy = 0, []
    for b in P.bodies:
        if not b.get("trait_item", "").endswith(("TilesReaderTrait::get_tile_data", "OperationTrait::get_tile_data")) or "::tests::" in b["q"]:
            continue
        if b.get("crate") not in ("versatiles_container", "versatiles_pipeline"):
            continue
        n_look += 1
        for y in ir.walk_nodes(b["body"]):
            t = (y.get("t") or "") + (y.get("q") or "")
            if ("FuturesUnordered" in t or "SelectAll" in t or "JoinSet" in t or (y.get("k") == "mcall" and y.get("name") in ("buffer_unordered", "try_buffer_unordered", "for_each_concurrent")) or
                    "select_biased" in (y.get("m") or "") or "futures::select" in (y.get("m") or "") or "tokio::select" in (y.get("m") or "")):
                racy.append("%s at %s" % (b["q"].split(" as ")[0].rsplit("::", 2)[-2] if " as " in b["q"] else b["q"].rsplit("::", 2)[-2], ir.loc(y)))
                break
    ck.anchor("R-COMPLETION-ORDER", "single-tile lookups (readers and operations)", n_look, 10)
    ck.check(not racy, "R-COMPLETION-ORDER", "lookups|no-completion-order", "no single-tile lookup gathers its candidates in completion order (%d lookups)" % n_look,
             "a single-tile lookup consumes a completion-ordered collection (%s): which candidate wins depends on which future finishes first, so a call that contends "
             "with another caller for a lock returns a different tile than the same call alone" % racy[:2])
    ck.check(not bad, "R-COMPLETION-ORDER", "readers|no-positional-pairing", "no reader pairs completion-ordered results with submission-ordered data by position (%d unordered collection site(s))" % n_unordered,
             "completion-ordered results are matched by position: %s — with a second caller contending for a lock the order differs and tiles get another tile's index or bytes" % bad[:2])


def rules(ck, P):
    completion_order_rule(ck, P)
    # ---------------- R-POS-IO
    n_fns = 0
    n_cursor = 0
    work = []
    done = set()
    for b in P.bodies:
        if b["dk"] not in ("Fn", "AssocFn"):
            continue
        n_fns += 1
        work.append((b["q"], (), 0, (b["q"],)))
    file_fields = [(q, f["name"]) for q, a in P.adts.items() for v in a["variants"] for f in v["fields"] if FILE_T in f["t"]]
    ck.anchor("R-POS-IO", "ADTs with a std::fs::File field", file_fields, 1)
    reported = set()
    while work:
        q, seeds, depth, chain = work.pop()
        if (q, seeds) in done:
            continue
        done.add((q, seeds))
        b = P.fn(q)
        if b is None:
            continue
        ft = FileTaint(P, b, seeds)
        for n in ir.walk_nodes(b["body"]):
            if n.get("k") in ("call", "mcall") and is_cursor_call(n):
                n_cursor += 1
        ords = {}
        for s in ft.sinks:
            cq = s.get("rvq") or s.get("q")
            key0 = "%s|%s" % (q, cq)
            ords[key0] = ords.get(key0, 0) + 1
            key = "%s#%d" % (key0, ords[key0])
            if key in reported:
                continue
            reported.add(key)
            ck.violation("R-POS-IO", key,
                         "cursor-relative `%s` on a std::fs::File shared with other callers (receiver `%s`%s): the file offset is "
                         "shared, so concurrent calls interleave seek/read" % (
                             s.get("name") or cq, ir.place_str(s.get("recv") or s["a"][0]),
                             "" if len(chain) == 1 else ", reached via " + " -> ".join(chain)), ir.loc(s))
        if depth < 4:
            for (t, i, n) in ft.out_calls:
                work.append((t, tuple(sorted(set((i,)))), depth + 1, chain + (t,)))
    # obligations that held: one per &self method of a File-owning type and per fn taking &File
    owners = {q for q, _ in file_fields}
    for b in P.bodies:
        if b["dk"] != "AssocFn" or b.get("self_adt") not in owners or not b.get("has_self"):
            continue
        bad = any(k.startswith(b["q"] + "|") for k in reported)
        if not bad:
            ck.ok("R-POS-IO", b["q"], "no cursor-relative I/O on the shared File in this method", ir.loc(b))
    ck.note("R-POS-IO scanned %d functions, %d cursor-relative call sites" % (n_fns, n_cursor))
    ck.anchor("R-POS-IO", "cursor-relative call sites in workspace", n_cursor, 20)

    # ---------------- reader closure
    roots, closure = reader_closure(P)
    ck.anchor("R-SYNC-FIELDS", "reader root types", roots, 8)
    # ---------------- R-UNSAFE-AUTO
    n_unsafe = 0
    for i in P.impls:
        if not i.get("unsafe"):
            continue
        tr = i.get("trait", "")
        if not (tr.endswith("::Send") or tr.endswith("::Sync")):
            continue
        n_unsafe += 1
        adt = i.get("self_adt")
        key = "%s|%s" % (adt, tr.rsplit("::", 1)[-1])
        if adt in closure:
            ck.check(i.get("vacuous") is True, "R-UNSAFE-AUTO", key,
                     "unsafe impl %s for %s is vacuous (every field already implements it)" % (tr, adt),
                     "unsafe impl %s for %s is NOT vacuous: fields %s do not implement it — the impl asserts thread-safety the compiler cannot see"
                     % (tr, adt, i.get("non_auto_fields")))
        else:
            ck.note("unsafe impl %s for %s outside the reader closure (vacuous=%s)" % (tr, adt, i.get("vacuous")))
    # ---------------- R-SYNC-FIELDS / R-INTERIOR
    for q in sorted(closure):
        a = P.adts[q]
        for v in a["variants"]:
            for f in v["fields"]:
                key = "%s.%s" % (q, f["name"])
                if re.search(r"\b[A-Z][0-9]?\b", f["t"]) and not f.get("sync"):
                    # generic parameter of the ADT: Sync holds per instantiation, which is checked at the
                    # field that instantiates it (e.g. Mutex<LimitedCache<TileCoord3, Arc<TileIndex>>>)
                    ck.note("field %s is generic (%s): Sync decided at instantiation sites" % (key, f["t"]))
                else:
                    ck.check(f.get("sync") is True, "R-SYNC-FIELDS", key, "field is Sync per trait solver (%s)" % f["t"],
                         "field type %s is not Sync" % f["t"])
                words = [w for w in INTERIOR_WORDS if w in f["t"]]
                if words:
                    ok = ("Mutex<" in f["t"] and "LimitedCache<" in f["t"]) or all(w in ACCEPTED_INTERIOR for w in words)
                    ck.check(ok, "R-INTERIOR", key,
                             "interior-mutable field is a lock-protected LimitedCache / write-once cell (%s)" % f["t"],
                             "new shared mutable state in a reader type: %s — state shared between concurrent calls that is not a "
                             "transparent cache can make a call observe another call's data" % f["t"])
    # ---------------- R-CONTENTION: what a call returns must not depend on whether a lock happened to be free
    TRY = ("try_lock", "try_read", "try_write", "try_lock_owned", "try_borrow", "try_borrow_mut")
    CACHE_OPS = {"get", "add", "get_or_set", "insert", "clone", "lock", "unwrap", "expect", "new", "Ok::{Ctor#0}", "Some::{Ctor#0}", "from", "into", "await", "ok", "map"}
    n_try = 0

    def summary(node, depth=0):
        """multiset-free set of workspace value transforms applied below `node` (helpers inlined two levels)"""
        out = set()
        for y in ir.walk_nodes(node):
            if y.get("k") in ("call", "mcall"):
                nm = y.get("name") or (y.get("q") or "").rsplit("::", 1)[-1]
                if nm in CACHE_OPS or nm in TRY:
                    continue
                q_ = y.get("rvq") or y.get("q") or ""
                if P.is_workspace(q_):
                    cb = P.fn(q_)
                    if cb is not None and depth < 2 and cb.get("self_adt", "").endswith("Reader"):
                        out |= summary(cb["body"], depth + 1)
                    else:
                        out.add(q_.rsplit("::", 2)[-2] + "::" + q_.rsplit("::", 1)[-1] if "::" in q_ else q_)
        return out
    for b in P.bodies:
        if b.get("self_adt") not in closure or "::tests::" in b["q"]:
            continue
        for n in ir.walk_nodes(b["body"]):
            if n.get("k") not in ("if", "match", "let"):
                continue
            if n.get("k") == "let" and "els" not in n:
                continue
            scrut = n["c"] if n.get("k") == "if" else (n["e"] if n.get("k") == "match" else n.get("init"))
            if scrut is None or not ir.contains(scrut, lambda y: y.get("k") == "mcall" and y.get("name") in TRY):
                continue
            n_try += 1
            if n.get("k") == "if":
                branches = [n["then"], n.get("else", {"k": "block"})]
            elif n.get("k") == "match":
                branches = [a["body"] for a in n["arms"]]
            else:
                # let-else: the else block is the contended path; the uncontended path is the rest of the enclosing block
                rest = None
                for blk in ir.walk_nodes(b["body"]):
                    if blk.get("k") == "block" and n in blk.get("stmts", []):
                        i = blk["stmts"].index(n)
                        rest = {"k": "block", "stmts": blk["stmts"][i + 1:], **({"tail": blk["tail"]} if "tail" in blk else {})}
                branches = [n["els"], rest or {"k": "block"}]
            sums = [summary(x) for x in branches]
            same = all(s_ == sums[0] for s_ in sums)
            ck.check(same, "R-CONTENTION", "%s|try#%d" % (b["q"], n_try), "both outcomes of the try-lock apply the same transformations to the value",
                     "the result depends on whether a lock is free: the contended path applies %s, the uncontended path %s (difference %s) — concurrent calls can return what a call running alone never returns"
                     % (sorted(sums[0]), sorted(sums[1]) if len(sums) > 1 else [], sorted(set.union(*sums) - set.intersection(*sums))), ir.loc(n))
    ck.ok("R-CONTENTION", "census", "%d contention-dependent branches (try_lock & co.) in reader types; each must apply the same transformations on both outcomes" % n_try)
    # the caches behind the mutexes are transparent only if a cached value is a function of its key: with an aliasing key (two blocks,
    # two levels, two directories under one key) whoever asks first decides what every later caller gets (shared with C16)
    from . import c16 as _c16
    _c16._cache_key_rules(ck, P)
    # set-once cells are accepted as interior state because initialisation is race-free — which holds for get_or_init / get_or_try_init
    # (all callers get the winner's value) but not for "if empty { set(x).unwrap() }": of two first callers one loses the race, `set`
    # returns Err(x) and the unwrap panics, so the concurrent call does not return what it returns when run alone
    n_set = 0
    for b in P.bodies:
        if "::tests::" in b["q"] or b.get("target") not in (None, "lib", "bin"):
            continue
        for y, ps, _ in ir.walk(b["body"]):
            if y.get("k") == "mcall" and y.get("name") in ("set", "try_insert") and any(w in ((ir.strip(y["recv"]).get("t") or "") + (ir.strip(y["recv"]).get("ta") or "")) for w in ("OnceLock<", "OnceCell<")):
                n_set += 1
                must = [p_ for p_ in ps[-3:] if p_.get("k") == "mcall" and p_.get("name") in ("unwrap", "expect", "unwrap_or_else") and ir.contains(p_["recv"], lambda z: z is y)]
                tried = [p_ for p_ in ps[-3:] if p_.get("k") == "try" and ir.contains(p_["e"], lambda z: z is y)]
                ck.check(not must and not tried, "R-INTERIOR", "%s|once-set" % b["q"], "a lost initialisation race of a set-once cell is tolerated (result of set() not demanded)",
                         "%s demands that its OnceLock::set succeeds (%s): when two callers initialise the cell at the same time the loser panics / fails although the same call succeeds when run alone; use get_or_init" %
                         (b["q"], "unwrap/expect" if must else "?"), ir.loc(y))
    ck.ok("R-INTERIOR", "once-set-census", "%d explicit set() calls on set-once cells; each must tolerate losing the race" % n_set)
    for b in P.bodies:
        if b["dk"].startswith("Static") and "Mut" in b["dk"] and "Not" not in b["dk"]:
            ck.violation("R-INTERIOR", "static-mut|" + b["q"], "static mut item in workspace", ir.loc(b))
    ck.ok("R-INTERIOR", "static-mut", "no `static mut` among %d const/static items" % sum(1 for b in P.bodies if b["dk"] not in ("Fn", "AssocFn")))
    ck.note("%d unsafe auto-trait impls in workspace" % n_unsafe)


def mutants(P):
    out = []
    # positional read turned back into a cursor-relative call on the shared File
    for b in P.bodies:
        for n in ir.walk_nodes(b["body"]):
            if n.get("k") == "mcall" and "fs::FileExt::" in (n.get("q") or ""):
                def to_seek(body):
                    def fn(x):
                        x["q"] = "std::io::Seek::seek"
                        x["rvq"] = "<&std::fs::File as std::io::Seek>::seek"
                        x["name"] = "seek"
                    return m_replace(body, lambda x: x.get("k") == "mcall" and "fs::FileExt::" in (x.get("q") or ""), fn)
                out.append(("positional read in %s replaced by seek on the shared File" % b["q"], b["q"], to_seek))
                break
    # a reader field becomes non-Sync / an unsafe impl becomes non-vacuous: item-level facts
    return out
