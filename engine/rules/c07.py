"""C07 — static file serving never leaves the configured root.

R-TAINT-FS: flow-sensitive taint analysis from the request path (the `url` parameter of every
StaticSourceTrait::get_data implementation) to filesystem content sinks. A tainted path must pass an
accepted sanitiser on every path to a sink:
  (a) a guard that rejects the request unless every component of the root-relative path is
      Component::Normal / CurDir (evaluated abstractly for ParentDir, RootDir and Prefix components), or
  (b) canonicalize() followed by starts_with(root) on the canonical value.
A lexical Path::starts_with on a non-canonical join is not a sanitiser.
"""
import copy

from . import ir
from .report import m_drop_stmt, m_replace

META = {
    "level": "other",
    "explanation": (
        "Decides the structural part of C07: every filesystem content sink (File::open, OpenOptions::open, fs::read*, "
        "tokio::fs equivalents) reachable from a StaticSourceTrait::get_data implementation receives a path that is either "
        "not derived from the request, or derived from it only through component-preserving operations after a dominating "
        "sanitiser guard (component walk rejecting ParentDir/RootDir/Prefix, or canonicalize + starts_with(root)); the tar "
        "source has no filesystem sink after start-up; the fallback handler passes the prefix-stripped request path and "
        "nothing else. The guard's closure is evaluated abstractly for each Component variant, in both polarities "
        "(any/all, negations), and the guard must dominate the sink in the structured control flow."),
    "not_decided": "symlinks inside the root; what the HTTP stack does to the raw target before Uri::path(); Windows path prefixes beyond Component::Prefix.",
    "trusted_base": ["std::path component semantics", "axum/hyper deliver the raw, undecoded request path", "rustc name resolution"],
}

CLEAN, SAN, TAINT = 0, 1, 2

CONTENT_SINKS = ("std::fs::File::open", "std::fs::OpenOptions::open", "std::fs::read", "std::fs::read_to_string",
                 "std::fs::read_dir", "tokio::fs::File::open", "tokio::fs::read", "tokio::fs::read_to_string",
                 "tokio::fs::OpenOptions::open", "std::fs::File::create", "std::fs::write", "std::fs::copy")
PROBES = ("std::path::Path::is_dir", "std::path::Path::is_file", "std::path::Path::exists", "std::fs::metadata",
          "std::path::Path::metadata", "std::path::Path::try_exists")
# functions through which a sanitised value stays sanitised (they add constant components or change representation)
PURE = ("std::path::Path::display", "std::path::Path::to_path_buf", "core::clone::Clone::clone", "std::path::Path::new",
        "core::convert::AsRef::as_ref", "alloc::string::ToString::to_string", "std::path::Path::to_str", "std::path::Path::to_string_lossy",
        "alloc::fmt::format", "core::hint::must_use", "core::fmt::rt::Argument::new_display", "core::fmt::rt::Argument::new_debug",
        "core::fmt::Arguments::new", "std::path::Path::as_os_str", "core::option::Option::unwrap", "core::result::Result::unwrap",
        "core::option::Option::ok_or", "core::result::Result::ok", "alloc::borrow::ToOwned::to_owned", "std::path::PathBuf::as_path",
        "core::ops::deref::Deref::deref", "alloc::string::String::as_str", "core::convert::Into::into", "core::convert::From::from")
# &mut self operations that append their argument as path text
APPEND = ("std::path::PathBuf::push", "std::path::PathBuf::set_extension", "std::path::PathBuf::set_file_name", "alloc::string::String::push_str")
JOIN = ("std::path::Path::join", "std::path::Path::with_extension", "std::path::Path::with_file_name")
CANON = ("std::path::Path::canonicalize", "std::fs::canonicalize", "tokio::fs::canonicalize")
CLEAN_TYPES = ("bool", "()", "usize", "u64", "u32", "u8", "i32", "i64")
BAD_COMPONENTS = ("ParentDir", "RootDir", "Prefix")


def tri_not(v):
    return None if v is None else (not v)


def tri_or(a, b):
    if a is True or b is True:
        return True
    if a is False and b is False:
        return False
    return None


def tri_and(a, b):
    if a is False or b is False:
        return False
    if a is True and b is True:
        return True
    return None


def clo_truth(clo, variant):
    """truth value of a `|c| ...` closure over std::path::Component for the given variant name"""
    params = [x for p in clo.get("params", ()) for x in ir.pat_binds(p)]
    if not params:
        return None
    ph = params[0]["hid"]

    def pat_matches(p):
        k = p.get("k")
        if k in ("wild", "bind"):
            return True
        if k == "or":
            return any(pat_matches(x) for x in p["ps"])
        if k == "ref":
            return pat_matches(p["p"])
        q = p.get("q") or (p.get("e", {}).get("q") if k == "expr" else None) or ""
        if "std::path::Component::" in q:
            return ("Component::" + variant) in q
        return None

    def ev(n):
        n = ir.unparen(n)
        if n is None:
            return None
        k = n.get("k")
        if k == "lit" and n.get("lk") == "bool":
            return n["v"]
        if k == "un" and n.get("op") == "!":
            return tri_not(ev(n["e"]))
        if k == "bin" and n.get("op") in ("&&", "||"):
            return (tri_and if n["op"] == "&&" else tri_or)(ev(n["l"]), ev(n["r"]))
        if k == "bin" and n.get("op") in ("==", "!="):
            for a, b in ((n["l"], n["r"]), (n["r"], n["l"])):
                if ir.local_hid(a) == ph:
                    bq = ir.strip(b).get("q") or ""
                    if "std::path::Component::" in bq:
                        r = ("Component::" + variant) in bq
                        return r if n["op"] == "==" else (not r)
            return None
        if k == "match" and ir.local_hid(n["e"]) == ph:
            for a in n["arms"]:
                m = pat_matches(a["pat"])
                if m is None:
                    return None
                if m:
                    if "guard" in a:
                        return None
                    return ev(a["body"])
            return None
        if k == "block":
            return ev(n.get("tail")) if "tail" in n and not n.get("stmts") else None
        return None
    return ev(clo["body"])


class Interp:
    def __init__(self, P, ck, entry_q, depth=0, chain=()):
        self.P, self.ck = P, ck
        self.entry_q = entry_q
        self.depth = depth
        self.chain = chain + (entry_q,)
        self.origin = {}     # hid -> hid it was derived from by strip_prefix(root)
        self.canon = set()   # hids holding canonicalised paths
        self.sinks = []      # (node, state, desc)
        self._eo = None
        self.names = {}

    # ---- guards
    def comp_guard(self, cond, env):
        """returns (hids, truth_when_bad) if cond is a component-walk guard, else None.
        truth_when_bad: value of cond when the path contains a ParentDir/RootDir/Prefix (must be the same for all three)."""
        cond = ir.unparen(cond)
        if cond is None:
            return None
        if cond.get("k") == "un" and cond.get("op") == "!":
            r = self.comp_guard(cond["e"], env)
            if r:
                return (r[0], tri_not(r[1]), tri_not(r[2]))
            return None
        pred = ir.strip(cond["a"][0]) if cond.get("k") == "mcall" and cond.get("a") else None
        if pred is not None and pred.get("k") == "path" and pred.get("r") != "local" and self.P.fn(pred.get("q") or "") is not None:
            # a named predicate function instead of a closure: its body is read the same way
            fb_ = self.P.fn(pred["q"])
            pred = {"k": "closure", "params": fb_["params"], "body": ir.fn_block(fb_)}
        if cond.get("k") == "mcall" and cond.get("name") in ("any", "all") and pred is not None and pred.get("k") == "closure":
            # receiver chain must contain .components() on a local
            x = cond["recv"]
            base = None
            while x is not None and x.get("k") == "mcall":
                if x.get("q") == "std::path::Path::components":
                    base = x["recv"]
                    break
                # between components() and any/all only adaptors that keep every component are a component WALK; skip / take / filter /
                # step_by leave components unchecked and make the guard worthless for them
                if x.get("name") not in ("rev", "peekable", "by_ref", "into_iter", "iter", "copied", "cloned", "fuse"):
                    return None
                x = x["recv"]
            if base is None:
                return None
            h = ir.local_hid(base)
            if h is None:
                return None
            clo = pred
            fn_ = clo_truth(clo, "Normal")
            vals = []
            for v in BAD_COMPONENTS:
                fb = clo_truth(clo, v)
                if cond["name"] == "any":
                    vals.append(tri_or(fn_, fb))
                else:
                    vals.append(tri_and(fn_, fb))
            safe = fn_
            if any(v is None for v in vals) or len(set(vals)) != 1:
                return None
            hids = {h}
            while h in self.origin:
                h = self.origin[h]
                hids.add(h)
            return (hids, vals[0], safe)
        return None

    def canon_guard(self, cond, env):
        """`canon.starts_with(root)` on a canonicalised local with an untainted root"""
        cond = ir.unparen(cond)
        if cond is None:
            return None
        if cond.get("k") == "un" and cond.get("op") == "!":
            r = self.canon_guard(cond["e"], env)
            if r:
                return (r[0], not r[1])
            return None
        if cond.get("k") == "mcall" and cond.get("q") == "std::path::Path::starts_with":
            h = ir.local_hid(cond["recv"])
            if h in self.canon and self.ev(cond["a"][0], env) == CLEAN:
                # the root itself must be canonical too for the comparison to mean containment: roots are
                # configuration values; accept fields of self / clean locals
                return ({h}, False)  # cond is False when the path is outside the root
        return None

    def _existence_only(self):
        """ids of sink calls whose Result is consumed on the spot by is_ok()/is_err()"""
        if self._eo is None:
            self._eo = set()
            for b in self.P.bodies:
                if b.get("crate") != "versatiles":
                    continue
                for y in ir.walk_nodes(b["body"]):
                    if y.get("k") == "mcall" and y.get("name") in ("is_ok", "is_err") and not y.get("a"):
                        r = ir.strip(y["recv"])
                        if r is not None and r.get("k") in ("call", "mcall") and ((r.get("q") or "") in CONTENT_SINKS or (r.get("rvq") or "") in CONTENT_SINKS):
                            self._eo.add(id(r))
        return self._eo

    # ---- expression evaluation (returns taint state of the value; updates env; records sinks)
    def ev(self, n, env):
        if n is None:
            return CLEAN
        k = n.get("k")
        if k == "lit":
            return CLEAN
        if k == "path":
            if n.get("r") == "local":
                return env.get(n["hid"], CLEAN)
            return CLEAN
        if k in ("ref", "un", "cast", "field", "try", "await", "yield"):
            return self.ev(n["e"], env)
        if k == "index":
            return max(self.ev(n["e"], env), self.ev(n["i"], env))
        if k in ("tup", "array"):
            return max([self.ev(x, env) for x in n["es"]] + [CLEAN])
        if k == "struct":
            return max([self.ev(f["e"], env) for f in n["fields"]] + [CLEAN])
        if k == "bin":
            return max(self.ev(n["l"], env), self.ev(n["r"], env)) if n.get("t") not in CLEAN_TYPES else (self.ev(n["l"], env), self.ev(n["r"], env), CLEAN)[2]
        if k in ("assign", "assignop"):
            v = self.ev(n["r"], env)
            h = ir.local_hid(n["l"])
            if h is not None and n["l"].get("k") == "path":
                env[h] = v if k == "assign" else max(env.get(h, CLEAN), v)
            elif h is not None:
                env[h] = max(env.get(h, CLEAN), v)
            return CLEAN
        if k == "semi":
            self.ev(n["e"], env)
            return CLEAN
        if k == "let":
            v = self.ev(n.get("init"), env) if "init" in n else CLEAN
            binds = ir.pat_binds(n["pat"])
            init = n.get("init")
            for b in binds:
                env[b["hid"]] = v if b["t"] not in CLEAN_TYPES else CLEAN
                self.names[b["hid"]] = b["name"]
            if init is not None and binds:
                self._derivations(init, binds[0]["hid"])
            if "els" in n:
                self.block(n["els"], dict(env))
            return CLEAN
        if k == "block":
            return self.block(n, env)
        if k == "if":
            return self.if_(n, env)
        if k == "letx":
            v = self.ev(n["init"], env)
            for b in ir.pat_binds(n["pat"]):
                env[b["hid"]] = v if b["t"] not in CLEAN_TYPES and "std::fs::File" not in b["t"] else CLEAN
                self.names[b["hid"]] = b["name"]
            return CLEAN
        if k == "match":
            v = self.ev(n["e"], env)
            outs, res = [], CLEAN
            for a in n["arms"]:
                e2 = dict(env)
                for b in ir.pat_binds(a["pat"]):
                    e2[b["hid"]] = v
                if "guard" in a:
                    self.ev(a["guard"], e2)
                r = self.ev(a["body"], e2)
                if not ir.diverges(a["body"]):
                    outs.append(e2)
                    res = max(res, r)
            self._merge(env, outs)
            return res
        if k in ("for", "while", "loop"):
            for _ in range(2):
                e2 = dict(env)
                if k == "for":
                    v = self.ev(n["iter"], e2)
                    for b in ir.pat_binds(n["pat"]):
                        e2[b["hid"]] = v
                if k == "while":
                    self.ev(n["c"], e2)
                self.ev(n["body"], e2)
                self._merge(env, [e2, dict(env)])
            return CLEAN
        if k in ("ret", "break"):
            if "e" in n:
                self.ev(n["e"], env)
            return CLEAN
        if k == "closure":
            e2 = dict(env)
            self.ev(n["body"], e2)
            return max([e2.get(c.get("hid"), CLEAN) for c in n.get("caps", ())] + [CLEAN])
        if k in ("call", "mcall"):
            return self.call(n, env)
        return CLEAN

    def _derivations(self, init, hid):
        x = ir.strip(init)
        # peel ?, .ok(), .unwrap(), .await
        while x is not None and (x.get("k") in ("try", "await") or (x.get("k") == "mcall" and x.get("name") in ("ok", "unwrap", "expect", "ok_or", "ok_or_else", "unwrap_or_default"))):
            x = ir.strip(x["e"] if x.get("k") in ("try", "await") else x["recv"])
        if x is not None and x.get("k") == "mcall" and x.get("q") == "std::path::Path::strip_prefix":
            h = ir.local_hid(x["recv"])
            if h is not None:
                self.origin[hid] = h
        if x is not None and ((x.get("k") == "mcall" and x.get("q") in CANON) or (x.get("k") == "call" and x.get("q") in CANON)):
            self.canon.add(hid)

    def _merge(self, env, outs):
        if not outs:
            return
        keys = set()
        for o in outs:
            keys |= set(o)
        for h in keys:
            env[h] = max(o.get(h, CLEAN) for o in outs)

    def block(self, b, env):
        for st in b.get("stmts", ()):
            self.ev(st, env)
            if ir.diverges(st):
                return CLEAN
        if "tail" in b:
            return self.ev(b["tail"], env)
        return CLEAN

    def if_(self, n, env):
        cond = n["c"]
        self.ev(cond, env)
        then_env, else_env = dict(env), dict(env)
        for g in (self.comp_guard(cond, env),):
            if g:
                hids, when_bad, when_safe = g
                # branch taken when the path is bad keeps the taint; the other branch is sanitised
                if when_bad is True and when_safe is not True:
                    for h in hids:
                        if else_env.get(h) == TAINT:
                            else_env[h] = SAN
                elif when_bad is False and when_safe is not False:
                    for h in hids:
                        if then_env.get(h) == TAINT:
                            then_env[h] = SAN
        cg = self.canon_guard(cond, env)
        if cg:
            hids, when_outside = cg
            tgt = else_env if when_outside else then_env
            for h in hids:
                if tgt.get(h) == TAINT:
                    tgt[h] = SAN
        r1 = self.ev(n["then"], then_env)
        r2 = self.ev(n["else"], else_env) if "else" in n else CLEAN
        outs = []
        if not ir.diverges(n["then"]):
            outs.append(then_env)
        if "else" not in n or not ir.diverges(n["else"]):
            outs.append(else_env)
        if outs:
            env.clear()
            self._merge(env, outs)
        return max(r1, r2)

    def call(self, n, env):
        q = n.get("rvq") or n.get("q") or ""
        q0 = n.get("q") or ""
        if n.get("k") == "mcall" and n.get("name") in ("is_ok", "is_err") and not n.get("a"):
            r_ = ir.strip(n["recv"])
            if r_ is not None and r_.get("k") in ("call", "mcall") and ((r_.get("q") or "") in CONTENT_SINKS or (r_.get("rvq") or "") in CONTENT_SINKS):
                self._existence_only().add(id(r_))     # the handle is dropped on the spot: an existence test, not a content sink
        args = ([n["recv"]] if n.get("k") == "mcall" else []) + list(n.get("a", ()))
        if n.get("k") == "call" and "f" in n:
            self.ev(n["f"], env)
        states = [self.ev(a, env) for a in args]
        worst = max(states + [CLEAN])
        # sinks
        if q0 in CONTENT_SINKS or q in CONTENT_SINKS:
            if id(n) in self._existence_only():
                return CLEAN    # `File::open(p).is_ok()`: no handle survives, so no content can be returned (the property is about returned content)
            self.sinks.append((n, worst, q0))
            return CLEAN
        if q0 in PROBES:
            return CLEAN
        # in-place appends
        if q0 in APPEND and n.get("k") == "mcall":
            h = ir.local_hid(n["recv"])
            if h is not None:
                env[h] = max(env.get(h, CLEAN), max(states[1:] + [CLEAN]))
                # appending an absolute/`..` literal is not modelled: literals are trusted constants
            return CLEAN
        if n.get("t") in CLEAN_TYPES:
            res = CLEAN
        elif q0 in PURE or q0 in JOIN or q in PURE:
            res = worst
        elif q0 in CANON:
            res = worst  # canonical but still outside-capable until compared with the root
        elif q0 == "std::path::Path::strip_prefix":
            res = states[0]
        else:
            # unknown transformation: a sanitised value is no longer known to be component-safe
            res = TAINT if worst >= SAN else CLEAN
        # interprocedural: a tainted argument flowing into a workspace function that reaches a content sink
        if worst >= SAN and self.depth < 3:
            for t in self.P.targets_of(n):
                callee = self.P.fn(t)
                if callee is None or t in self.chain:
                    continue
                if not self._reaches_sink(t):
                    continue
                sub = Interp(self.P, self.ck, t, self.depth + 1, self.chain)
                penv = {}
                params = callee.get("params", [])
                for i, p in enumerate(params):
                    st = states[i] if i < len(states) else CLEAN
                    for b in ir.pat_binds(p):
                        penv[b["hid"]] = st
                sub.ev(callee["body"], penv)
                self.sinks.extend(sub.sinks)
        return res

    def _reaches_sink(self, q):
        memo = self.P.__dict__.setdefault("_memo", {}).setdefault("c07_sink", {})
        if q in memo:
            return memo[q]
        seen = self.P.reachable([q])
        r = False
        for f in seen:
            b = self.P.fn(f)
            if b and ir.contains(b["body"], lambda y: y.get("k") in ("call", "mcall") and (y.get("q") in CONTENT_SINKS)):
                r = True
                break
        memo[q] = r
        return r


# ---- R-EXACT-KEY: sources that answer from a map built at start-up look the request path up literally
KEY_PURE = ("as_str", "as_ref", "borrow", "deref", "clone", "to_string", "to_owned", "into", "as_bytes", "to_path_buf")


def _key_ops(P, e, src, lets, depth=0):
    """operations between the request (locals in `src`) and the lookup key expression `e`, other than representation changes
    and the removal of the single leading '/' ; returns (rooted_in_request, [offending operation descriptions])"""
    e = ir.unparen(ir.strip(e)) if e is not None else None
    if e is None:
        return False, ["?"]
    k = e.get("k")
    if k == "path" and e.get("r") == "local":
        if e["hid"] in src:
            return True, []
        if e["hid"] in lets:
            return _key_ops(P, lets[e["hid"]], src, lets, depth)
        return False, []
    if k == "field":
        return _key_ops(P, e["e"], src, lets, depth)
    if k in ("cast", "try"):
        return _key_ops(P, e["e"], src, lets, depth)
    if k == "index":
        r, ops = _key_ops(P, e["e"], src, lets, depth)
        i = ir.unparen(e["i"])
        lo = None
        if i.get("k") == "struct" and (i.get("q") or "").endswith("RangeFrom") and len(i.get("fields", ())) == 1:
            lo = ir.const_eval(i["fields"][0]["e"], {})
        if lo not in (0, 1):
            ops = ops + ["slice %s" % (ir.place_str(e) or "[..]")]
        return r, ops
    if k == "mcall":
        r, ops = _key_ops(P, e["recv"], src, lets, depth)
        nm = e.get("name")
        if nm in KEY_PURE and not e.get("a"):
            return r, ops
        if nm in ("unwrap", "expect", "unwrap_or", "unwrap_or_default") :
            return r, ops
        if nm == "strip_prefix" and e.get("a") and ir.const_eval_str(e["a"][0]) == "/":
            return r, ops
        if nm == "strip_prefix" and e.get("a") and ir.strip(e["a"][0]).get("k") == "lit" and ir.strip(e["a"][0]).get("v") in ("/", "'/'"):
            return r, ops
        return r, ops + [nm + "(..)"] if r else ops
    if k == "call":
        q = e.get("q") or ""
        if q.endswith(("::from", "::into", "Some::{Ctor#0}", "::as_ref", "::borrow", "::deref")) and len(e.get("a", ())) == 1:
            return _key_ops(P, e["a"][0], src, lets, depth)
        cal = P.fn(q)
        rooted_args = [(i, a) for i, a in enumerate(e.get("a", ())) if _key_ops(P, a, src, lets, depth)[0]]
        if not rooted_args:
            return False, []
        ops = []
        for _, a in rooted_args:
            ops += _key_ops(P, a, src, lets, depth)[1]
        if cal is not None and depth < 3:
            # look into the helper: its value as a function of the parameters that carry the request
            params = [x for p_ in cal.get("params", ()) for x in ir.pat_binds(p_)]
            blk = ir.fn_block(cal)
            tail = blk.get("tail") if blk.get("k") == "block" else blk
            if tail is not None and len(params) == len(e.get("a", ())):
                src2 = {params[i]["hid"] for i, _ in rooted_args}
                lets2 = {}
                for n in ir.walk_nodes(blk):
                    if n.get("k") == "let" and "init" in n and n["pat"].get("k") == "bind":
                        lets2[n["pat"]["hid"]] = n["init"]
                r2, ops2 = _key_ops(P, tail, src2, lets2, depth + 1)
                return True, ops + ["%s: %s" % (q.rsplit("::", 1)[-1], o) for o in ops2]
        return True, ops + [q.rsplit("::", 1)[-1] + "(..)"]
    if k == "block":
        if e.get("stmts"):
            return True, ["block"]
        return _key_ops(P, e.get("tail"), src, lets, depth)
    if k in ("lit",):
        return False, []
    # anything else built from the request (format!, if/match expressions, closures)
    rooted = any(y.get("k") == "path" and y.get("r") == "local" and y.get("hid") in src for y in ir.walk_nodes(e))
    return rooted, (["%s expression" % k] if rooted else [])


def exact_key_rule(ck, P, b, urlh):
    lets = {}
    for n in ir.walk_nodes(b["body"]):
        if n.get("k") == "let" and "init" in n and n["pat"].get("k") == "bind":
            lets[n["pat"]["hid"]] = n["init"]
    looks = [n for n in ir.walk_nodes(b["body"]) if n.get("k") == "mcall" and n.get("name") in ("get", "get_mut", "contains_key", "get_key_value") and n.get("a") and
             ("HashMap" in (ir.strip(n["recv"]).get("t") or "") or "BTreeMap" in (ir.strip(n["recv"]).get("t") or "")) and
             ir.place_str(n["recv"]).startswith("self.")]
    if not ck.check(bool(looks), "R-EXACT-KEY", b["q"] + "|lookup", "the source answers from a map held by self", "no map lookup on self found in a source without filesystem access", ir.loc(b)):
        return
    for j, n in enumerate(looks):
        rooted, ops = _key_ops(P, n["a"][0], {urlh}, lets)
        ck.check(rooted and not ops, "R-EXACT-KEY", "%s|key#%d" % (b["q"], j + 1),
                 "the lookup key is the request path itself (at most its single leading '/' removed): no segment is dropped, trimmed or rewritten",
                 ("the lookup key is derived from the request path through %s: different request paths (`/../x`, `//x`, `/./x`) collapse onto the entry `x`, "
                  "so paths that leave the archive root are answered with 200" % ops) if rooted else "the lookup key is not derived from the request path", ir.loc(n))


REWRITERS = ("with_file_name", "set_file_name", "with_extension", "set_extension", "with_added_extension", "add_extension", "pop", "parent")


def component_rewrite_rule(ck, P):
    """R-TAINT-FS|component-rewrite: a request path that passed the component guard is only ever EXTENDED (push / join of a literal, a
    suffix appended to its text).  Path methods that replace or drop the last component work on Path::file_name(), which skips a
    trailing `.` or `/`: on `<root>/.` they rewrite the ROOT's own name, so `<root>/.` + with_file_name("site.gz") is `<parent>/site.gz`.
    No such method may be applied to a path in the module that serves files from a folder (helpers included)."""
    mods = ("versatiles/src/tools/server/sources/static_source_folder.rs",)
    n, bad = 0, []
    for b in P.bodies:
        if b["s"][0] not in mods or "::tests::" in b["q"]:
            continue
        n += 1
        for y in ir.walk_nodes(b["body"]):
            if y.get("k") == "mcall" and y.get("name") in REWRITERS and (y.get("q") or "").startswith(("std::path::Path::", "std::path::PathBuf::")):
                bad.append((y["name"], b["q"].rsplit("::", 1)[-1], ir.loc(y)))
    ck.anchor("R-TAINT-FS", "bodies of the folder source module", n, 3)
    ck.check(not bad, "R-TAINT-FS", "Folder|component-rewrite", "paths in the folder source are only extended, never have their last component replaced or dropped",
             "the folder source rewrites the last component of a path (%s): Path::file_name() skips a trailing `.`, so for a request that addresses the root itself the "
             "ROOT's name is replaced and the file opened lies next to the root, outside it" % [(a, f) for a, f, _ in bad[:3]], bad[0][2] if bad else None)


def rules(ck, P):
    impls = P.impls_of("::StaticSourceTrait")
    if not ck.anchor("R-TAINT-FS", "impl StaticSourceTrait", impls, 2):
        return
    component_rewrite_rule(ck, P)
    n_sinks = 0
    for i in impls:
        b = P.impl_method(i, "get_data")
        if b is None:
            ck.violation("R-TAINT-FS", "anchor-missing|get_data of " + i["self_t"], "no get_data body")
            continue
        params = [x for p in b["params"] for x in ir.pat_binds(p)]
        urlp = [x for x in params if x["t"].endswith("::Url")]
        if not urlp:
            ck.violation("R-TAINT-FS", "anchor-missing|url param of " + b["q"], "get_data has no Url parameter")
            continue
        it = Interp(P, ck, b["q"])
        env = {urlp[0]["hid"]: TAINT}
        it.ev(ir.fn_block(b), env)
        ords = {}
        if not it.sinks:
            ck.ok("R-TAINT-FS", b["q"] + "|no-sink", "no filesystem content sink is reachable with request-derived data (lookup in a map built at start-up)", ir.loc(b))
            exact_key_rule(ck, P, b, urlp[0]["hid"])
        for (n, st, q) in it.sinks:
            n_sinks += 1
            ords[q] = ords.get(q, 0) + 1
            key = "%s|%s#%d" % (b["q"], q, ords[q])
            if st == TAINT:
                ck.violation("R-TAINT-FS", key,
                             "request-derived path reaches `%s` without passing a component sanitiser or canonicalize+starts_with(root): "
                             "`..`/absolute segments escape the configured root (a lexical starts_with on the joined path is not a sanitiser)" % q, ir.loc(n))
            elif st == SAN:
                ck.ok("R-TAINT-FS", key, "path reaching `%s` passed a dominating sanitiser guard" % q, ir.loc(n))
            else:
                ck.ok("R-TAINT-FS", key, "`%s` argument is not request-derived" % q, ir.loc(n))
    ck.anchor("R-TAINT-FS", "content sinks on request paths", n_sinks, 1)

    # ---- R-PREFIX: StaticSource::get_data forwards strip_prefix(self.prefix) of the request url and nothing else
    ss = [b for b in P.bodies if b["q"].endswith("::static_source::StaticSource::get_data")]
    if ck.anchor("R-PREFIX", "StaticSource::get_data", ss, 1):
        b = ss[0]
        urlh = [x for p in b["params"] for x in ir.pat_binds(p) if x["t"].endswith("::Url")][0]["hid"]
        fw = [n for n in ir.walk_nodes(b["body"]) if n.get("k") == "mcall" and n.get("name") == "get_data" and (n.get("q") or "").endswith("StaticSourceTrait::get_data")]
        ok = False
        if len(fw) == 1:
            a0 = fw[0]["a"][0]
            lets_ = {y["pat"]["hid"]: y["init"] for y in ir.walk_nodes(b["body"]) if y.get("k") == "let" and "init" in y and y["pat"].get("k") == "bind"}
            h0 = ir.local_hid(ir.strip(ir.strip(a0).get("e", a0)) if ir.strip(a0).get("k") == "ref" else ir.strip(a0))
            if h0 in lets_:
                a0 = lets_[h0]
            ok = ir.contains(a0, lambda y: y.get("k") == "mcall" and y.get("name") == "strip_prefix" and ir.local_hid(y["recv"]) == urlh
                             and ir.place_str(y["a"][0]) == "self.prefix")
        ck.check(ok, "R-PREFIX", b["q"], "the inner source receives url.strip_prefix(self.prefix)", "the inner source does not receive the prefix-stripped request url", ir.loc(b))
        guarded = ir.contains(b["body"], lambda y: y.get("k") == "if" and ir.diverges(y["then"]) and ir.contains(y["c"], lambda z: z.get("k") == "mcall" and z.get("name") == "starts_with" and ir.local_hid(z["recv"]) == urlh))
        if not guarded and len(fw) == 1:
            # the same guard in positive form: the forwarding call sits in the branch where url.starts_with(prefix) holds
            for y, ps_, _ in ir.walk(b["body"]):
                if y is fw[0]:
                    for p_ in ps_:
                        if p_.get("k") == "if" and ir.contains(p_["then"], lambda z: z is y):
                            c_ = ir.unparen(ir.strip(p_["c"]))
                            if c_.get("k") == "mcall" and c_.get("name") == "starts_with" and ir.local_hid(c_["recv"]) == urlh and ir.place_str(c_["a"][0]) == "self.prefix":
                                guarded = True
        ck.check(guarded, "R-PREFIX", b["q"] + "|guard", "requests outside the configured URL prefix are rejected first", "no prefix guard before forwarding", ir.loc(b))

    # ---- R-NO-DECODE: nothing on the request path percent-decodes after the sanitiser
    dec = []
    for b in P.bodies:
        if b["crate"] != "versatiles":
            continue
        for n in ir.walk_nodes(b["body"]):
            q = (n.get("q") or "") if n.get("k") in ("call", "mcall") else ""
            if "percent_decode" in q or "urlencoding::decode" in q or "url::form_urlencoded" in q:
                dec.append((b["q"], ir.loc(n)))
    ck.check(not dec, "R-NO-DECODE", "server", "no percent-decoding call in the server crate (the raw path is matched literally)",
             "percent-decoding on the request path: decoded `..` segments bypass a sanitiser applied earlier: %s" % dec[:3])


def mutants(P):
    out = []
    for i in P.impls_of("::StaticSourceTrait"):
        b = P.impl_method(i, "get_data")
        if b is None or not ir.contains(b["body"], lambda y: y.get("q") in CONTENT_SINKS):
            continue
        q = b["q"]

        def drop_guard(body):
            return m_drop_stmt(body, lambda n: n.get("k") == "mcall" and n.get("q") == "std::path::Path::components")
        out.append(("folder source: component guard removed", q, drop_guard))

        def weaken_guard(body):
            # the closure accepts ParentDir as well
            def fn(n):
                for a in n["arms"]:
                    if a["pat"].get("k") == "wild":
                        a["body"] = copy.deepcopy(n["arms"][0]["body"])
            return m_replace(body, lambda n: n.get("k") == "match" and any("Component::Normal" in (a["pat"].get("q") or str(a["pat"])) for a in n["arms"]), fn)
        out.append(("folder source: component guard accepts every component", q, weaken_guard))
    return out
