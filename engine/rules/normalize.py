"""Normal forms: a second, equivalent reading of the program for rules that did not accept the first.

The rules of this framework were written against the shapes the repository uses today (a `for` loop with an `if` inside, `if let Some(x) = ..`,
nested `if`s).  A maintainer can write the same computation as an iterator chain, an Option combinator or a row of guard clauses; the
program means the same, and a rule that reports it raises a false alarm.  Teaching every rule every spelling does not scale, so the
spellings are rewritten into ONE form before the rules look a second time (report.evaluate): a violation is reported only when the rule
also fails on the normalised program.  Every rewrite below is a semantics-preserving source-to-source identity of Rust (stated with the
conditions under which it is applied); none of them deletes or reorders an effect.

  N-FOREACH   it.for_each(|P| B);                       ->  for P in it { B }                  (B has no `return`)
  N-MAP       for P in it.map(|Q| e) { B }              ->  for Q in it { let P = e; B }       (e has no `return` / `?`)
  N-FILTER    for P in it.filter(|Q| c) { B }           ->  for P+Q in it { if c { B } }       (patterns merged position by position; c has no `return` / `?`)
  N-REFALIAS  let r = &mut a.b;  .. *r ..               ->  .. a.b ..                          (r immutable, a not re-assigned)
  N-TUPLELET  let (a, b) = (e1, e2);                    ->  let a = e1; let b = e2;
  N-LETITER   let X = it.adaptor(..); for P in X { B }  ->  for P in it.adaptor(..) { B }      (X has no other use)
  N-COLLECT   let X = it.map(|Q| { S; Ok(v) }).collect::<Result<Vec<_>>>()?;
                                                        ->  let mut X = Vec::new(); for Q in it { S; X.push(v); }
              let X = it.map(|Q| e).collect::<Vec<_>>();->  let mut X = Vec::new(); for Q in it { X.push(e); }
  N-SUM       let X: int = it.map(|Q| e).sum();         ->  let mut X = 0; for Q in it { X += e; }
  N-FOLD      it.fold(init, |A, X| e)                   ->  { let mut A = init; for X in it { A = e; } A }     (try_fold likewise under `?` or as a fn's result)
  N-OPT       o.is_some_and(|P| b)                      ->  if let Some(P) = o { b } else { false }
              o.map_or(d, |P| b)   (d literal / path)   ->  if let Some(P) = o { b } else { d }
              o.map(|P| b)         (Option receiver)    ->  if let Some(P) = o { Some(b) } else { None }
  N-MATCHOPT  match o { Some(P) => A, None | _ => B }   ->  if let Some(P) = o { A } else { B }     (also Ok(P) / Err(_) -> if let Ok(P))
  N-LETELSE   { ..; let P = e else { DIV }; REST }      ->  { ..; if let P = e { REST } else { DIV } }
  N-GUARD     { ..; if c { <diverges> } REST }          ->  { ..; if c { <diverges> } else { REST } }
              if c { continue } else { E }  (loop body tail)  ->  if !c { E };   a `continue` that ends a loop body is dropped
  N-INLINE    let x = e; S   (x introduced by N-MAP, used once, in S, S is the next statement)   ->  S[x := e]

  N-CALL      a call to a small function of the same type / module is replaced by that function's body, parameters substituted:
              helper(a, b)?        (helper -> Result, same error type, no explicit `return`)   ->  { S[p := a, q := b]; v }   if the helper ends in Ok(v)
                                                                                                   { S[..]; tail? }            otherwise
              helper(a, b)         (helper has no `return` and no `?`)                         ->  { S[..]; tail }
              the same under `.await` for a plain `async fn`.  A parameter whose argument is a place expression (local, field,
              `&` / `&mut` of one, `.as_ref()`) and which the helper does not re-assign is substituted; any other is bound with `let`.
              Locals of the helper are renumbered.  Depth 1 (helpers are taken as written, calls inside them stay); inlining runs before the other rewrites.

`normalise_program(crates)` returns deep copies; the facts on disk and the first reading are untouched.
"""
import copy

from . import ir

SOME = "core::option::Option::Some::{Ctor#0}"
NONE = "core::option::Option::None::{Ctor#0}"
OKQ = "core::result::Result::Ok::{Ctor#0}"
ERRQ = "core::result::Result::Err::{Ctor#0}"


def _is_iter(n, name):
    return isinstance(n, dict) and n.get("k") == "mcall" and n.get("name") == name and (n.get("q") or "").endswith("iterator::Iterator::" + name)


def _closure_arg(n, i=0, nparams=1):
    a = n.get("a") or ()
    if len(a) <= i:
        return None
    c = a[i]
    if c.get("k") == "closure" and len(c.get("params", ())) == nparams and c.get("ck", "Closure") in ("Closure", "Closure(Closure)"):
        return c
    return None


def _has(n, kinds, stop_closure=True):
    """does the expression contain a node of one of `kinds` (not looking into nested closures)"""
    stack = [n]
    while stack:
        x = stack.pop()
        if x.get("k") in kinds:
            return True
        if stop_closure and x.get("k") == "closure" and x is not n:
            continue
        stack.extend(ir.children(x))
    return False


def _blk(e):
    if e.get("k") == "block" and not e.get("label") and not e.get("unsafe") and not e.get("async"):
        return e
    return {"k": "block", "s": e.get("s"), "stmts": [], "tail": e, "t": e.get("t"), "gen": True}


def _stmts_and_tail(b):
    b = _blk(b)
    return list(b.get("stmts", ())), b.get("tail")


def _as_stmt(e):
    if e.get("k") in ("let", "semi", "item"):
        return e
    return {"k": "semi", "e": e, "s": e.get("s"), "gen": True}


def _unref_pat(p):
    while p.get("k") == "ref":
        p = p["p"]
    return p


def _merge_pats(p, q):
    """one pattern that binds what both bind, or None.  Returns (pattern, [(alias hid-bearing bind of q, bind of p)])"""
    p0, q0 = p, _unref_pat(q)
    if q0.get("k") == "wild":
        return p0, []
    if p0.get("k") == "wild":
        if q0.get("k") == "bind" and (q0.get("t") or "").startswith("&"):
            q0 = dict(q0, t=q0["t"][1:].lstrip())      # the filter closure binds `&component`; in the loop pattern it is the component
        return q0, []
    if p0.get("k") == "bind" and q0.get("k") == "bind" and "sub" not in p0 and "sub" not in q0:
        return p0, [(q0, p0)]
    if p0.get("k") == "tuple" and q0.get("k") == "tuple" and len(p0.get("ps", ())) == len(q0.get("ps", ())) and "rest" not in p0 and "rest" not in q0:
        ps, al = [], []
        for a, b in zip(p0["ps"], q0["ps"]):
            m = _merge_pats(a, b)
            if m is None:
                return None
            ps.append(m[0])
            al.extend(m[1])
        out = dict(p0)
        out["ps"] = ps
        return out, al
    return None


def _local(bind, s=None):
    return {"k": "path", "s": s, "t": bind.get("t"), "r": "local", "name": bind["name"], "hid": bind["hid"], "gen": True}


class Normaliser:
    def __init__(self, guard=True):
        self.applied = {}
        self.guard = guard

    def hit(self, name):
        self.applied[name] = self.applied.get(name, 0) + 1

    # ------------------------------------------------------------ generic bottom-up rewrite
    def rw(self, n, in_loop=False):
        if isinstance(n, list):
            return [self.rw(x, in_loop) for x in n]
        if not isinstance(n, dict):
            return n
        k = n.get("k")
        out = {}
        for key, v in n.items():
            if isinstance(v, (dict, list)) and key not in ("pat", "params", "caps", "s", "ps", "fields_pat"):
                if k in ("for", "while", "loop") and key == "body":
                    out[key] = self.rw(v, True)
                elif k == "closure" and key == "body":
                    out[key] = self.rw(v, False)
                elif k == "match" and key == "arms":
                    out[key] = [dict(a, body=self.rw(a["body"], in_loop), **({"guard": self.rw(a["guard"], in_loop)} if "guard" in a else {})) for a in v]
                elif k == "struct" and key == "fields":
                    out[key] = [dict(f, e=self.rw(f["e"], in_loop)) for f in v]
                else:
                    out[key] = self.rw(v, in_loop)
            else:
                out[key] = v
        n = out
        if k == "mcall":
            n = self.opt_combinators(n)
            k = n.get("k")
        if k == "mcall" and _is_iter(n, "fold"):
            n = self.fold(n, None)
            k = n.get("k")
        if k == "try" and _is_iter(n["e"], "try_fold"):
            n = self.fold(n["e"], n)
            k = n.get("k")
        if k == "match":
            n = self.match_option(n)
            k = n.get("k")
        if k == "block":
            n = self.block(n)
        if k == "for":
            n = self.for_loop(n)
        if k in ("for", "while", "loop") and n.get("body", {}).get("k") == "block":
            n = dict(n)
            n["body"] = self.loop_tail(n["body"])
        return n

    # ------------------------------------------------------------ N-FOREACH / N-COLLECT / N-GUARD / N-INLINE on statement lists
    def block(self, b):
        stmts = []
        src = list(b.get("stmts", ()))
        tail = b.get("tail")
        changed = False
        # N-REFALIAS: let r = &mut a.b.c;  .. *r ..   ->   .. a.b.c ..      (r immutable binding, the place is a field path of a local)
        j = 0
        while j < len(src):
            st = src[j]
            if st.get("k") == "let" and "init" in st and "els" not in st and st["pat"].get("k") == "bind" and "sub" not in st["pat"] and \
                    "Mut" not in st["pat"].get("mode", "").split(",")[-1] and st["init"].get("k") == "ref":
                pl = st["init"]["e"]
                x_ = pl
                while x_.get("k") == "field":
                    x_ = x_["e"]
                if pl.get("k") == "field" and x_.get("k") == "path" and x_.get("r") == "local":
                    h = st["pat"]["hid"]
                    root_h = x_["hid"]
                    rest = src[j + 1:] + ([tail] if tail is not None else [])
                    reassigned = any(y.get("k") == "assign" and ir.local_hid(y["l"]) == root_h and y["l"].get("k") == "path" for z in rest for y in ir.walk_nodes(z))

                    def sub_ref(n):
                        if isinstance(n, list):
                            return [sub_ref(x) for x in n]
                        if not isinstance(n, dict):
                            return n
                        if n.get("k") == "un" and n.get("op") == "*" and n["e"].get("k") == "path" and n["e"].get("r") == "local" and n["e"].get("hid") == h:
                            return pl
                        if n.get("k") == "path" and n.get("r") == "local" and n.get("hid") == h:
                            return st["init"]
                        return {k_: (sub_ref(v) if isinstance(v, (dict, list)) and k_ not in ("pat", "params", "s", "ps", "caps") else v) for k_, v in n.items()}
                    if not reassigned:
                        new_rest = sub_ref(rest)
                        if tail is not None:
                            tail = new_rest[-1]
                            new_rest = new_rest[:-1]
                        src[j:] = new_rest
                        self.hit("N-REFALIAS")
                        changed = True
                        continue
            j += 1
        # N-TUPLELET: let (a, b) = (e1, e2);   ->   let a = e1; let b = e2;      (component patterns are plain bindings / `_`; same evaluation order)
        j = 0
        while j < len(src):
            st = src[j]
            if st.get("k") == "let" and "init" in st and "els" not in st and st["pat"].get("k") == "tuple" and ir.unparen(st["init"]).get("k") == "tup":
                ps, es = st["pat"].get("ps", ()), ir.unparen(st["init"]).get("es", ())
                if len(ps) == len(es) and all(p_.get("k") in ("bind", "wild") and "sub" not in p_ for p_ in ps) and "rest" not in st["pat"]:
                    src[j:j + 1] = [{"k": "let", "s": st.get("s"), "pat": p_, "init": e_, "gen": True} for p_, e_ in zip(ps, es)]
                    self.hit("N-TUPLELET")
                    changed = True
                    j += len(ps)
                    continue
            j += 1
        # N-LETITER: let X = <iterator chain>; for P in X { .. }   ->   for P in <iterator chain> { .. }     (X not used elsewhere)
        j = 0
        while j + 1 < len(src):
            st, nx = src[j], src[j + 1]
            fx = nx["e"] if nx.get("k") == "semi" else nx
            if st.get("k") == "let" and "init" in st and "els" not in st and st["pat"].get("k") == "bind" and fx.get("k") == "for" and \
                    ir.local_hid(fx["iter"]) == st["pat"]["hid"] and fx["iter"].get("k") == "path" and \
                    ir.unparen(st["init"]).get("k") == "mcall" and (ir.unparen(st["init"]).get("q") or "").split("::")[-2:-1] == ["Iterator"]:
                h = st["pat"]["hid"]
                uses = sum(1 for z in src[j + 1:] + ([tail] if tail is not None else []) for y in ir.walk_nodes(z) if y.get("k") == "path" and y.get("r") == "local" and y.get("hid") == h)
                if uses == 1:
                    nf = self.for_loop(dict(fx, iter=st["init"]))
                    src[j:j + 2] = [dict(nx, e=nf) if nx.get("k") == "semi" else nf]
                    self.hit("N-LETITER")
                    changed = True
                    continue
            j += 1
        for st in src:
            x = st["e"] if st.get("k") == "semi" else st
            # it.for_each(|P| B);
            if x.get("k") == "mcall" and _is_iter(x, "for_each"):
                c = _closure_arg(x)
                if c is not None and not _has(c["body"], ("ret",)):
                    self.hit("N-FOREACH")
                    loop = {"k": "for", "s": x.get("s"), "t": "()", "pat": c["params"][0], "iter": x["recv"], "body": self.loop_tail(_blk(c["body"])), "gen": True}
                    stmts.append(_as_stmt(self.for_loop(loop)))
                    changed = True
                    continue
            if st.get("k") == "let" and "init" in st and "els" not in st and st["pat"].get("k") == "bind":
                r = self.collect(st) or self.fold_sum(st)
                if r is not None:
                    stmts.extend(r)
                    changed = True
                    continue
            stmts.append(st)
        # a trailing for_each in tail position of a unit block
        if tail is not None and tail.get("k") == "mcall" and _is_iter(tail, "for_each"):
            c = _closure_arg(tail)
            if c is not None and not _has(c["body"], ("ret",)):
                self.hit("N-FOREACH")
                loop = {"k": "for", "s": tail.get("s"), "t": "()", "pat": c["params"][0], "iter": tail["recv"], "body": self.loop_tail(_blk(c["body"])), "gen": True}
                stmts.append(_as_stmt(self.for_loop(loop)))
                tail = None
                changed = True
        # N-LETELSE: let P = e else { DIV };  REST   ->   if let P = e { REST } else { DIV }
        for i, st in enumerate(stmts):
            if st.get("k") == "let" and "els" in st and "init" in st and (i + 1 < len(stmts) or tail is not None):
                rest = {"k": "block", "s": st.get("s"), "stmts": stmts[i + 1:], "gen": True, "um": True}
                if tail is not None:
                    rest["tail"] = tail
                rest = self.block(rest)
                self.hit("N-LETELSE")
                t_ = (tail or {}).get("t", "()") if tail is not None else "()"
                nx = {"k": "if", "s": st.get("s"), "t": t_, "c": {"k": "letx", "s": st.get("s"), "t": "bool", "pat": st["pat"], "init": st["init"]},
                      "then": rest, "else": _blk(st["els"]), "gen": True}
                nb = dict(b)
                nb["stmts"] = stmts[:i]
                if tail is not None:
                    nb["tail"] = nx
                else:
                    nb["stmts"] = stmts[:i] + [_as_stmt(nx)]
                    nb.pop("tail", None)
                return self.block(nb) if self.guard else nb
        # N-GUARD: if c { diverges }  REST   ->   if c { diverges } else { REST }
        for i, st in enumerate(stmts if self.guard else ()):
            x = st["e"] if st.get("k") == "semi" else st
            if x.get("k") == "if" and "else" not in x and "m" not in x and ir.diverges(x["then"]) and (i + 1 < len(stmts) or tail is not None) and x["c"].get("k") != "letx":
                rest = {"k": "block", "s": x.get("s"), "stmts": stmts[i + 1:], "gen": True, "um": True}
                if tail is not None:
                    rest["tail"] = tail
                    rest["t"] = tail.get("t")
                rest = self.block(rest)
                self.hit("N-GUARD")
                nx = dict(x)
                nx["else"] = rest
                nx["t"] = rest.get("t", "()")
                nb = dict(b)
                nb["stmts"] = stmts[:i]
                if tail is not None:
                    nb["tail"] = nx
                else:
                    nb["stmts"] = stmts[:i] + [_as_stmt(nx)]
                    nb.pop("tail", None)
                return nb
        stmts2 = self.inline_gen_lets(stmts, tail)
        if stmts2 is not None:
            stmts, tail = stmts2
            changed = True
        if not changed:
            return b
        nb = dict(b)
        nb["stmts"] = stmts
        if tail is not None:
            nb["tail"] = tail
        else:
            nb.pop("tail", None)
        return nb

    def inline_gen_lets(self, stmts, tail):
        """N-INLINE for lets that N-MAP introduced: `let x = e; S` with x used exactly once, inside S, not under a closure / loop"""
        did = False
        i = 0
        stmts = list(stmts)
        while i < len(stmts):
            st = stmts[i]
            if st.get("k") == "let" and st.get("gen_map") and st["pat"].get("k") == "bind" and "init" in st:
                h = st["pat"]["hid"]
                nxt = stmts[i + 1] if i + 1 < len(stmts) else tail
                later = stmts[i + 2:] + ([tail] if (tail is not None and i + 1 < len(stmts)) else [])
                if nxt is not None:
                    uses = [y for y in ir.walk_nodes(nxt) if y.get("k") == "path" and y.get("r") == "local" and y.get("hid") == h]
                    used_later = any(y.get("k") == "path" and y.get("r") == "local" and y.get("hid") == h for z in later for y in ir.walk_nodes(z))
                    captured = any(y.get("k") == "closure" and any(c_.get("hid") == h for c_ in y.get("caps", ())) for y in ir.walk_nodes(nxt))
                    looped = any(y.get("k") in ("for", "while", "loop") for y in ir.walk_nodes(nxt))
                    if len(uses) == 1 and not used_later and not captured and not looped:
                        new = self._subst(nxt, h, st["init"])
                        if i + 1 < len(stmts):
                            stmts[i + 1] = new
                        else:
                            tail = new
                        del stmts[i]
                        self.hit("N-INLINE")
                        did = True
                        continue
            i += 1
        return (stmts, tail) if did else None

    def _subst(self, n, h, e):
        if isinstance(n, list):
            return [self._subst(x, h, e) for x in n]
        if not isinstance(n, dict):
            return n
        if n.get("k") == "path" and n.get("r") == "local" and n.get("hid") == h:
            return e
        if n.get("k") == "ref" and ir.local_hid(n) == h and n["e"].get("k") == "path" and e.get("k") == "ref":
            return e        # &x with x = &y
        return {key: (self._subst(v, h, e) if isinstance(v, (dict, list)) and key not in ("pat", "params", "caps", "s") else v) for key, v in n.items()}

    def fold_sum(self, st):
        """let X: int = it.map(|Q| e).sum();   ->   let mut X = 0; for Q in it { X += e; }     (integer X: wrapping / overflow behaviour of
        Sum for integers is that of `+`)"""
        init = ir.unparen(st["init"])
        if not (_is_iter(init, "sum") and _is_iter(init["recv"], "map")):
            return None
        t = st["pat"].get("t", "")
        if t not in ("u8", "u16", "u32", "u64", "usize", "i8", "i16", "i32", "i64", "isize", "u128", "i128"):
            return None
        mp = init["recv"]
        c = _closure_arg(mp)
        if c is None or _has(c["body"], ("ret", "try")):
            return None
        s_ = st.get("s")
        pat = dict(st["pat"])
        pat["mode"] = "BindingMode(No, Mut)"
        add = {"k": "assignop", "s": c["body"].get("s") or s_, "t": "()", "op": "+=", "l": _local(pat, s_), "r": c["body"], "gen": True}
        body = {"k": "block", "s": c["body"].get("s"), "stmts": [_as_stmt(add)], "gen": True}
        loop = {"k": "for", "s": s_, "t": "()", "pat": c["params"][0], "iter": mp["recv"], "body": body, "gen": True}
        self.hit("N-SUM")
        nl = dict(st)
        nl["pat"] = pat
        nl["init"] = {"k": "lit", "s": s_, "t": t, "lk": "int", "v": 0, "gen": True}
        return [nl, _as_stmt(self.for_loop(loop))]

    def collect(self, st):
        init = st["init"]
        is_try = init.get("k") == "try"
        cx = init["e"] if is_try else init
        if not (cx.get("k") == "mcall" and _is_iter(cx, "collect") and _is_iter(cx["recv"], "map")):
            return None
        mp = cx["recv"]
        c = _closure_arg(mp)
        if c is None or _has(c["body"], ("ret",)):
            return None
        vt = st["pat"].get("t", "")
        if not vt.startswith(("std::vec::Vec<", "alloc::vec::Vec<")):
            return None
        ss, tl = _stmts_and_tail(c["body"])
        if tl is None:
            return None
        if is_try:
            if not (tl.get("k") == "call" and (tl.get("q") or "") == OKQ and len(tl.get("a", ())) == 1):
                return None
            if not (cx.get("t", "").startswith(("std::result::Result<std::vec::Vec<", "core::result::Result<alloc::vec::Vec<"))):
                return None
            val = tl["a"][0]
            # every `?` inside the closure leaves the closure with Err, which collect::<Result<..>>()? hands to the caller: same as `?` in a loop
        else:
            if _has(c["body"], ("try",)):
                return None
            val = tl
        s = st.get("s")
        pat = dict(st["pat"])
        pat["mode"] = "BindingMode(No, Mut)"
        elem = vt[vt.index("<") + 1:-1] if vt.endswith(">") else "?"
        newv = {"k": "call", "s": s, "t": vt, "q": "alloc::vec::Vec::new", "d": "alloc::vec::{impl#0}::new", "a": [], "gen": True,
                "f": {"k": "path", "s": s, "r": "fn", "q": "alloc::vec::Vec::new", "t": "fn() -> " + vt}}
        push = {"k": "mcall", "s": val.get("s") or s, "t": "()", "name": "push", "q": "alloc::vec::Vec::push", "d": "alloc::vec::{impl#43}::push",
                "ga": "[%s, std::alloc::Global]" % elem, "recv": _local(pat, s), "a": [val], "gen": True}
        body = {"k": "block", "s": c["body"].get("s"), "stmts": ss + [_as_stmt(push)], "gen": True}
        loop = {"k": "for", "s": s, "t": "()", "pat": c["params"][0], "iter": mp["recv"], "body": body, "gen": True}
        self.hit("N-COLLECT")
        nl = dict(st)
        nl["pat"] = pat
        nl["init"] = newv
        return [nl, _as_stmt(self.for_loop(loop))]

    # ------------------------------------------------------------ N-MAP / N-FILTER
    def for_loop(self, f):
        f = dict(f)
        while True:
            it = ir.unparen(f["iter"])
            if _is_iter(it, "map"):
                c = _closure_arg(it)
                if c is None or _has(c["body"], ("ret", "try")):
                    break
                self.hit("N-MAP")
                let = {"k": "let", "s": c["body"].get("s"), "pat": f["pat"], "init": c["body"], "gen": True, "gen_map": True}
                ss, tl = _stmts_and_tail(f["body"])
                body = {"k": "block", "s": f["body"].get("s"), "stmts": [let] + ss, "gen": True}
                if tl is not None:
                    body["tail"] = tl
                body = self.block(body)
                f["pat"], f["iter"], f["body"] = c["params"][0], it["recv"], body
                continue
            if _is_iter(it, "filter"):
                c = _closure_arg(it)
                if c is None or _has(c["body"], ("ret", "try")):
                    break
                m = _merge_pats(f["pat"], c["params"][0])
                if m is None:
                    break
                pat, aliases = m
                self.hit("N-FILTER")
                lets = [{"k": "let", "s": c.get("s"), "pat": qb, "init": {"k": "ref", "s": c.get("s"), "t": qb.get("t"), "e": _local(pb, c.get("s"))}, "gen": True} for qb, pb in aliases]
                cond = c["body"]
                if cond.get("k") == "block" and not cond.get("stmts") and cond.get("tail") is not None:
                    cond = cond["tail"]
                # the filter closure sees `&item`: `*index` there is `index` of the loop pattern
                fh = {x["hid"] for x in ir.pat_binds(c["params"][0])}

                def unstar(n):
                    if isinstance(n, list):
                        return [unstar(x) for x in n]
                    if not isinstance(n, dict):
                        return n
                    if n.get("k") == "un" and n.get("op") == "*" and n["e"].get("k") == "path" and n["e"].get("r") == "local" and n["e"].get("hid") in fh:
                        return dict(n["e"], t=n.get("t"))
                    return {k_: (unstar(v) if isinstance(v, (dict, list)) and k_ not in ("pat", "params", "s", "ps", "caps") else v) for k_, v in n.items()}
                cond = unstar(cond)
                iff = {"k": "if", "s": c.get("s"), "t": "()", "c": cond, "then": _blk(f["body"]), "gen": True}
                body = {"k": "block", "s": f["body"].get("s"), "stmts": lets + [_as_stmt(iff)], "gen": True}
                f["pat"], f["iter"], f["body"] = pat, it["recv"], body
                continue
            break
        return f

    # ------------------------------------------------------------ N-GUARD inside loop bodies
    def loop_tail(self, body):
        """drop a `continue` that ends the loop body; `if c { continue } else { E }` in tail position -> `if !c { E }`"""
        if body.get("k") != "block":
            return body
        stmts = list(body.get("stmts", ()))
        tail = body.get("tail")
        last = tail if tail is not None else (stmts[-1] if stmts else None)
        if last is None:
            return body
        x = last["e"] if last.get("k") == "semi" else last
        new = None
        if x.get("k") == "continue" and not x.get("label"):
            self.hit("N-GUARD")
            nb = dict(body)
            if tail is not None:
                nb.pop("tail")
            else:
                nb["stmts"] = stmts[:-1]
            return self.loop_tail(nb)
        if x.get("k") == "if" and x["c"].get("k") != "letx":
            th = self.loop_tail(_blk(x["then"]))
            el = self.loop_tail(_blk(x["else"])) if "else" in x else None
            nx = dict(x)
            nx["then"] = th
            if el is not None:
                nx["else"] = el
            empty_then = not th.get("stmts") and th.get("tail") is None
            empty_else = el is not None and not el.get("stmts") and el.get("tail") is None
            if empty_else:
                nx.pop("else")
            elif empty_then and el is not None:
                nx = dict(nx)
                nx["c"] = negate(x["c"])
                nx["then"] = el
                nx.pop("else")
                self.hit("N-GUARD")
            new = nx
        elif x.get("k") == "if":
            nx = dict(x)
            nx["then"] = self.loop_tail(_blk(x["then"]))
            if "else" in x:
                nx["else"] = self.loop_tail(_blk(x["else"]))
                if not nx["else"].get("stmts") and nx["else"].get("tail") is None:
                    nx.pop("else")
            new = nx
        elif x.get("k") == "block":
            new = self.loop_tail(x)
        if new is None:
            return body
        nb = dict(body)
        if tail is not None:
            # a unit-typed `if` in tail position of a loop body may equally be a statement
            nb["tail"] = new
        else:
            nb["stmts"] = stmts[:-1] + [dict(last, e=new) if last.get("k") == "semi" else new]
        return nb

    # ------------------------------------------------------------ N-FOLD
    def fold(self, n, try_node, tail_ok=False):
        """it.fold(init, |A, X| body)          ->  { let mut A = init; for X in it { A = body; } A }
           it.try_fold(init, |A, X| body)?     ->  { let mut A = init; for X in it { A = body?; } A }
           it.try_fold(init, |A, X| body)      ->  { let mut A = init; for X in it { A = body?; } Ok(A) }   as the result of a fn with the same Result type"""
        if len(n.get("a", ())) != 2:
            return try_node or n
        c = _closure_arg(n, 1, nparams=2)
        if c is None or _has(c["body"], ("ret",)) or c["params"][0].get("k") != "bind" or "sub" in c["params"][0]:
            return try_node or n
        is_try = n.get("name") == "try_fold"
        if not is_try and _has(c["body"], ("try",)):
            return try_node or n
        s_ = n.get("s")
        acc = dict(c["params"][0])
        acc["mode"] = "BindingMode(No, Mut)"
        body = c["body"]
        if is_try:
            proto = try_node or {"k": "try", "s": s_, "t": acc.get("t")}
            body = dict(proto, e=body, t=acc.get("t"))
        asg = {"k": "assign", "s": s_, "t": "()", "l": _local(acc, s_), "r": body, "gen": True}
        loop = {"k": "for", "s": s_, "t": "()", "pat": c["params"][1], "iter": n["recv"], "body": {"k": "block", "s": s_, "stmts": [_as_stmt(asg)], "gen": True}, "gen": True}
        let = {"k": "let", "s": s_, "pat": acc, "init": n["a"][0], "gen": True}
        res = _local(acc, s_)
        if is_try and try_node is None:
            res = {"k": "call", "s": s_, "t": n.get("t"), "q": OKQ, "d": "core::result::Result::Ok::{constructor#0}", "a": [res], "gen": True,
                   "f": {"k": "path", "s": s_, "r": "ctor", "q": OKQ, "t": "fn"}}
        self.hit("N-FOLD")
        return {"k": "block", "s": s_, "stmts": [let, _as_stmt(self.for_loop(loop))], "tail": res, "t": (try_node or n).get("t"), "gen": True}

    # ------------------------------------------------------------ N-OPT
    def opt_combinators(self, n):
        nm, q = n.get("name"), n.get("q") or ""
        if not q.startswith("core::option::Option::"):
            return n
        s = n.get("s")
        recv = n["recv"]
        rt = (recv.get("ta") or recv.get("t") or "")

        def some_pat(p):
            return {"k": "tstruct", "q": SOME, "d": "core::option::Option::Some::{constructor#0}", "ps": [p]}

        def iflet(p, then, els, t):
            return {"k": "if", "s": s, "t": t, "c": {"k": "letx", "s": s, "t": "bool", "pat": some_pat(p), "init": recv}, "then": _blk(then), "else": _blk(els), "gen": True}
        if nm == "is_some_and":
            c = _closure_arg(n)
            if c is not None and not _has(c["body"], ("ret", "try")):
                self.hit("N-OPT")
                return iflet(c["params"][0], c["body"], {"k": "lit", "s": s, "t": "bool", "lk": "bool", "v": False}, "bool")
        if nm == "is_none_or":
            c = _closure_arg(n)
            if c is not None and not _has(c["body"], ("ret", "try")):
                self.hit("N-OPT")
                return iflet(c["params"][0], c["body"], {"k": "lit", "s": s, "t": "bool", "lk": "bool", "v": True}, "bool")
        if nm == "map_or" and len(n.get("a", ())) == 2:
            c = _closure_arg(n, 1)
            d = ir.unparen(n["a"][0])
            simple = d.get("k") == "lit" or (d.get("k") == "path") or (d.get("k") == "call" and not d.get("a") is None and all(ir.unparen(a).get("k") in ("lit", "path") for a in d.get("a", ())) and (d.get("q") or "").endswith("{Ctor#0}"))
            if c is not None and simple and not _has(c["body"], ("ret", "try")):
                self.hit("N-OPT")
                return iflet(c["params"][0], c["body"], d, n.get("t"))
        if nm == "and_then" and len(n.get("a", ())) == 1:
            c = _closure_arg(n)
            if c is not None and not _has(c["body"], ("ret", "try")):
                self.hit("N-OPT")
                return iflet(c["params"][0], c["body"], {"k": "path", "s": s, "t": n.get("t"), "r": "ctor", "q": NONE, "gen": True}, n.get("t"))
        if nm in ("or", "unwrap_or") and len(n.get("a", ())) == 1 and _pure_place(n["a"][0]):
            # o.or(d) -> if let Some(v) = o { Some(v) } else { d };   o.unwrap_or(d) -> if let Some(v) = o { v } else { d }      (d is a place / literal: no effect to reorder)
            self.fresh = getattr(self, "fresh", 3000000) + 1
            inner_t = rt[rt.index("<") + 1:-1] if "<" in rt and rt.endswith(">") else None
            vb = {"k": "bind", "name": "__v", "hid": self.fresh, "mode": "BindingMode(No, Not)", "t": inner_t}
            v = _local(vb, s)
            if nm == "or":
                v = {"k": "call", "s": s, "t": n.get("t"), "q": SOME, "d": "core::option::Option::Some::{constructor#0}", "a": [v], "gen": True,
                     "f": {"k": "path", "s": s, "r": "ctor", "q": SOME, "t": "fn"}}
            self.hit("N-OPT")
            return iflet(vb, v, n["a"][0], n.get("t"))
        if nm == "map" and len(n.get("a", ())) == 1:
            c = _closure_arg(n)
            if c is not None and not _has(c["body"], ("ret", "try")):
                self.hit("N-OPT")
                t = n.get("t")
                some = {"k": "call", "s": s, "t": t, "q": SOME, "d": "core::option::Option::Some::{constructor#0}", "a": [c["body"]], "gen": True,
                        "f": {"k": "path", "s": s, "r": "ctor", "q": SOME, "t": "fn"}}
                none = {"k": "path", "s": s, "t": t, "r": "ctor", "q": NONE, "gen": True}
                return iflet(c["params"][0], some, none, t)
        return n

    # ------------------------------------------------------------ N-MATCHOPT
    def match_option(self, n):
        arms = n.get("arms", ())
        if len(arms) != 2 or any("guard" in a for a in arms):
            return n
        a0, a1 = arms
        p0, p1 = a0["pat"], a1["pat"]

        def ctor(p):
            if p.get("k") == "tstruct":
                return p.get("q")
            if p.get("k") in ("path", "expr"):
                return p.get("q") or (p.get("e") or {}).get("q")
            if p.get("k") == "wild":
                return "_"
            return None
        c0, c1 = ctor(p0), ctor(p1)
        if c0 in (NONE,) and c1 == SOME:
            a0, a1, p0, p1, c0, c1 = a1, a0, p1, p0, c1, c0
        if c0 == ERRQ and c1 == OKQ and p0.get("ps") and p0["ps"][0].get("k") == "wild":
            a0, a1, p0, p1, c0, c1 = a1, a0, p1, p0, c1, c0
        ok = (c0 == SOME and c1 in (NONE, "_")) or (c0 == OKQ and (c1 == "_" or (c1 == ERRQ and p1.get("ps") and p1["ps"][0].get("k") == "wild")))
        if not ok:
            return n
        self.hit("N-MATCHOPT")
        return {"k": "if", "s": n.get("s"), "t": n.get("t"), "c": {"k": "letx", "s": n.get("s"), "t": "bool", "pat": p0, "init": n["e"]},
                "then": _blk(a0["body"]), "else": _blk(a1["body"]), "gen": True}


def negate(c):
    c0 = ir.unparen(c)
    flip = {"==": "!=", "!=": "==", "<": ">=", ">=": "<", ">": "<=", "<=": ">"}
    if c0.get("k") == "bin" and c0.get("op") in flip and "q" not in c0 and (c0["l"].get("t") or "").lstrip("&") in ("u8", "u16", "u32", "u64", "usize", "i8", "i16", "i32", "i64", "isize", "u128", "i128", "bool", "char"):
        out = dict(c0)
        out["op"] = flip[c0["op"]]
        # unsigned `x != 0` is `x > 0`: keep the spelling the repository uses for its guards
        if out["op"] == "!=" and (c0["l"].get("t") or "").startswith("u") and ir.const_eval(c0["r"], {}) == 0:
            out["op"] = ">"
        out["gen"] = True
        return out
    if c0.get("k") == "un" and c0.get("op") == "!":
        return c0["e"]
    return {"k": "un", "op": "!", "s": c0.get("s"), "t": "bool", "e": c0, "gen": True}


# ------------------------------------------------------------------ N-CALL

def _renumber(n, off):
    if isinstance(n, dict):
        out = {}
        for k_, v in n.items():
            if k_ == "hid" and isinstance(v, int):
                out[k_] = v + off
            elif k_ == "s":
                out[k_] = v
            else:
                out[k_] = _renumber(v, off)
        return out
    if isinstance(n, list):
        return [_renumber(x, off) for x in n]
    return n


def _pure_place(e):
    e = ir.unparen(e)
    k = e.get("k")
    if k == "path":
        return True
    if k == "lit":
        return True
    if k in ("ref", "field", "cast") or (k == "un" and e.get("op") == "*"):
        return _pure_place(e["e"])
    if k == "index":
        return _pure_place(e["e"]) and _pure_place(e["i"])
    if k == "mcall" and e.get("name") in ("as_ref", "as_mut", "as_str", "as_slice", "borrow", "deref") and not e.get("a"):
        return _pure_place(e["recv"])
    return False


def _user_parts(cb):
    """(prelude statements, user block, is_async) of a fn body; None for shapes that are not handled (async_trait wrappers)"""
    b = cb["body"]
    if any(n.get("k") == "let" and n.get("pat", {}).get("name") == "__ret" for n in ir.walk_nodes(b)):
        return None
    clo = b if b.get("k") == "closure" else (b.get("tail") if b.get("k") == "block" and not b.get("stmts") and b.get("tail", {}).get("k") == "closure" else None)
    if clo is not None and "Coroutine" in clo.get("ck", ""):
        inner = clo["body"]
        if inner.get("k") == "block" and inner.get("tail", {}).get("k") == "block" and all(st.get("k") == "let" and "Async" in st.get("m", "") for st in inner.get("stmts", ())):
            return list(inner.get("stmts", ())), inner["tail"], True
        return None
    if clo is not None:
        return None
    return [], _blk(b), False


def _rets(n):
    """`return` nodes of a fn body (closures have their own)"""
    out, stack = [], [n]
    while stack:
        x = stack.pop()
        if x.get("k") == "closure":
            continue
        if x.get("k") == "ret":
            out.append(x)
        stack.extend(ir.children(x))
    return out


class Inliner:
    def __init__(self, by_q, nz):
        self.by_q, self.nz, self.k = by_q, nz, 0
        self.private_only = False
        self.inlined = set()

    def eligible(self, caller, cb, resolved=False):
        if cb is None or cb is caller or cb.get("q") == caller.get("q") or not cb.get("dk", "").startswith(("Fn", "AssocFn")):
            return False
        if cb.get("crate") != caller.get("crate") and cb.get("crate") is not None and caller.get("crate") is not None:
            return False
        same_adt = cb.get("self_adt") and cb.get("self_adt") == caller.get("self_adt")

        def mod(q):
            q = q.lstrip("<").split(" as ")[0]
            return q.rsplit("::", 1)[0]
        cm, km = mod(cb["q"]), mod(caller["q"])
        near = same_adt or cm == km or cm.startswith(km + "::") or km.startswith(cm + "::") or cm.rsplit("::", 1)[0] == km.rsplit("::", 1)[0]
        if not near or (cb.get("trait_item") and not resolved):
            return False
        if self.private_only and (cb.get("vis") == "pub" or cb.get("trait_item")):
            return False
        parts = _user_parts(cb)
        if parts is None or "impl " in (cb.get("out_t") or "") or "Iterator" in (cb.get("out_t") or ""):
            return False        # adaptor-returning helpers (`fn iter_levels() -> impl Iterator`) are names the rules know; keep them
        n_nodes = sum(1 for _ in ir.walk_nodes(parts[1]))
        return n_nodes <= 400

    def expand(self, caller, call, form, try_node=None, caller_ret=None):
        """form: 'plain' | 'try'.  Returns the replacement expression or None"""
        q = call.get("rvq") or call.get("q")
        cands = self.by_q.get(q) or ()
        cb = cands[0] if len(cands) == 1 else None
        if cb is None or not self.eligible(caller, cb, resolved=bool(call.get("rvq")) or call.get("k") == "call"):
            return None
        prelude, user, is_async = _user_parts(cb)
        has_try = _has(user, ("try",))
        rets = _rets(user)
        if form == "plain" and (has_try or rets):
            return None
        if form == "tail" and (cb.get("out_t") != (caller_ret or caller.get("out_t")) or is_async):
            return None        # the call is the caller's result: `return` / `?` inside the helper leave the caller the same way
        # under `helper(..)?` with identical error types, `return Err(e)` inside the helper is `return Err(e)` of the caller
        if form == "try" and not all(r.get("e") is not None and ir.unparen(r["e"]).get("k") == "call" and (ir.unparen(r["e"]).get("q") or "") == ERRQ for r in rets):
            return None
        if form == "try":
            import re as _re

            def err_t(t):
                m = _re.findall(r"Result<.*, ([\w:]+)>", t or "")
                return m[-1] if m else None
            et = err_t(cb.get("out_t"))
            if et is None or et != err_t(caller.get("out_t")) or not (cb.get("out_t") or "").startswith(("std::result::Result<", "core::result::Result<")):
                return None
        params = [p_ for p_ in cb.get("params", ())]
        args = ([call["recv"]] if call.get("k") == "mcall" else []) + list(call.get("a", ()))
        if len(params) != len(args):
            return None
        self.k += 1
        off = 2000000 + 10000 * self.k
        params = _renumber(params, off)
        prelude = _renumber(prelude, off)
        user = _renumber(user, off)
        sub, lets = {}, []
        assigned = {ir.local_hid(y["l"]) for y in ir.walk_nodes(user) if y.get("k") in ("assign", "assignop")}
        for p_, a_ in zip(params, args):
            if p_.get("k") == "bind" and "sub" not in p_ and "Mut" not in p_.get("mode", "").split(",")[-1] and p_["hid"] not in assigned and _pure_place(a_):
                sub[p_["hid"]] = a_
            else:
                lets.append({"k": "let", "s": call.get("s"), "pat": p_, "init": a_, "gen": True, "inl": q})

        def subst(n):
            if isinstance(n, list):
                return [subst(x) for x in n]
            if not isinstance(n, dict):
                return n
            if n.get("k") == "path" and n.get("r") == "local" and n.get("hid") in sub:
                return sub[n["hid"]]
            return {k_: (subst(v) if isinstance(v, (dict, list)) and k_ not in ("pat", "params", "s", "ps") else v) for k_, v in n.items()}
        prelude = subst(prelude)
        user = subst(user)
        stmts = lets + prelude + list(user.get("stmts", ()))
        tail = user.get("tail")
        if form == "try":
            if tail is None:
                return None
            t0 = ir.unparen(tail)
            if t0.get("k") == "call" and (t0.get("q") or "") == OKQ and len(t0.get("a", ())) == 1:
                tail = t0["a"][0]
            else:
                tail = dict(try_node, e=tail)
        self.nz.hit("N-CALL")
        self.inlined.add(q)
        if not stmts and tail is not None:
            return tail        # a one-expression helper: the expression itself
        out = {"k": "block", "s": call.get("s"), "stmts": stmts, "t": (try_node or call).get("t"), "gen": True, "inl": q, "um": True}
        if tail is not None:
            out["tail"] = tail
        return out

    def let_else(self, caller, st):
        """let Some(x) = helper(..) else { DIV };   with helper -> Option ending in Some(v), leaving early only by `return None`
           ->  S[return None := DIV]; let x = v;      (statements spliced into the caller's block)"""
        pat, init = st["pat"], ir.unparen(st["init"])
        if not (pat.get("k") == "tstruct" and pat.get("q") == SOME and len(pat.get("ps", ())) == 1 and init.get("k") in ("call", "mcall")):
            return None
        q = init.get("rvq") or init.get("q")
        cands = self.by_q.get(q) or ()
        cb = cands[0] if len(cands) == 1 else None
        if cb is None or not self.eligible(caller, cb) or not (cb.get("out_t") or "").startswith(("std::option::Option<", "core::option::Option<")):
            return None
        parts = _user_parts(cb)
        if parts is None or parts[2]:
            return None
        _, user, _ = parts
        if _has(user, ("try",)):
            return None
        rets = _rets(user)
        if any(_has(c_["body"], ("ret",), stop_closure=False) for c_ in ir.walk_nodes(user) if c_.get("k") == "closure"):
            return None        # a `return` inside a closure of the helper belongs to that closure

        def is_none(e):
            e = ir.unparen(e) if e is not None else {}
            return e.get("k") == "path" and (e.get("q") or "") == NONE
        tail = ir.unparen(user.get("tail")) if user.get("tail") is not None else None
        if tail is None or not (tail.get("k") == "call" and (tail.get("q") or "") == SOME and len(tail.get("a", ())) == 1) or not all(is_none(r.get("e")) for r in rets):
            return None
        params = list(cb.get("params", ()))
        args = ([init["recv"]] if init.get("k") == "mcall" else []) + list(init.get("a", ()))
        if len(params) != len(args):
            return None
        self.k += 1
        off = 2000000 + 10000 * self.k
        params, user = _renumber(params, off), _renumber(user, off)
        tail = ir.unparen(user["tail"])
        sub, lets = {}, []
        assigned = {ir.local_hid(y["l"]) for y in ir.walk_nodes(user) if y.get("k") in ("assign", "assignop")}
        for p_, a_ in zip(params, args):
            if p_.get("k") == "bind" and "sub" not in p_ and "Mut" not in p_.get("mode", "").split(",")[-1] and p_["hid"] not in assigned and _pure_place(a_):
                sub[p_["hid"]] = a_
            else:
                lets.append({"k": "let", "s": st.get("s"), "pat": p_, "init": a_, "gen": True, "inl": q})
        div = st["els"]

        def subst(n):
            if isinstance(n, list):
                return [subst(x) for x in n]
            if not isinstance(n, dict):
                return n
            if n.get("k") == "path" and n.get("r") == "local" and n.get("hid") in sub:
                return sub[n["hid"]]
            if n.get("k") == "ret" and n.get("e") is not None and is_none(n["e"]):
                return copy.deepcopy(div)
            return {k_: (subst(v) if isinstance(v, (dict, list)) and k_ not in ("pat", "params", "s", "ps") else v) for k_, v in n.items()}
        stmts = lets + subst(list(user.get("stmts", ())))
        val = subst(tail["a"][0])
        alias = None
        xp = pat["ps"][0]
        if xp.get("k") == "bind" and "sub" not in xp and "Mut" not in xp.get("mode", "").split(",")[-1] and ir.unparen(val).get("k") == "path" and ir.unparen(val).get("r") == "local":
            alias = (xp["hid"], ir.unparen(val))      # `let x = y` of a helper-local y: later uses of x read y directly
        else:
            stmts.append({"k": "let", "s": st.get("s"), "pat": xp, "init": val, "gen": True, "inl": q})
        self.nz.hit("N-CALL")
        self.inlined.add(q)
        return stmts, alias

    def rw(self, caller, n):
        if isinstance(n, list):
            return [self.rw(caller, x) for x in n]
        if not isinstance(n, dict):
            return n
        k = n.get("k")
        if k == "block" and any(st.get("k") == "let" and "els" in st and "init" in st for st in n.get("stmts", ())):
            new, al = [], {}

            def ren(x):
                if isinstance(x, list):
                    return [ren(y) for y in x]
                if not isinstance(x, dict):
                    return x
                if x.get("k") == "path" and x.get("r") == "local" and x.get("hid") in al:
                    return al[x["hid"]]
                return {k_: (ren(v) if isinstance(v, (dict, list)) and k_ not in ("pat", "params", "s", "ps") else v) for k_, v in x.items()}
            for st in n["stmts"]:
                if al:
                    st = ren(st)
                r = self.let_else(caller, st) if (st.get("k") == "let" and "els" in st and "init" in st) else None
                if r is not None:
                    new.extend(r[0])
                    if r[1] is not None:
                        al[r[1][0]] = r[1][1]
                else:
                    new.append(st)
            n = dict(n, stmts=new)
            if al and n.get("tail") is not None:
                n["tail"] = ren(n["tail"])
        if k == "try":
            inner = n["e"]
            aw = None
            if inner.get("k") == "await":
                aw, inner = inner, inner["e"]
            if inner.get("k") in ("call", "mcall") and not (inner.get("k") == "call" and (inner.get("q") or "").endswith("{Ctor#0}")):
                inner2 = dict(inner)
                if "recv" in inner2:
                    inner2["recv"] = self.rw(caller, inner2["recv"])
                inner2["a"] = self.rw(caller, inner2.get("a", []))
                cands = self.by_q.get(inner.get("rvq") or inner.get("q")) or ()
                is_async = bool(cands) and (_user_parts(cands[0]) or (0, 0, False))[2]
                if (aw is not None) == is_async:
                    r = self.expand(caller, inner2, "try", n)
                    if r is not None:
                        return r
        if k == "await" and n["e"].get("k") in ("call", "mcall"):
            inner = n["e"]
            cands = self.by_q.get(inner.get("rvq") or inner.get("q")) or ()
            if cands and (_user_parts(cands[0]) or (0, 0, False))[2]:
                inner2 = dict(inner)
                if "recv" in inner2:
                    inner2["recv"] = self.rw(caller, inner2["recv"])
                inner2["a"] = self.rw(caller, inner2.get("a", []))
                r = self.expand(caller, inner2, "plain")
                if r is not None:
                    return r
        out = {}
        for key, v in n.items():
            if isinstance(v, (dict, list)) and key not in ("pat", "params", "caps", "s", "ps"):
                if k == "match" and key == "arms":
                    out[key] = [dict(a, body=self.rw(caller, a["body"]), **({"guard": self.rw(caller, a["guard"])} if "guard" in a else {})) for a in v]
                elif k == "struct" and key == "fields":
                    out[key] = [dict(f, e=self.rw(caller, f["e"])) for f in v]
                else:
                    out[key] = self.rw(caller, v)
            else:
                out[key] = v
        n = out
        if k in ("call", "mcall"):
            cands = self.by_q.get(n.get("rvq") or n.get("q")) or ()
            if cands and not (_user_parts(cands[0]) or (0, 0, True))[2]:
                r = self.expand(caller, n, "plain")
                if r is not None:
                    return r
        return n


def normalise_body(b, nz=None):
    nz = nz or Normaliser()
    before = dict(nz.applied)
    nb = dict(b)
    nb["body"] = nz.rw(b["body"])
    bd = nb["body"]
    if bd.get("k") == "block" and bd.get("tail") is not None and _is_iter(ir.unparen(bd["tail"]), "try_fold") and (b.get("out_t") or "") == (ir.unparen(bd["tail"]).get("t") or "") and \
            (b.get("out_t") or "").startswith(("std::result::Result<", "core::result::Result<")):
        r_ = nz.fold(ir.unparen(bd["tail"]), None)
        if r_.get("k") == "block":
            nb["body"] = dict(bd, tail=r_)
    if nz.applied == before:
        return b
    nb["_normalised"] = True
    return nb


def normalise_program(crates, guard=True, inline=2):
    """inline: 0 = helpers stay, 1 = only private (non-pub, non-trait) helpers are put back into their callers, 2 / True = every small
    function of the same type / module"""
    """(crates', {rewrite: count}) with every body rewritten; untouched bodies are shared, not copied"""
    nz = Normaliser(guard)
    out = {}
    by_q = {}
    for key, d in crates.items():
        for b in d["bodies"]:
            b.setdefault("crate", key[0])
            by_q.setdefault(b["q"], []).append(b)
    # helpers are put back into their callers first (in the form they were written), then everything is normalised
    inl = Inliner(by_q, nz)
    inl.private_only = (inline == 1 and inline is not True)
    for key, d in crates.items():
        d2 = dict(d)
        nb = []
        for b in d["bodies"]:
            before = nz.applied.get("N-CALL", 0)
            body2 = inl.rw(b, b["body"]) if inline else b["body"]
            if inline and body2.get("k") == "block" and body2.get("tail") is not None and ir.unparen(body2["tail"]).get("k") in ("call", "mcall") and b.get("dk", "").startswith(("Fn", "AssocFn")):
                r_ = inl.expand(b, ir.unparen(body2["tail"]), "tail")
                if r_ is not None:
                    body2 = dict(body2, tail=r_)
            if inline:
                # async_trait method: the user's block is the initialiser of `let __ret: T = { .. }`
                def tail_in_ret(n):
                    if isinstance(n, list):
                        return [tail_in_ret(x) for x in n]
                    if not isinstance(n, dict):
                        return n
                    if n.get("k") == "let" and n.get("pat", {}).get("name") == "__ret" and n.get("init", {}).get("k") == "block" and n["init"].get("tail") is not None and \
                            ir.unparen(n["init"]["tail"]).get("k") in ("call", "mcall"):
                        r2 = inl.expand(b, ir.unparen(n["init"]["tail"]), "tail", caller_ret=n["pat"].get("t"))
                        if r2 is not None:
                            return dict(n, init=dict(n["init"], tail=r2))
                        return n
                    return {k_: (tail_in_ret(v) if isinstance(v, (dict, list)) and k_ not in ("pat", "params", "s", "ps", "caps") else v) for k_, v in n.items()}
                if any(n.get("k") == "let" and n.get("pat", {}).get("name") == "__ret" for n in ir.walk_nodes(body2)):
                    body2 = tail_in_ret(body2)
            if nz.applied.get("N-CALL", 0) != before:
                b = dict(b, body=body2, _normalised=True)
            nb.append(normalise_body(b, nz))
        d2["bodies"] = nb
        out[key] = d2
    # a private helper whose every call was inlined is dead code in the normalised program: drop it, so that who-calls-whom
    # witnesses see the program as if the helper had never been extracted
    if inl.inlined:
        still = set()
        for d2 in out.values():
            for b in d2["bodies"]:
                for n in ir.walk_nodes(b["body"]):
                    for kq in ("q", "rvq"):
                        if n.get(kq) in inl.inlined and b["q"] != n.get(kq):
                            still.add(n[kq])
        dead = {q for q in inl.inlined - still if all(x.get("vis") != "pub" and not x.get("trait_item") for x in by_q.get(q, ()))}
        if dead:
            for d2 in out.values():
                d2["bodies"] = [b for b in d2["bodies"] if b["q"] not in dead]
            nz.applied["N-CALL-dead-helper"] = len(dead)
    return out, dict(nz.applied)
