"""Path-sensitive evaluation of `&mut self` methods that update integer fields, and the bounding-union rule built on it.

The tile-box algebra as a whole (C15) quantifies over values and is declined.  One clause of it is visible in the shape of the
code and is a necessary condition for every property that relies on an advertised coverage (C03, C08, C16): after
`a.include_bbox(b)` / `a.include_coord(x, y)` the box `a` contains everything it contained before AND the included box/tile.
Per axis that is

    low edge  = min(old low edge,  included low edge)
    high edge = max(old high edge, included high edge)          (optionally clamped to the level's last index)

on EVERY path on which neither box is empty; an empty accumulator adopts the included box, an empty included box changes
nothing.  `paths()` enumerates the paths of the method (forking at every `if`, collecting the comparison facts that hold on
each path, terms from affine.py); `union_rule` decides the clause per path and per edge: the stored term is the min/max term,
or it is one operand and the path's facts imply it is the smaller/larger one.  Nothing is executed.
"""
from . import ir
from . import affine as A

MAX_PATHS = 512


def subst(t, m):
    """replace ("sym", place) atoms by the terms in m (place -> term), recursively through min/max/div/shr/fn atoms"""
    if t is A.TOP:
        return A.TOP
    out = {}
    for mono, c in t.items():
        term = A.const(c) if c else {}
        if not c:
            continue
        term = {(): c}
        for a in mono:
            term = A.mul(term, _subst_atom(a, m))
            if term is A.TOP:
                return A.TOP
        out = A.add(out, term)
    return out


def _thaw(f):
    return A.TOP if f == ("TOP",) else dict(f)


def _subst_atom(a, m):
    k = a[0]
    if k == "sym":
        if a[1] in m:
            return m[a[1]]
        return A.atom(a)
    if k in ("min", "max"):
        x, y = subst(_thaw(a[1]), m), subst(_thaw(a[2]), m)
        return A.tmin(x, y) if k == "min" else A.tmax(x, y)
    if k in ("div", "shr"):
        x = subst(_thaw(a[1]), m)
        return A.TOP if x is A.TOP else A.atom((k, A.freeze(x), a[2]))
    if k == "fn":
        args = []
        for f in a[2:]:
            try:
                x = subst(_thaw(f), m)
                args.append(A.freeze(x))
            except (TypeError, ValueError):
                args.append(f)
        return A.atom(("fn", a[1]) + tuple(args))
    return A.atom(a)


class St:
    """one path: field store (place -> term), locals (Env), facts, done flag (returned)"""

    def __init__(self, store=None, env=None, facts=None):
        self.store = dict(store or {})
        self.env = env.copy() if env is not None else A.Env()
        self.facts = list(facts or [])
        self.done = None      # None | "ret" | "err"

    def fork(self):
        s = St(self.store, self.env, self.facts)
        s.done = self.done
        return s

    def ev(self, e):
        # field reads mean the CURRENT contents (store); locals hold terms over the INITIAL contents and must not be
        # substituted again: evaluate with placeholders for the locals, substitute the store, then the locals
        ph = A.Env({h: A.sym(("loc", h)) for h in self.env.m})
        t = subst(A.ev(e, ph), self.store)
        return subst(t, {("loc", h): v for h, v in self.env.m.items()})


def _cond_facts(c, truth, st, out):
    c = ir.unparen(c)
    if c is None:
        return
    k = c.get("k")
    if k == "un" and c.get("op") == "!":
        return _cond_facts(c["e"], not truth, st, out)
    if k == "call" and c.get("q") == "anyhow::__private::not" and c.get("a"):
        return _cond_facts(c["a"][0], not truth, st, out)
    if k == "bin" and c.get("op") == "&&":
        if truth:
            _cond_facts(c["l"], True, st, out)
            _cond_facts(c["r"], True, st, out)
        return
    if k == "bin" and c.get("op") == "||":
        if not truth:
            _cond_facts(c["l"], False, st, out)
            _cond_facts(c["r"], False, st, out)
        return
    if k == "bin" and c.get("op") in ("<", "<=", ">", ">=", "==", "!="):
        op = c["op"] if truth else ir._NEG[c["op"]]
        out.append(("cmp", A.freeze(st.ev(c["l"])), op, A.freeze(st.ev(c["r"]))))
        return
    if k == "mcall" and not c.get("a"):
        p = A.ev_place(c["recv"], st.env)
        if p is not None:
            # the predicate is about the CURRENT contents of the place: remember which fields were already rewritten
            dirty = tuple(sorted(repr(q) for q in st.store if isinstance(q, tuple) and q[0] == p))
            out.append(("pred", c["name"], p, truth, dirty))


def implies_le(facts, x, y):
    """do the path facts imply x <= y ?  (x, y terms)"""
    fx, fy = A.freeze(x), A.freeze(y)
    if fx == fy:
        return True
    for f in facts:
        if f[0] != "cmp":
            continue
        _, l, op, r = f
        if l == fx and r == fy and op in ("<", "<=", "=="):
            return True
        if l == fy and r == fx and op in (">", ">=", "=="):
            return True
    return False


def _self_fields(P, b):
    adt = b.get("self_adt")
    s = P.struct(adt) if hasattr(P, "struct") else None
    if s:
        return [f["name"] for f in s.get("fields", ())]
    return None


def paths(P, b, fields):
    """all paths through the body of method b.  `fields`: names of self's fields (for whole-value assignment `*self = o.clone()`)."""
    self_b = [p for p in b.get("params", ()) if p.get("k") == "bind" and p.get("name") == "self"]
    blk = ir.fn_block(b)
    self_hid = None
    for n in ir.walk_nodes(b["body"]):
        if n.get("k") == "path" and n.get("r") == "local" and n.get("name") == "self":
            self_hid = n["hid"]
            break
    if self_hid is None:
        return None
    self_pl = (self_hid, "self")
    over = [False]

    def havoc(st):
        for f in fields:
            st.store[(self_pl, "." + f)] = A.opaque()

    def mutating_call(n):
        """a call that may write through self (recv/arg is self or a field of self, passed by &mut)"""
        for y in ir.walk_nodes(n):
            if y.get("k") in ("mcall", "call"):
                ops = ([y["recv"]] if y.get("k") == "mcall" else []) + list(y.get("a", ()))
                for o in ops:
                    r = o
                    isref_mut = r.get("k") == "ref" and "mut" in (r.get("t") or "")[:5]
                    root = ir.strip(r)
                    while root is not None and root.get("k") in ("field", "index"):
                        root = ir.strip(root["e"])
                    if root is not None and ir.local_hid(root) == self_hid:
                        if y.get("k") == "mcall" and o is y["recv"]:
                            cal = P.fn(ir.callee(y) or "") if ir.callee(y) else None
                            if cal is not None:
                                if (cal.get("in_t") or [""])[0].startswith("&mut"):
                                    return True
                                continue
                            t = (ir.strip(o).get("t") or "")
                            # std methods on a Copy integer field (min, max, ..) take self by value
                            if ir.strip(o).get("k") == "field" and not t.startswith("&"):
                                continue
                            if y.get("name") in ("clone", "is_empty", "len", "min", "max"):
                                continue
                            return True
                        if isref_mut:
                            return True
        return False

    def exec_seq(stmts, states):
        for s_ in stmts:
            nxt = []
            for st in states:
                if st.done:
                    nxt.append(st)
                else:
                    nxt.extend(exec_stmt(s_, st))
            states = nxt
            if len(states) > MAX_PATHS:
                over[0] = True
                return states[:MAX_PATHS]
        return states

    def exec_stmt(n, st):
        x = n["e"] if n.get("k") == "semi" else n
        x = ir.unparen(x) if x.get("k") == "block" and not x.get("stmts") else x
        k = x.get("k")
        if k == "let":
            if "init" in x and x["pat"].get("k") == "bind":
                if mutating_call(x["init"]):
                    havoc(st)
                st.env.m[x["pat"]["hid"]] = st.ev(x["init"])
            else:
                if "init" in x and mutating_call(x["init"]):
                    havoc(st)
                i2 = ir.unparen(x["init"]) if "init" in x else None
                if x["pat"].get("k") == "tuple" and i2 is not None and i2.get("k") == "tup" and len(i2.get("es", ())) == len(x["pat"].get("ps", ())) and \
                        all(p_.get("k") in ("bind", "wild") for p_ in x["pat"]["ps"]):
                    vals = [st.ev(e_) for e_ in i2["es"]]
                    for p_, v_ in zip(x["pat"]["ps"], vals):
                        if p_.get("k") == "bind":
                            st.env.m[p_["hid"]] = v_
                else:
                    for bd in ir.pat_binds(x["pat"]):
                        st.env.m[bd["hid"]] = A.opaque()
            return [st]
        if k == "assign":
            l = x["l"]
            if l.get("k") == "un" and l.get("op") == "*" and ir.local_hid(l["e"]) == self_hid:
                r = ir.strip(x["r"])
                while r is not None and r.get("k") == "mcall" and r.get("name") in ("clone", "to_owned") and not r.get("a"):
                    r = ir.strip(r["recv"])
                src = A.ev_place(r, st.env) if r is not None else None
                if src is not None and r.get("k") == "path":
                    for f in fields:
                        st.store[(self_pl, "." + f)] = subst(A.sym((src, "." + f)), st.store) if src != self_pl else st.store.get((self_pl, "." + f), A.sym((self_pl, "." + f)))
                    st.facts.append(("adopt", src))
                else:
                    havoc(st)
                return [st]
            pl = A.ev_place(l, st.env)
            if pl is not None and isinstance(pl, tuple) and pl[0] == self_pl:
                st.store[pl] = st.ev(x["r"])
                return [st]
            h = ir.local_hid(l) if l.get("k") == "path" else None
            if h is not None:
                st.env.m[h] = st.ev(x["r"])
                return [st]
            havoc(st)
            return [st]
        if k == "assignop":
            l = x["l"]
            pl = A.ev_place(l, st.env)
            cur = st.ev(l)
            r = st.ev(x["r"])
            op = x.get("op", "")
            new = A.add(cur, r) if op.startswith("+") else (A.sub(cur, r) if op.startswith("-") else (A.mul(cur, r) if op.startswith("*") else
                                                                                                      (A.atom(("fn", "div", A.freeze(cur), A.freeze(r))) if op.startswith("/") and cur is not A.TOP and r is not A.TOP else A.opaque())))
            if pl is not None and isinstance(pl, tuple) and pl[0] == self_pl:
                st.store[pl] = new
            elif l.get("k") == "path" and ir.local_hid(l) is not None:
                st.env.m[ir.local_hid(l)] = new
            else:
                havoc(st)
            return [st]
        if k == "if":
            if mutating_call(x["c"]):
                havoc(st)
            t, e = st.fork(), st.fork()
            _cond_facts(x["c"], True, t, t.facts)
            _cond_facts(x["c"], False, e, e.facts)
            out = exec_seq(ir.stmts_of(x["then"]) if x["then"].get("k") == "block" else [x["then"]], [t])
            if "else" in x:
                out += exec_seq(ir.stmts_of(x["else"]) if x["else"].get("k") == "block" else [x["else"]], [e])
            else:
                out.append(e)
            return out
        if k == "block":
            return exec_seq(ir.stmts_of(x), [st])
        if k == "ret":
            e = x.get("e")
            st.done = "err" if e is not None and ir.contains(e, lambda y: y.get("k") == "call" and (y.get("q") or "").endswith("Err::{Ctor#0}")) else "ret"
            return [st]
        if k == "match":
            out = []
            if mutating_call(x.get("e") or {}):
                havoc(st)
            for arm in x.get("arms", ()):
                a = st.fork()
                for bd in ir.pat_binds(arm.get("pat") or {}):
                    a.env.m[bd["hid"]] = A.opaque()
                out += exec_seq([arm["body"]], [a])
            return out or [st]
        if k in ("for", "while", "loop"):
            for y in ir.walk_nodes(x):
                if y.get("k") in ("assign", "assignop"):
                    pl = A.ev_place(y["l"], A.Env())
                    if pl is not None and isinstance(pl, tuple) and pl[0] == self_pl:
                        st.store[pl] = A.opaque()
                    elif y["l"].get("k") == "un":
                        havoc(st)
            if mutating_call(x):
                havoc(st)
            return [st]
        if k == "call" and (x.get("q") or "").endswith("mem::swap") and len(x.get("a", ())) == 2:
            pa, pb = A.ev_place(x["a"][0], st.env), A.ev_place(x["a"][1], st.env)
            if pa is not None and pb is not None and isinstance(pa, tuple) and isinstance(pb, tuple) and pa[0] == self_pl and pb[0] == self_pl:
                va = st.store.get(pa, A.sym(pa))
                vb = st.store.get(pb, A.sym(pb))
                st.store[pa], st.store[pb] = vb, va
                return [st]
            havoc(st)
            return [st]
        # any other expression statement
        if k == "try" or ir.contains(x, lambda y: y.get("k") == "try"):
            # `e?` may return early with an error: fork an error path (state irrelevant), continue on the success path
            err = st.fork()
            err.done = "err"
            if mutating_call(x):
                havoc(st)
            return [err, st]
        if mutating_call(x):
            for y in ir.walk_nodes(x):
                if y.get("k") == "mcall" and ir.local_hid(y["recv"]) == self_hid:
                    st.facts.append(("called", y["name"]))
            havoc(st)
        if ir.diverges(x):
            st.done = "err"
        return [st]

    init = St()
    res = exec_seq(ir.stmts_of(blk), [init])
    return {"paths": res, "self": self_pl, "overflow": over[0]}


def _strip_clamp(t, lim):
    """min(X, lim) -> X"""
    if t is A.TOP or len(t) != 1:
        return t
    (m, c), = t.items()
    if c == 1 and len(m) == 1 and m[0][0] == "min":
        fl = A.freeze(lim)
        if m[0][1] == fl:
            return _thaw(m[0][2])
        if m[0][2] == fl:
            return _thaw(m[0][1])
    return t


def _edge_ok(final, old, inc, facts, low, lim):
    """is `final` the bounding-union edge of old and inc on this path?"""
    cands = [final]
    if not low:
        cands.append(_strip_clamp(final, lim))
    for t in cands:
        if t is A.TOP:
            continue
        if A.eq(t, A.tmin(old, inc) if low else A.tmax(old, inc)):
            return True
        if low:
            if A.eq(t, inc) and implies_le(facts, inc, old):
                return True
            if A.eq(t, old) and implies_le(facts, old, inc):
                return True
        else:
            if A.eq(t, inc) and implies_le(facts, old, inc):
                return True
            if A.eq(t, old) and implies_le(facts, inc, old):
                return True
    return False


EDGES = (("x_min", True), ("y_min", True), ("x_max", False), ("y_max", False))


def union_rule(ck, P, rule):
    """TileBBox::include_bbox / include_coord are bounding unions on every path (see module doc)."""
    fns = {nm: [b for b in P.bodies if b["q"].endswith("tile_bbox::TileBBox::" + nm)] for nm in ("include_bbox", "include_coord")}
    if not ck.anchor(rule, "TileBBox::include_bbox / include_coord", fns["include_bbox"] + fns["include_coord"], 2):
        return
    fields = ["level", "max", "x_min", "y_min", "x_max", "y_max"]
    for nm in ("include_bbox", "include_coord"):
        b = fns[nm][0]
        r = paths(P, b, fields)
        if not ck.check(r is not None and not r["overflow"] and r["paths"], rule, b["q"] + "|paths", "the paths of %s can be enumerated" % nm,
                        "the paths of %s cannot be enumerated (too many or no self)" % nm, ir.loc(b)):
            continue
        self_pl = r["self"]
        params = [p for p in b.get("params", ()) if p.get("k") == "bind" and p.get("name") != "self"]
        if nm == "include_bbox":
            ok_p = len(params) == 1
            other = (params[0]["hid"], params[0]["name"]) if ok_p else None
            inc = {f: A.sym((other, "." + f)) for f, _ in EDGES} if ok_p else {}
        else:
            ok_p = len(params) == 2
            inc = {}
            if ok_p:
                px, py = A.local_sym(params[0]), A.local_sym(params[1])
                inc = {"x_min": px, "x_max": px, "y_min": py, "y_max": py}
            other = None
        if not ck.check(ok_p, rule, b["q"] + "|params", "parameters as expected", "unexpected parameter list %s" % [p.get("name") for p in params], ir.loc(b)):
            continue
        lim = A.sym((self_pl, ".max"))
        bad = []
        n_union = n_adopt = n_noop = 0
        for st in r["paths"]:
            if st.done == "err":
                continue
            preds = [f for f in st.facts if f[0] == "pred" and f[1] == "is_empty"]
            self_empty = any(f[2] == self_pl and f[3] is True and not f[4] for f in preds)
            other_empty = other is not None and any(f[2] == other and f[3] is True for f in preds)
            final = {f: st.store.get((self_pl, "." + f), A.sym((self_pl, "." + f))) for f, _ in EDGES}
            if other_empty:
                n_noop += 1
                okp = all(A.eq(final[f], A.sym((self_pl, "." + f))) for f, _ in EDGES)
                if not okp:
                    bad.append("including an empty box changes the accumulator")
                continue
            if self_empty:
                n_adopt += 1
                wrong = [f for f, _ in EDGES if not (A.eq(final[f], inc[f]) or A.eq(_strip_clamp(final[f], lim), inc[f]))]
                if wrong:
                    bad.append("an empty accumulator does not adopt the included %s: %s = %s" % ("box" if other else "tile", wrong[0], A.show(final[wrong[0]])))
                continue
            n_union += 1
            for f, low in EDGES:
                old = A.sym((self_pl, "." + f))
                if not _edge_ok(final[f], old, inc[f], st.facts, low, lim):
                    cmpf = ["%s %s %s" % (A.show(_thaw(x[1])), x[2], A.show(_thaw(x[3]))) for x in st.facts if x[0] == "cmp"]
                    bad.append("%s ends as `%s` on the path where %s — not %s(%s, %s)" % (f, A.show(final[f]), " and ".join(cmpf) or "no comparison holds", "min" if low else "max", A.show(old), A.show(inc[f])))
                    break
        ck.check(not bad and n_union >= 1 and n_adopt >= 1, rule, b["q"] + "|bounding-union",
                 "%s: every edge is the min/max of the old and the included edge on all %d non-empty paths; an empty accumulator adopts (%d path(s))%s" % (
                     nm, n_union, n_adopt, "; an empty argument is a no-op (%d)" % n_noop if other else ""),
                 "%s is not a bounding union: %s — a box/tile that was included can lie outside the accumulated box, so advertised coverages lose tiles" % (
                     nm, bad[0] if bad else "no %s path found" % ("union" if not n_union else "adopt-when-empty")), ir.loc(b))


def transform_rule(ck, P, rule):
    """TileBBox::flip_y / swap_xy (the box handed to the source for a converted stream, and the converted coverage):
    on every path on which the box is not empty
        flip_y :  y_min' = max - y_max,  y_max' = max - y_min,  x unchanged
        swap_xy:  x_min' = y_min, y_min' = x_min, x_max' = y_max, y_max' = x_max
    and an empty box stays as it is.  Decided on the terms of boxalg.paths (mem::swap of two fields is modelled)."""
    impls = [b for b in P.bodies if b.get("self_adt", "").endswith("tile_bbox::TileBBox") and (b.get("trait_item") or "").endswith(("TransformCoord::flip_y", "TransformCoord::swap_xy"))]
    if not ck.anchor(rule, "impl TransformCoord for TileBBox", impls, 2):
        return
    fields = ["level", "max", "x_min", "y_min", "x_max", "y_max"]
    for b in impls:
        nm = b["trait_item"].rsplit("::", 1)[-1]
        r = paths(P, b, fields)
        if not ck.check(r is not None and not r["overflow"] and r["paths"], rule, b["q"] + "|paths", "paths enumerated", "paths of %s cannot be enumerated" % nm, ir.loc(b)):
            continue
        sp = r["self"]

        def S(f):
            return A.sym((sp, "." + f))
        if nm == "flip_y":
            want = {"x_min": S("x_min"), "x_max": S("x_max"), "y_min": A.sub(S("max"), S("y_max")), "y_max": A.sub(S("max"), S("y_min"))}
        else:
            want = {"x_min": S("y_min"), "y_min": S("x_min"), "x_max": S("y_max"), "y_max": S("x_max")}
        bad = []
        n_live = 0
        for st in r["paths"]:
            if st.done == "err":
                continue
            empty = any(f[0] == "pred" and f[1] == "is_empty" and f[2] == sp and f[3] is True for f in st.facts)
            final = {f: st.store.get((sp, "." + f), S(f)) for f in want}
            if empty:
                if not all(A.eq(final[f], S(f)) for f in want):
                    bad.append("an empty box is modified")
                continue
            n_live += 1
            for f in ("x_min", "y_min", "x_max", "y_max"):
                if not A.eq(final[f], want[f]):
                    bad.append("%s ends as `%s`, expected `%s`" % (f, A.show(final[f]), A.show(want[f])))
                    break
        ck.check(n_live >= 1 and not bad, rule, b["q"] + "|" + nm, "TileBBox::%s maps the box as the coordinate transform does (%d path(s))" % (nm, n_live),
                 "TileBBox::%s does not map the box like the coordinate transform: %s — a converted stream asks the source for the wrong box" % (nm, bad[0] if bad else "no non-empty path"), ir.loc(b))
    # the pyramid applies the box transform to every level
    pim = [b for b in P.bodies if b.get("self_adt", "").endswith("tile_bbox_pyramid::TileBBoxPyramid") and (b.get("trait_item") or "").endswith(("TransformCoord::flip_y", "TransformCoord::swap_xy"))]
    if ck.anchor(rule, "impl TransformCoord for TileBBoxPyramid", pim, 2):
        for b in pim:
            nm = b["trait_item"].rsplit("::", 1)[-1]
            calls = [y for y in ir.walk_nodes(b["body"]) if y.get("k") == "mcall" and y.get("name") == nm]
            adapt = [y["name"] for y in ir.walk_nodes(b["body"]) if y.get("k") == "mcall" and y.get("name") in ("skip", "take", "step_by", "filter", "take_while", "skip_while", "rev", "nth")]
            over = [y for y in ir.walk_nodes(b["body"]) if y.get("k") == "mcall" and y.get("name") in ("iter_mut",) and ir.place_str(y["recv"]).endswith("level_bbox")] + \
                   [y for y in ir.walk_nodes(b["body"]) if y.get("k") == "for" and "level_bbox" in (ir.place_str(y["iter"]) or "")]
            esc = [y["k"] for y in ir.walk_nodes(b["body"]) if y.get("k") in ("break", "continue", "ret", "if", "match")]
            ck.check(len(calls) == 1 and bool(over) and not adapt and not esc, rule, b["q"] + "|every-level", "the pyramid applies %s to every level box" % nm,
                     "the pyramid does not apply %s to every level (adaptors %s, control flow %s)" % (nm, adapt, esc), ir.loc(b))


def _tail(b):
    blk = ir.fn_block(b)
    t = blk.get("tail") if blk.get("k") == "block" and "tail" in blk else blk
    return ir.unparen(t)


def _conj(c, out):
    c = ir.unparen(c)
    if c.get("k") == "bin" and c.get("op") == "&&":
        _conj(c["l"], out)
        _conj(c["r"], out)
    else:
        out.append(c)


def box_core_rules(ck, P, rule="R-BOX"):
    """The handful of TileBBox primitives every reader, stream and filter goes through, each decided on the shape of its code
    (terms from affine.py, paths from paths()):  intersect_bbox = per-axis [max of the low edges, min of the high edges] when both boxes
    hold tiles, empty otherwise;  contains2/3 = conjunction of the four inclusive edge comparisons (and the level);  width/height =
    high - low + 1 (0 when inverted);  count_tiles = width * height;  get_tile_index2/3 = (y - y_min) * width + (x - x_min) behind a
    containment guard;  get_coord2/3_by_index = (index % width + x_min, index / width + y_min);  iter_coords = rows outside, columns
    inside, TileCoord3::new(x, y, level);  scale_down divides all four edges by the scale."""
    def f(name):
        r = [b for b in P.bodies if b["q"].endswith("tile_bbox::TileBBox::" + name)]
        return r[0] if r else None
    names = ("intersect_bbox", "contains2", "contains3", "width", "height", "count_tiles", "get_tile_index2", "get_tile_index3", "get_coord2_by_index", "get_coord3_by_index", "iter_coords", "scale_down")
    fns = {n: f(n) for n in names}
    if not ck.anchor(rule, "TileBBox primitives", [v for v in fns.values() if v], len(names)):
        return
    fields = ["level", "max", "x_min", "y_min", "x_max", "y_max"]
    # ---- intersect_bbox
    b = fns["intersect_bbox"]
    r = paths(P, b, fields)
    sp = r["self"]
    params = [p for p in b.get("params", ()) if p.get("k") == "bind" and p.get("name") != "self"]
    other = (params[0]["hid"], params[0]["name"])
    bad, n_live, n_empty = [], 0, 0
    for st in r["paths"]:
        if st.done == "err":
            continue
        preds = [x for x in st.facts if x[0] == "pred" and x[1] == "is_empty"]
        both = any(x[2] == sp and x[3] is False for x in preds) and any(x[2] == other and x[3] is False for x in preds)
        if both:
            n_live += 1
            for fld, low in EDGES:
                fin = st.store.get((sp, "." + fld), A.sym((sp, "." + fld)))
                want = (A.tmax if low else A.tmin)(A.sym((sp, "." + fld)), A.sym((other, "." + fld)))
                if not A.eq(fin, want):
                    bad.append("%s ends as `%s`, expected `%s`" % (fld, A.show(fin), A.show(want)))
                    break
        else:
            n_empty += 1
            if not any(x[0] == "called" and x[1] == "set_empty" for x in st.facts):
                bad.append("a path on which one box may be empty does not empty the result")
    ck.check(n_live >= 1 and n_empty >= 1 and not bad, rule, b["q"], "intersection: [max of low edges, min of high edges] per axis when both hold tiles (%d path(s)), empty otherwise (%d)" % (n_live, n_empty),
             "intersect_bbox is not the per-axis intersection: %s" % (bad[0] if bad else "paths live=%d empty=%d" % (n_live, n_empty)), ir.loc(b))
    # ---- contains
    for nm, with_z in (("contains2", False), ("contains3", True)):
        b = fns[nm]
        c = []
        _conj(_tail(b), c)
        got = set()
        for x in c:
            cn = ir.cmp_norm(x)
            if cn is not None:
                got.add(cn)
        cp = [p for p in b.get("params", ()) if p.get("k") == "bind" and p.get("name") != "self"][0]["name"]
        want = set()
        for ax in ("x", "y"):
            want.add(("%s.%s" % (cp, ax), ">=", "self.%s_min" % ax))
            want.add(("%s.%s" % (cp, ax), "<=", "self.%s_max" % ax))
        if with_z:
            want.add(("%s.z" % cp, "==", "self.level"))

        def canon(t):
            a_, op, b_ = t
            if a_.startswith("self."):
                a_, b_ = b_, a_
                op = ir._FLIP[op]
            return (a_, op, b_)
        ck.check({canon(t) for t in got} == want and len(c) == len(want), rule, b["q"], "%s: %d inclusive comparisons, all required" % (nm, len(want)),
                 "%s is not the conjunction of the inclusive edge comparisons: %s" % (nm, sorted({canon(t) for t in got} ^ want)), ir.loc(b))
    # ---- width / height
    for nm, lo, hi in (("width", "x_min", "x_max"), ("height", "y_min", "y_max")):
        b = fns[nm]
        t = _tail(b)
        okw = False
        if t.get("k") == "if" and "else" in t:
            cn = ir.cmp_norm(t["c"])
            inv = cn in (("self." + hi, "<", "self." + lo), ("self." + lo, ">", "self." + hi))
            env = A.Env()
            a_, e_ = A.ev(t["then"], env), A.ev(t["else"], env)
            sp_ = A.ev_place(next(y for y in ir.walk_nodes(t["c"]) if y.get("k") == "path" and y.get("r") == "local"), env)
            want = A.add(A.sub(A.sym((sp_, "." + hi)), A.sym((sp_, "." + lo))), A.const(1))
            okw = inv and A.as_const(a_) == 0 and A.eq(e_, want)
        ck.check(okw, rule, b["q"], "%s = %s - %s + 1, and 0 for an inverted box" % (nm, hi, lo), "%s is not high - low + 1 (0 when inverted)" % nm, ir.loc(b))
    b = fns["count_tiles"]
    t = A.show_stable(A.ev(_tail(b), A.Env()))
    ck.check(t in ("self.height()*self.width()", "self.width()*self.height()"), rule, b["q"], "count_tiles = width() * height()", "count_tiles is `%s`" % t, ir.loc(b))
    # ---- index <-> coordinate
    for nm in ("get_tile_index2", "get_tile_index3"):
        b = fns[nm]
        cp = [p for p in b.get("params", ()) if p.get("k") == "bind" and p.get("name") != "self"][0]
        env = A.Env()
        A.run(ir.stmts_of(ir.fn_block(b)), env)
        oks = [y for y in ir.walk_nodes(ir.fn_block(b)) if y.get("k") == "call" and (y.get("q") or "").endswith("Result::Ok::{Ctor#0}")]
        idx = A.ev(oks[-1]["a"][0], env) if oks else A.TOP
        s_ = ((next(y["hid"] for y in ir.walk_nodes(b["body"]) if y.get("k") == "path" and y.get("name") == "self"), "self"))
        c_ = (cp["hid"], cp["name"])
        S = lambda fl: A.sym((s_, "." + fl))      # noqa: E731
        C = lambda fl: A.sym((c_, "." + fl))      # noqa: E731
        w1 = A.add(A.sub(S("x_max"), S("x_min")), A.const(1))
        w2 = A.sym((s_, ".width()"))
        wants = [A.add(A.mul(A.sub(C("y"), S("y_min")), w), A.sub(C("x"), S("x_min"))) for w in (w1, w2)]
        guard = any(y.get("k") == "if" and ir.diverges(y["then"]) and ir.contains(y["c"], lambda z: z.get("k") == "mcall" and z.get("name") in ("contains2", "contains3")) and
                    ir.unparen(y["c"]).get("k") == "un" for y in ir.walk_nodes(ir.fn_block(b)))
        ck.check(any(A.eq(idx, w) for w in wants) and guard, rule, b["q"], "index = (y - y_min) * width + (x - x_min), refused for coordinates outside the box",
                 "%s computes `%s`%s" % (nm, A.show(idx), "" if guard else " without the containment guard"), ir.loc(b))
    for nm in ("get_coord2_by_index", "get_coord3_by_index"):
        b = fns[nm]
        ip = [p for p in b.get("params", ()) if p.get("k") == "bind" and p.get("name") != "self"][0]
        env = A.Env()
        A.run(ir.stmts_of(ir.fn_block(b)), env)
        ctor = [y for y in ir.walk_nodes(ir.fn_block(b)) if y.get("k") == "call" and (y.get("q") or "").endswith(("TileCoord2::new", "TileCoord3::new"))]
        okc, shown = False, "?"
        if ctor:
            xs, ys = A.show_stable(A.ev(ctor[0]["a"][0], env)), A.show_stable(A.ev(ctor[0]["a"][1], env))
            i_ = ip["name"]
            shown = "(%s, %s)" % (xs, ys)
            okc = xs in ("rem(%s, self.width()) + self.x_min" % i_, "self.x_min + rem(%s, self.width())" % i_) and ys in ("div(%s, self.width()) + self.y_min" % i_, "self.y_min + div(%s, self.width())" % i_)
            if nm.endswith("3_by_index"):
                okc = okc and A.show_stable(A.ev(ctor[0]["a"][2], env)) == "self.level"
        ck.check(okc, rule, b["q"], "coordinate = (index % width + x_min, index / width + y_min)", "%s builds %s" % (nm, shown), ir.loc(b))
    # ---- iter_coords
    b = fns["iter_coords"]
    cpd = [y for y in ir.walk_nodes(b["body"]) if y.get("k") == "mcall" and y.get("name") == "cartesian_product"]
    oki = False
    if len(cpd) == 1:
        lets = {y["pat"]["hid"]: y["init"] for y in ir.walk_nodes(b["body"]) if y.get("k") == "let" and "init" in y and y["pat"].get("k") == "bind"}

        def flds(e):
            e = ir.strip(e)
            if ir.local_hid(e) in lets:
                e = lets[ir.local_hid(e)]
            return [y.get("name") for y in ir.walk_nodes(e) if y.get("k") == "field"]
        outer, inner = flds(cpd[0]["recv"]), flds(cpd[0]["a"][0])
        clo = [y for y in ir.walk_nodes(b["body"]) if y.get("k") == "closure"]
        ctor = [y for y in ir.walk_nodes(b["body"]) if y.get("k") == "call" and (y.get("q") or "").endswith("TileCoord3::new")]
        if clo and ctor:
            ps = [x["hid"] for p_ in clo[0]["params"] for x in ir.pat_binds(p_)]
            oki = outer == ["y_min", "y_max"] and inner == ["x_min", "x_max"] and len(ps) == 2 and ir.local_hid(ctor[0]["a"][0]) == ps[1] and ir.local_hid(ctor[0]["a"][1]) == ps[0] and \
                ir.place_str(ctor[0]["a"][2]) == "self.level"
    ck.check(oki, rule, b["q"], "rows y_min..=y_max outside, columns x_min..=x_max inside, TileCoord3::new(x, y, level)", "iter_coords does not enumerate the box row by row as (x, y, level)", ir.loc(b))
    box_ctor_rules(ck, P, rule)
    pyramid_delegation_rules(ck, P, rule)
    # ---- scale_down
    b = fns["scale_down"]
    r = paths(P, b, fields)
    sp = r["self"]
    sc = [p for p in b.get("params", ()) if p.get("k") == "bind" and p.get("name") != "self"][0]
    oks_, why = True, ""
    live = [st for st in r["paths"] if st.done != "err"]
    for st in live:
        for fld, _ in EDGES:
            fin = st.store.get((sp, "." + fld))
            want = A.atom(("fn", "div", A.freeze(A.sym((sp, "." + fld))), A.freeze(A.local_sym(sc))))
            if not A.eq(fin, want):
                oks_, why = False, "%s ends as %s" % (fld, A.show(fin))
    ck.check(bool(live) and oks_, rule, b["q"], "all four edges are divided by the scale", "scale_down does not divide every edge by the scale (%s)" % why, ir.loc(b))


def box_ctor_rules(ck, P, rule="R-BOX"):
    """constructors and predicates of TileBBox:  is_empty = x_max < x_min || y_max < y_min;  new accepts exactly level <= 31, edges
    <= 2^level - 1 and min <= max per axis;  new_full = (0, 0, max, max);  new_empty is empty by its own definition of is_empty;
    the level guards of include_bbox / intersect_bbox / include_coord3 report an error exactly for DIFFERENT levels;  include_coord3
    hands (coord.x, coord.y) to include_coord."""
    from . import census

    def f(name):
        r = [b for b in P.bodies if b["q"].endswith("tile_bbox::TileBBox::" + name)]
        return r[0] if r else None
    names = ("is_empty", "new", "new_full", "new_empty", "include_bbox", "intersect_bbox", "include_coord3")
    fns = {n: f(n) for n in names}
    if not ck.anchor(rule, "TileBBox constructors / guards", [v for v in fns.values() if v], len(names)):
        return
    b = fns["is_empty"]
    t = _tail(b)
    oke = False
    if t.get("k") == "bin" and t.get("op") == "||":
        got = {ir.cmp_norm(t["l"]), ir.cmp_norm(t["r"])}

        def canon(c):
            if c is None:
                return None
            a_, op, b_ = c
            if a_.endswith("_min"):
                a_, b_, op = b_, a_, ir._FLIP[op]
            return (a_, op, b_)
        oke = {canon(c) for c in got} == {("self.x_max", "<", "self.x_min"), ("self.y_max", "<", "self.y_min")}
    ck.check(oke, rule, b["q"], "is_empty = x_max < x_min || y_max < y_min", "is_empty is not `x_max < x_min || y_max < y_min`", ir.loc(b))
    # new: the accepted region, read off the facts that hold where Ok is produced
    b = fns["new"]
    oks = census.nodes_with_facts(ir.fn_block(b), lambda y: y.get("k") == "call" and (y.get("q") or "").endswith("Result::Ok::{Ctor#0}"))
    okn, shown = False, "?"
    if oks:
        fs = {tuple(x[1:]) for x in oks[-1][1] if x[0] == "cmp"}
        ps = [x["name"] for p_ in b["params"] for x in ir.pat_binds(p_)]
        lets = {y["pat"]["name"]: y for y in ir.walk_nodes(b["body"]) if y.get("k") == "let" and y["pat"].get("k") == "bind" and "init" in y}
        shown = sorted(fs)
        if len(ps) == 5:
            lv, x0, y0, x1, y1 = ps
            mx = [n_ for n_, y in lets.items() if A.show_stable(A.ev(y["init"], A.Env())) in ("-1 + pow(2, %s)" % lv, "-1 + shl(1, %s)" % lv)]
            if mx:
                want = {(lv, "<=", "31"), (x1, "<=", mx[0]), (y1, "<=", mx[0]), (x0, "<=", x1), (y0, "<=", y1)}

                def can(t_):
                    a_, op, b_ = t_
                    return t_ if op in ("<=", "<", "==", "!=") else (b_, ir._FLIP[op], a_)
                okn = {can(t_) for t_ in fs} == want
    ck.check(okn, rule, b["q"], "TileBBox::new accepts exactly: level <= 31, x_max / y_max <= 2^level - 1, x_min <= x_max, y_min <= y_max",
             "TileBBox::new accepts under %s" % (shown,), ir.loc(b))
    b = fns["new_full"]
    c = [y for y in ir.walk_nodes(b["body"]) if y.get("k") == "call" and (ir.callee(y) or "").endswith("TileBBox::new") and len(y.get("a", ())) == 5]
    okf = False
    if c:
        env = A.Env()
        A.run(ir.stmts_of(ir.fn_block(b)), env)
        lv = [x for p_ in b["params"] for x in ir.pat_binds(p_)][0]["name"]
        vals = [A.show_stable(A.ev(a_, env)) for a_ in c[0]["a"]]
        okf = vals == [lv, "0", "0", "-1 + pow(2, %s)" % lv, "-1 + pow(2, %s)" % lv]
    ck.check(okf, rule, b["q"], "new_full(level) = new(level, 0, 0, 2^level - 1, 2^level - 1)", "new_full does not span 0 ..= 2^level - 1 on both axes", ir.loc(b))
    b = fns["new_empty"]
    st = [y for y in ir.walk_nodes(b["body"]) if y.get("k") == "struct" and (y.get("q") or "").endswith("TileBBox")]
    okm = False
    if st:
        env = A.Env()
        A.run(ir.stmts_of(ir.fn_block(b)), env)
        fv = {x["name"]: A.ev(x["e"], env) for x in st[0]["fields"]}
        # empty by is_empty: x_max < x_min on at least one axis for every level: x_min - x_max is a positive constant or max + 1 - 0
        d = A.sub(fv.get("x_min"), fv.get("x_max")) if fv.get("x_min") is not None else A.TOP
        okm = A.as_const(fv.get("x_max")) == 0 and A.as_const(fv.get("y_max")) == 0 and A.eq(fv.get("x_min"), fv.get("y_min")) and A.eq(A.sub(fv["x_min"], fv.get("max")), A.const(1))
    ck.check(okm, rule, b["q"], "new_empty: x_min = y_min = max + 1, x_max = y_max = 0 (empty for every level)", "new_empty does not build the documented empty box", ir.loc(b))
    for nm in ("include_bbox", "intersect_bbox", "include_coord3"):
        b = fns[nm]
        errs = []
        for n, parents, _m in ir.walk(ir.fn_block(b)):
            if n.get("k") == "ret" and n.get("e") is not None and ir.contains(n["e"], lambda z: z.get("k") == "call" and (z.get("q") or "").endswith("Err::{Ctor#0}")):
                for p_ in reversed(parents):
                    if p_.get("k") == "if":
                        errs.append(ir.cmp_norm(p_["c"], negate=not ir.contains(p_["then"], lambda z: z is n)))
                        break
        okg = len(errs) == 1 and errs[0] is not None and errs[0][1] == "!=" and {errs[0][0].rsplit(".", 1)[-1], errs[0][2].rsplit(".", 1)[-1]} <= {"level", "z"}
        ck.check(okg, rule, b["q"] + "|level-guard", "%s reports an error exactly when the levels differ" % nm, "%s: the level guard is %s" % (nm, errs), ir.loc(b))
    b = fns["include_coord3"]
    c = [y for y in ir.walk_nodes(b["body"]) if y.get("k") == "mcall" and (ir.callee(y) or "").endswith("TileBBox::include_coord") and len(y.get("a", ())) == 2]
    cp = [x for p_ in b["params"] for x in ir.pat_binds(p_) if x["name"] != "self"]
    okd = len(c) == 1 and cp and ir.place_str(c[0]["a"][0]) == cp[0]["name"] + ".x" and ir.place_str(c[0]["a"][1]) == cp[0]["name"] + ".y"
    from . import mvt
    cnt = mvt.exit_counts(P, b, lambda y: 1 if (y.get("k") == "mcall" and (ir.callee(y) or "").endswith("TileBBox::include_coord")) else None)
    ck.check(okd and cnt == {1}, rule, b["q"], "include_coord3 hands (coord.x, coord.y) to include_coord on every successful path", "include_coord3 does not include (coord.x, coord.y) exactly once", ir.loc(b))


def pyramid_delegation_rules(ck, P, rule="R-BOX"):
    """TileBBoxPyramid applies each box operation to the level the argument belongs to (or to every level):
       include_coord(c)  -> level_bbox[c.z].include_coord(c.x, c.y)      include_bbox(b) -> level_bbox[b.level].include_bbox(b)
       set_level_bbox(b) -> level_bbox[b.level] = b                      get_level_bbox(l) -> &level_bbox[l]
       intersect(o)      -> every level: bbox.intersect_bbox(o.get_level_bbox(level))
       intersect_geo_bbox(g) -> every level z: bbox.intersect_bbox(TileBBox::from_geo(z, g))        (each exactly once on every path)"""
    from . import mvt

    def f(name):
        r = [b for b in P.bodies if b["q"].endswith("tile_bbox_pyramid::TileBBoxPyramid::" + name)]
        return r[0] if r else None
    names = ("include_coord", "include_bbox", "set_level_bbox", "get_level_bbox", "intersect", "intersect_geo_bbox")
    fns = {n: f(n) for n in names}
    if not ck.anchor(rule, "TileBBoxPyramid delegations", [v for v in fns.values() if v], len(names)):
        return

    def param(b, i=0):
        ps = [x for p_ in b["params"] for x in ir.pat_binds(p_) if x["name"] != "self"]
        return ps[i] if len(ps) > i else None

    def idx_field(e, phid, fld):
        """e is self.level_bbox[<param>.<fld> as usize] (the index may go through a let)"""
        e = ir.strip(e)
        if e.get("k") != "index" or not ir.place_str(e["e"]).endswith("level_bbox"):
            return False
        i = ir.strip(e["i"])
        return any(z.get("k") == "field" and z.get("name") == fld and ir.local_hid(z["e"]) == phid for z in ir.walk_nodes(i)) or _through_let(i, phid, fld)
    lets_cache = {}

    def _through_let(i, phid, fld):
        h = ir.local_hid(i) if i.get("k") in ("path", "cast") else None
        return False if h is None else any(z.get("k") == "field" and z.get("name") == fld and ir.local_hid(z["e"]) == phid for z in ir.walk_nodes(lets_cache.get(h) or {}))
    # include_coord
    b = fns["include_coord"]
    p0 = param(b)
    c = [y for y in ir.walk_nodes(b["body"]) if y.get("k") == "mcall" and (ir.callee(y) or "").endswith("TileBBox::include_coord") and len(y.get("a", ())) == 2]
    ok = len(c) == 1 and p0 and idx_field(c[0]["recv"], p0["hid"], "z") and ir.place_str(c[0]["a"][0]) == p0["name"] + ".x" and ir.place_str(c[0]["a"][1]) == p0["name"] + ".y" and \
        mvt.exit_counts(P, b, lambda y: 1 if (y.get("k") == "mcall" and (ir.callee(y) or "").endswith("TileBBox::include_coord")) else None) == {1}
    ck.check(ok, rule, b["q"], "include_coord(c) = level_bbox[c.z].include_coord(c.x, c.y)", "the pyramid does not include (c.x, c.y) into level c.z", ir.loc(b))
    # include_bbox
    b = fns["include_bbox"]
    p0 = param(b)
    c = [y for y in ir.walk_nodes(b["body"]) if y.get("k") == "mcall" and (ir.callee(y) or "").endswith("TileBBox::include_bbox") and len(y.get("a", ())) == 1]
    ok = len(c) == 1 and p0 and idx_field(c[0]["recv"], p0["hid"], "level") and ir.local_hid(c[0]["a"][0]) == p0["hid"] and \
        mvt.exit_counts(P, b, lambda y: 1 if (y.get("k") == "mcall" and (ir.callee(y) or "").endswith("TileBBox::include_bbox")) else None) == {1}
    ck.check(ok, rule, b["q"], "include_bbox(b) = level_bbox[b.level].include_bbox(b)", "the pyramid does not include the box into its own level", ir.loc(b))
    # set_level_bbox
    b = fns["set_level_bbox"]
    p0 = param(b)
    for y in ir.walk_nodes(b["body"]):
        if y.get("k") == "let" and "init" in y and y["pat"].get("k") == "bind":
            lets_cache[y["pat"]["hid"]] = y["init"]
    asg = [y for y in ir.walk_nodes(b["body"]) if y.get("k") == "assign" and ir.strip(y["l"]).get("k") == "index"]
    ok = len(asg) == 1 and p0 and idx_field(asg[0]["l"], p0["hid"], "level") and ir.local_hid(asg[0]["r"]) == p0["hid"]
    ck.check(ok, rule, b["q"], "set_level_bbox(b) stores b at level b.level", "set_level_bbox does not store the box at its own level", ir.loc(b))
    # get_level_bbox
    b = fns["get_level_bbox"]
    p0 = param(b)
    t = ir.strip(_tail(b))
    ok = t.get("k") == "index" and ir.place_str(t["e"]).endswith("level_bbox") and p0 and any(z.get("k") == "path" and z.get("hid") == p0["hid"] for z in ir.walk_nodes(t["i"])) and \
        not any(z.get("k") == "bin" for z in ir.walk_nodes(t["i"]))
    ck.check(ok, rule, b["q"], "get_level_bbox(l) = &level_bbox[l]", "get_level_bbox does not return the box of the requested level", ir.loc(b))
    # intersect / intersect_geo_bbox: per level, exactly one intersect_bbox on the visited box with the right operand
    for nm in ("intersect", "intersect_geo_bbox"):
        b = fns[nm]
        p0 = param(b)
        lp = [n for n in ir.walk_nodes(b["body"]) if n.get("k") == "for"]
        ok, why = False, "%d loops" % len(lp)
        if len(lp) == 1 and p0:
            lv = ir.pat_binds(lp[0]["pat"])
            cnt = mvt.exit_counts(P, {"body": lp[0]["body"]}, lambda y: 1 if (y.get("k") == "mcall" and (ir.callee(y) or "").endswith("TileBBox::intersect_bbox") and ir.local_hid(y["recv"]) in {x["hid"] for x in lv}) else None)
            calls = [y for y in ir.walk_nodes(lp[0]["body"]) if y.get("k") == "mcall" and (ir.callee(y) or "").endswith("TileBBox::intersect_bbox")]
            lets_ = {y["pat"]["hid"]: y["init"] for y in ir.walk_nodes(lp[0]["body"]) if y.get("k") == "let" and "init" in y and y["pat"].get("k") == "bind"}
            arg_ok = False
            if len(calls) == 1:
                a = calls[0]["a"][0]
                if ir.local_hid(a) in lets_:
                    a = lets_[ir.local_hid(a)]
                idxh = {x["hid"] for x in lv}
                uses_level = any(z.get("k") == "path" and z.get("r") == "local" and z.get("hid") in idxh for z in ir.walk_nodes(a))
                uses_param = any(z.get("k") == "path" and z.get("r") == "local" and z.get("hid") == p0["hid"] for z in ir.walk_nodes(a))
                callee_ok = ir.contains(a, lambda z: (z.get("k") == "mcall" and (ir.callee(z) or "").endswith("TileBBoxPyramid::get_level_bbox")) or (z.get("k") == "call" and (z.get("q") or "").endswith("TileBBox::from_geo")))
                arg_ok = uses_level and uses_param and callee_ok
            esc = [y["k"] for y in ir.walk_nodes(lp[0]["body"]) if y.get("k") in ("break", "continue")]
            ok = cnt <= {1} and 1 in cnt and arg_ok and not esc
            why = "intersections per level %s, operand from the same level of the argument: %s" % (sorted(cnt), arg_ok)
        ck.check(ok, rule, b["q"], "%s intersects every level's box with the argument's box of the same level" % nm, "%s does not intersect level by level (%s)" % (nm, why), ir.loc(b))
    # TileBBox::intersect_pyramid(p) = self.intersect_bbox(p.get_level_bbox(self.level)), on every path: a level the pyramid does not hold
    # is an EMPTY box there, so the result is empty — "no box found, leave the request as it is" lets a removed level through
    ip = [b for b in P.bodies if b["q"].endswith("tile_bbox::TileBBox::intersect_pyramid")]
    if ck.anchor(rule, "TileBBox::intersect_pyramid", ip, 1):
        b = ip[0]
        p0 = param(b)
        is_ib = lambda y: y.get("k") == "mcall" and (ir.callee(y) or "").endswith("TileBBox::intersect_bbox") and ir.place_str(y["recv"]) == "self"
        cnt = mvt.exit_counts(P, b, lambda y: 1 if is_ib(y) else None)
        calls = [y for y in ir.walk_nodes(b["body"]) if is_ib(y)]
        arg_ok = False
        if len(calls) == 1 and p0:
            lets_ = {y["pat"]["hid"]: y["init"] for y in ir.walk_nodes(b["body"]) if y.get("k") == "let" and "init" in y and y["pat"].get("k") == "bind"}
            a = calls[0]["a"][0]
            if ir.local_hid(a) in lets_:
                a = lets_[ir.local_hid(a)]
            g = [z for z in ir.walk_nodes(a) if z.get("k") == "mcall" and (ir.callee(z) or "").endswith("TileBBoxPyramid::get_level_bbox")]
            arg_ok = len(g) == 1 and ir.local_hid(g[0]["recv"]) == p0["hid"] and ir.place_str(g[0]["a"][0]) == "self.level"
        ck.check(cnt == {1} and arg_ok, rule, b["q"], "intersect_pyramid(p) = self.intersect_bbox(p.get_level_bbox(self.level)) on every path",
                 "intersect_pyramid does not intersect with the pyramid's box of the own level on every path (intersections per call %s, operand ok=%s): a request on a level the pyramid lacks is not emptied" %
                 (sorted(cnt), arg_ok), ir.loc(b))
