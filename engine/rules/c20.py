"""C20 — the bounded cache is transparent and stays within its capacity.

Closed obligation list over `LimitedCache` (anchored by its public name, which the test suite uses):
I1 map is private and mutated only by LimitedCache's own methods
I2 every growth site is dominated by a capacity guard that calls the shrinking method
I3 the shrinking method removes at least one entry of a non-empty map (pivot is a stored stamp; every stamp <= pivot is rejected)
I4 the constructor rejects capacity < 1
T1 get returns the value stored under the looked-up key; get_or_set stores under the same key, returns the computed value, inserts nothing on error
R1 recency: use stamps with a fresh maximum; the pivot is strictly below the maximum stamp for every length 2..64
"""
from . import ir
from .report import m_replace

META = {
    "level": "other",
    "explanation": (
        "Closed list of structural obligations that make `len <= max_length` inductive (I1 private map, mutated only in "
        "impl LimitedCache; I2 each growth site dominated by `len >= max -> cleanup`; I3 cleanup's retain predicate rejects "
        "every stamp <= pivot and the pivot is read from the stored stamps; I4 constructor enforces capacity >= 1), "
        "transparency by dataflow (T1: value returned is the one bound from the map entry of the parameter key; get_or_set "
        "adds under a clone of the same key, returns a clone of the computed value, and `?` precedes the insertion), and "
        "recency (R1: get/add stamp with a strictly increasing counter; the extracted pivot-index expression e(len) is "
        "evaluated for len 1..64 and must satisfy 0 <= e(len) < len and, for len >= 2, e(len) < len-1 on an ascending sort). (Claimed as `proof` for most of the session; lowered to `other` after the seeded change C20f showed the stamp order of `add` was not among the obligations; R1|add|stamp was added.)"),
    "not_decided": "HashMap itself; behaviour for capacity 1 (the clause 'just-used entry survives' is unsatisfiable there); byte-budget to capacity arithmetic.",
    "trusted_base": ["std::collections::HashMap, Vec::sort*", "rustc privacy checking (private field)", "u64 stamp counter does not overflow"],
}

GROW = ("insert", "entry", "extend", "try_insert", "or_insert", "or_insert_with", "or_default")
SHRINK = ("retain", "remove", "clear", "drain", "remove_entry", "extract_if")


def _self_field(n, field):
    n = ir.strip(n)
    return n is not None and n.get("k") == "field" and n.get("name") == field and ir.place_str(n["e"]) == "self"


def eval_bool(n, env):
    """tiny interpreter for the retain predicate: returns True/False/None"""
    n = ir.unparen(n)
    if n is None:
        return None
    k = n.get("k")
    if k == "lit" and n.get("lk") == "bool":
        return n["v"]
    if k == "block":
        for st in n.get("stmts", ()):
            if st.get("k") in ("ret",):
                return eval_bool(st.get("e"), env)
            if st.get("k") == "semi" and st["e"].get("k") == "ret":
                return eval_bool(st["e"].get("e"), env)
            if st.get("k") == "if" or (st.get("k") == "semi" and st["e"].get("k") == "if"):
                x = st if st.get("k") == "if" else st["e"]
                c = eval_bool(x["c"], env)
                if c is None:
                    return None
                br = x["then"] if c else x.get("else")
                if br is not None and ir.diverges(br):
                    return eval_bool(br, env)
        return eval_bool(n.get("tail"), env) if "tail" in n else None
    if k == "if":
        c = eval_bool(n["c"], env)
        if c is None:
            return None
        return eval_bool(n["then"] if c else n.get("else"), env)
    if k == "un" and n.get("op") == "!":
        v = eval_bool(n["e"], env)
        return None if v is None else (not v)
    if k == "bin":
        op = n["op"]
        if op in ("&&", "||"):
            a, b = eval_bool(n["l"], env), eval_bool(n["r"], env)
            if a is None or b is None:
                return None
            return (a and b) if op == "&&" else (a or b)
        a, b = ir.const_eval(n["l"], env), ir.const_eval(n["r"], env)
        if a is None or b is None:
            return None
        return {"<": a < b, "<=": a <= b, ">": a > b, ">=": a >= b, "==": a == b, "!=": a != b}.get(op)
    if k == "ret":
        return eval_bool(n.get("e"), env)
    return None


def rules(ck, P):
    adts = P.adt_suffix("::limited_cache::LimitedCache")
    if not ck.anchor("C20", "LimitedCache type", adts, 1):
        return
    # transparency as the two readers see it: what they cache under a key is a function of that key (shared with C16 / C13)
    from . import c16 as _c16
    _c16._cache_key_rules(ck, P)
    adt = adts[0]
    Q = adt["q"]
    fields = {f["name"]: f for f in adt["variants"][0]["fields"]}
    maps = [f for f in fields.values() if "HashMap<" in f["t"] or "BTreeMap<" in f["t"] or "IndexMap<" in f["t"]]
    if not ck.anchor("C20", "map field", maps, 1):
        return
    mapf = maps[0]["name"]
    caps = [f for f in fields.values() if f["t"] == "usize"]
    ck.anchor("C20", "capacity field", caps, 1)
    methods = [b for b in P.bodies if b.get("self_adt") == Q and b["dk"] == "AssocFn"]
    ck.anchor("C20", "LimitedCache methods", methods, 5)

    # ---- I1
    ck.check(maps[0]["vis"] not in ("pub", "crate"), "I1", Q + "." + mapf, "map field is private (vis=%s)" % maps[0]["vis"],
             "map field is visible outside the module (vis=%s): any code can grow the cache" % maps[0]["vis"])
    n_acc = 0
    for b in P.bodies:
        for n in ir.walk_nodes(b["body"]):
            if n.get("k") == "field" and n.get("name") == mapf and "LimitedCache<" in n["e"].get("t", "") + n["e"].get("ta", ""):
                n_acc += 1
                if n.get("ta", "").startswith("&mut") and not (b.get("self_adt") == Q and "trait" not in b):
                    ck.violation("I1", b["q"] + "|mut-access", "map mutated outside impl LimitedCache", ir.loc(n))
    ck.ok("I1", "mut-access", "all %d accesses to the map are in impl LimitedCache; mutable ones only in its inherent methods" % n_acc)

    # ---- classify methods
    def map_calls(b, names):
        out = []
        for n in ir.walk_nodes(b["body"]):
            if n.get("k") == "mcall" and n.get("name") in names:
                r = n["recv"]
                # receiver chain rooted at self.<map>
                x = r
                while x.get("k") == "mcall":
                    x = x["recv"]
                if _self_field(x, mapf):
                    out.append(n)
        return out

    shrinkers = [b for b in methods if map_calls(b, SHRINK)]
    growers = [b for b in methods if map_calls(b, GROW)]
    ck.anchor("I3", "shrinking methods", shrinkers, 1)
    ck.anchor("I2", "growth methods", growers, 1)
    shr_q = {b["q"] for b in shrinkers}

    # ---- I2
    cap_names = [f["name"] for f in caps]
    for b in growers:
        blk = ir.fn_block(b)
        sts = ir.stmts_of(blk)
        guard_i = None
        guard_desc = None
        for i, st in enumerate(sts):
            x = st["e"] if st.get("k") == "semi" else st
            if x.get("k") != "if":
                continue
            c = ir.cmp_norm(x["c"])
            lenp = "self.%s.len()" % mapf
            good = any(ir.cmp_holds_as(c, lenp, (">=",), "self." + cn) for cn in cap_names) or \
                any(ir.cmp_holds_as(c, lenp, ("==",), "self." + cn) for cn in cap_names)
            calls_shrink = ir.contains(x["then"], lambda y: y.get("k") == "mcall" and y.get("q") in shr_q and ir.place_str(y["recv"]) == "self")
            if good and calls_shrink:
                guard_i, guard_desc = i, "%s %s %s" % c
                break
            if c and calls_shrink and not good:
                guard_desc = "%s %s %s" % c
        grow_sites = map_calls(b, GROW)
        for gi, g in enumerate(grow_sites):
            if g.get("name") in ("or_insert", "or_insert_with", "or_default"):
                continue  # counted through their `entry` receiver
            pos = next((i for i, st in enumerate(sts) if ir.contains(st, lambda y: y is g)), None)
            key = "%s|%s#%d" % (b["q"], g["name"], gi)
            ck.check(guard_i is not None and pos is not None and pos > guard_i, "I2", key,
                     "growth site `%s` is dominated by capacity guard `%s` -> shrink" % (g["name"], guard_desc),
                     "growth site `%s` is not dominated by a guard `len >= max_length` that calls the shrinking method (guard seen: %s): "
                     "the map can exceed its capacity" % (g["name"], guard_desc), ir.loc(g))
            if guard_i is not None and pos is not None:
                # no other growth between guard and this site is needed because each site is checked itself
                pass

    # ---- I3 + R1 pivot
    for b in shrinkers:
        blk = ir.fn_block(b)
        sts = ir.stmts_of(blk)
        for r in map_calls(b, SHRINK):
            key = "%s|%s" % (b["q"], r["name"])
            if r["name"] == "clear":
                ck.ok("I3", key, "clear() empties the map")
                continue
            if r["name"] != "retain" or not r.get("a") or r["a"][0].get("k") != "closure":
                ck.violation("I3", key, "unrecognised shrinking idiom `%s`: cannot show that it removes an entry" % r["name"], ir.loc(r))
                continue
            clo = r["a"][0]
            # stamp binding inside the closure and pivot local outside
            binds = [x for p in clo["params"] for x in ir.pat_binds(p)]
            stamp = [x for x in binds if "u64" in x["t"]]
            if not stamp:
                ck.violation("I3", key, "retain predicate does not look at a stamp", ir.loc(r))
                continue
            shid = stamp[0]["hid"]
            caps_ = [c for c in clo.get("caps", ()) if "u64" in c.get("t", "") or "usize" in c.get("t", "")]
            if not caps_:
                ck.violation("I3", key, "retain predicate does not compare against a pivot captured from the enclosing body", ir.loc(r))
                continue
            phid = caps_[0]["hid"]
            res = []
            for sv in (0, 1, 2):
                res.append(eval_bool(clo["body"], {shid: sv, phid: 1}))
            ck.check(res[0] is False and res[1] is False, "I3", key + "|predicate",
                     "retain rejects every stamp <= pivot (kept for stamp<p,=p,>p: %s)" % res,
                     "retain keeps an entry whose stamp is <= pivot (kept for stamp<p,=p,>p: %s): a cleanup may remove nothing and the map grows past its capacity" % res, ir.loc(r))
            ck.check(res[2] is True, "R1", key + "|keeps-newer",
                     "retain keeps stamps above the pivot", "retain drops stamps above the pivot (kept: %s)" % res, ir.loc(r))
            # pivot definition: let pivot = coll[e(len)] with coll collected from self.<map> and sorted ascending
            plet = None
            for n in ir.walk_nodes(blk):
                if n.get("k") == "let" and any(x["hid"] == phid for x in ir.pat_binds(n["pat"])):
                    plet = n
            if plet is None or ir.strip(plet["init"]).get("k") != "index":
                ck.violation("I3", key + "|pivot", "pivot is not read from a collection of the stored stamps", ir.loc(r))
                continue
            idx = ir.strip(plet["init"])
            coll_hid = ir.local_hid(idx["e"])
            clet = None
            for n in ir.walk_nodes(blk):
                if n.get("k") == "let" and any(x["hid"] == coll_hid for x in ir.pat_binds(n["pat"])):
                    clet = n
            from_map = clet is not None and ir.contains(clet["init"], lambda y: _self_field(y, mapf)) and \
                ir.contains(clet["init"], lambda y: y.get("k") == "mcall" and y.get("name") in ("values", "iter", "values_mut", "iter_mut"))
            ck.check(from_map, "I3", key + "|pivot-from-map", "pivot collection is built from the stamps currently in the map",
                     "pivot collection is not built from the map's own stamps", ir.loc(plet))
            coll_name = next(x["name"] for x in ir.pat_binds(clet["pat"]) if x["hid"] == coll_hid) if clet else "?"
            sorted_asc = False
            pi = next((i for i, st in enumerate(sts) if st is plet), 10 ** 6)
            for i, st in enumerate(sts):
                if i < pi and ir.contains(st, lambda y: y.get("k") == "mcall" and y.get("name") in ("sort", "sort_unstable")
                                          and ir.local_hid(y["recv"]) == coll_hid and not y.get("a")):
                    sorted_asc = True
            bad_range, bad_recency = [], []
            for L in range(1, 65):
                e = ir.const_eval(idx["i"], {"%s.len()" % coll_name: L})
                if e is None:
                    bad_range.append((L, None))
                    break
                if not (0 <= e < L):
                    bad_range.append((L, e))
                if L >= 2 and not e < L - 1:
                    bad_recency.append((L, e))
            ck.check(not bad_range, "I3", key + "|pivot-in-range", "pivot index e(len) is within 0..len for len 1..64",
                     "pivot index out of range or not evaluable at (len, e): %s" % bad_range[:4], ir.loc(idx))
            ck.check(sorted_asc, "R1", key + "|sorted", "stamps are sorted ascending before the pivot is taken",
                     "stamps are not sorted ascending (sort/sort_unstable without comparator) before the pivot is taken: the pivot may be the newest stamp", ir.loc(idx))
            ck.check(not bad_recency, "R1", key + "|pivot-below-max",
                     "e(len) < len-1 for len 2..64: the newest stamp is strictly above the pivot and survives",
                     "pivot index reaches the newest stamp at (len, e(len)) = %s: the entry that was just used is evicted" % bad_recency[:4], ir.loc(idx))

    # ---- I4
    n_ctor = 0
    for b in P.bodies:
        for n in ir.walk_nodes(b["body"]):
            if n.get("k") == "struct" and n.get("q") == Q:
                n_ctor += 1
                for f in n["fields"]:
                    if f["name"] in cap_names:
                        h = ir.local_hid(f["e"])
                        nm = ir.place_str(f["e"])
                        guarded = False
                        for x in ir.walk_nodes(b["body"]):
                            if x.get("k") == "if" and ir.diverges(x["then"]):
                                c = ir.cmp_norm(x["c"])
                                if c and (ir.cmp_holds_as(c, nm, ("<",), "1") or ir.cmp_holds_as(c, nm, ("==", "<="), "0")):
                                    guarded = True
                        lit = ir.const_eval(f["e"], {})
                        ck.check(guarded or (lit is not None and lit >= 1), "I4", b["q"] + "|" + f["name"],
                                 "constructor rejects capacity < 1 before building the cache",
                                 "constructor stores a capacity that may be 0 (no diverging guard `%s < 1`)" % nm, ir.loc(n))
    ck.anchor("I4", "constructor sites", n_ctor, 1)
    # the capacity derived from a byte budget counts whole (K, V) entries: budget / (size_of::<K>() + size_of::<V>())
    wm = [b for b in P.bodies if b["q"] == Q + "::with_maximum_size"]
    if ck.anchor("I4", "with_maximum_size", wm, 1):
        b = wm[0]
        lets = {}
        for n in ir.walk_nodes(b["body"]):
            if n.get("k") == "let" and "init" in n and n["pat"].get("k") == "bind":
                lets[n["pat"]["hid"]] = n["init"]
        st = [n for n in ir.walk_nodes(b["body"]) if n.get("k") == "struct" and n.get("q") == Q]
        okb = False
        why = "capacity field is not a quotient"
        if st:
            capf = [f for f in st[0]["fields"] if f["name"] in cap_names]
            e = ir.strip(capf[0]["e"]) if capf else None
            if e is not None and e.get("k") == "path" and e.get("r") == "local":
                e = ir.strip(lets.get(e["hid"], e))
            num = den = None
            if e is not None and e.get("k") == "mcall" and e.get("name") == "div" and e.get("a"):
                num, den = e["recv"], e["a"][0]
            elif e is not None and e.get("k") == "bin" and e.get("op") == "/":
                num, den = e["l"], e["r"]
            if num is not None:
                d = ir.strip(den)
                if d.get("k") == "path" and d.get("r") == "local":
                    d = ir.strip(lets.get(d["hid"], d))
                sizes = sorted((y.get("ga") or "").strip("[]").split("/")[0] for y in ir.walk_nodes(d) if y.get("k") == "call" and (y.get("q") or "").endswith("mem::size_of"))
                plus_only = all(y.get("op") == "+" for y in ir.walk_nodes(d) if y.get("k") == "bin")
                pm = [x["name"] for p_ in b["params"] for x in ir.pat_binds(p_)]
                okb = sizes == ["K", "V"] and plus_only and ir.place_str(num) in pm
                why = "budget %s divided by sizes of %s" % (ir.place_str(num), sizes)
        ck.check(okb, "I4", b["q"] + "|budget", "capacity = byte budget / (size_of::<K>() + size_of::<V>())", "capacity from the byte budget is not budget / (size of key + size of value): %s" % why, ir.loc(b))

    # ---- T1 / R1 stamping
    counter = [f["name"] for f in fields.values() if f["t"] == "u64"]
    for b in methods:
        for n in ir.walk_nodes(b["body"]):
            if n.get("k") in ("assign", "assignop") and any(_self_field(n["l"], c) for c in counter):
                ok = n.get("k") == "assignop" and n.get("op") == "+=" and (ir.const_eval(n["r"], {}) or 0) > 0
                ck.check(ok, "R1", b["q"] + "|counter", "stamp counter only increases", "stamp counter is reset or decreased", ir.loc(n))
    # R1 for add: a new entry is stamped with a counter value that no earlier access can have received — the counter is incremented BEFORE its
    # value is stored with the entry (get increments before stamping too; increment-after in one of them gives two entries the same stamp)
    adders = [b for b in methods if b["q"].endswith("::add")]
    if ck.anchor("R1", "add", adders, 1):
        b = adders[0]

        def order_(n):
            for c in ir.children(n):
                yield from order_(c)
            yield n
        seq = list(order_(b["body"]))
        pos = {id(n): i for i, n in enumerate(seq)}
        incs = [n for n in seq if n.get("k") == "assignop" and n.get("op") == "+=" and any(_self_field(n["l"], c) for c in counter)]
        # where the stamp is stored: a tuple (value, <counter>) handed to a map-writing call
        uses = []
        for n in seq:
            if n.get("k") == "tup" and len(n.get("es", ())) == 2 and any(any(_self_field(y, c) for c in counter) for y in ir.walk_nodes(n["es"][1]) if y.get("k") == "field"):
                uses.append(n)
        ok_add = len(incs) == 1 and len(uses) >= 1 and all(pos[id(incs[0])] < pos[id(u)] for u in uses)
        ck.check(ok_add, "R1", b["q"] + "|stamp", "add increments the counter before the new entry's stamp is taken from it",
                 "add stores the stamp %s the counter is incremented (increments: %d): a lookup hit followed by an insertion gives two entries the same stamp, "
                 "and an eviction can then remove the entry that was used last" % ("before" if incs and uses else "without a clear order to where", len(incs)), ir.loc(b))
    getters = [b for b in methods if b["q"].endswith("::get")]
    if ck.anchor("T1", "get", getters, 1):
        b = getters[0]
        keyp = ir.pat_binds(b["params"][1])[0]
        lookups = [n for n in ir.walk_nodes(b["body"]) if n.get("k") == "mcall" and n.get("name") in ("get", "get_mut")
                   and _self_field(n["recv"], mapf)]
        ck.check(len(lookups) == 1 and ir.local_hid(lookups[0]["a"][0]) == keyp["hid"], "T1", b["q"] + "|lookup-key",
                 "get looks the map up with its own key parameter", "get does not look up its key parameter", ir.loc(b))
        # Bindings that destructure the looked-up entry, in any idiom: `if let Some((v, s)) = lookup`, a match arm, or the
        # parameter pattern of a closure passed to `.map(..)` on the lookup result.
        val_h, stamp_h = set(), set()
        if lookups:
            L = lookups[0]
            for n in ir.walk_nodes(b["body"]):
                pats = []
                if n.get("k") == "if" and n["c"].get("k") == "letx" and ir.contains(n["c"]["init"], lambda y: y is L):
                    pats.append(n["c"]["pat"])
                if n.get("k") == "match" and ir.contains(n["e"], lambda y: y is L):
                    pats += [a["pat"] for a in n["arms"]]
                if n.get("k") == "mcall" and n.get("name") in ("map", "and_then", "map_or", "map_or_else") and ir.contains(n["recv"], lambda y: y is L):
                    for a in n["a"]:
                        if a.get("k") == "closure":
                            pats += a.get("params", [])
                if n.get("k") == "let" and "init" in n and ir.contains(n["init"], lambda y: y is L):
                    pats.append(n["pat"])
                for p in pats:
                    for x in ir.pat_binds(p):
                        (stamp_h if "u64" in x["t"] else val_h).add(x["hid"])
        # T1: some clone of the stored value is produced, and nothing else is wrapped into the result
        clones = [n for n in ir.walk_nodes(b["body"]) if n.get("k") == "mcall" and n.get("name") == "clone" and ir.local_hid(n["recv"]) in val_h]
        somes = [n for n in ir.walk_nodes(b["body"]) if n.get("k") == "call" and (n.get("q") or "").endswith("Option::Some::{Ctor#0}")]
        somes_ok = all(ir.contains(n, lambda y: y in clones) for n in somes)
        ok_ret = bool(clones) and somes_ok
        # R1: evaluation order  counter += c  ...  (copy = self.counter)?  ...  *stamp = self.counter | copy
        def order(n):
            for c in ir.children(n):
                yield from order(c)
            yield n
        events = []
        copies = set()
        for n in order(b["body"]):
            if n.get("k") == "assignop" and any(_self_field(n["l"], c) for c in counter) and n.get("op") == "+=":
                events.append(("inc", n))
            elif n.get("k") == "let" and "init" in n and any(_self_field(n["init"], c) for c in counter) and n["pat"].get("k") == "bind":
                copies.add(n["pat"]["hid"])
                events.append(("copy", n["pat"]["hid"]))
            elif n.get("k") == "assign" and ir.local_hid(n["l"]) in stamp_h:
                src = "counter" if any(_self_field(n["r"], c) for c in counter) else (ir.local_hid(n["r"]) if ir.local_hid(n["r"]) in copies else None)
                events.append(("stamp", src))
        stamp_ok = False
        why = "no stamp assignment found"
        kinds = [e[0] for e in events]
        if "stamp" in kinds:
            si = kinds.index("stamp")
            src = events[si][1]
            incs = [i for i, e in enumerate(events) if e[0] == "inc"]
            if src == "counter":
                stamp_ok = any(i < si for i in incs)
                why = "the counter is not incremented before it is copied into the stamp"
            elif src is not None:
                ci = next(i for i, e in enumerate(events) if e == ("copy", src))
                stamp_ok = any(i < ci for i in incs)
                why = "the stamp value is read from the counter before (or without) the increment: hits do not get a fresh maximum"
            else:
                why = "the stamp is not set from the counter"
        ck.check(ok_ret, "T1", b["q"] + "|returns-stored", "get returns a clone of the value stored under the key", "get does not return the value bound from the map entry", ir.loc(b))
        ck.check(stamp_ok, "R1", b["q"] + "|stamp", "get stamps the entry with a freshly incremented counter", "get does not stamp the entry with a fresh maximum: " + why, ir.loc(b))
        # ... on EVERY hit: the only condition above the stamp assignment is the hit itself (a hit that keeps its old stamp "because it is
        # recent enough" can be at the median when the next insertion evicts, and is dropped although it was just used)
        extra = []
        for n, parents, _ in ir.walk(b["body"]):
            if n.get("k") == "assign" and ir.local_hid(n["l"]) in stamp_h:
                for p_ in parents:
                    if p_.get("k") == "if" and not (lookups and ir.contains(p_["c"], lambda y: y is lookups[0])):
                        extra.append((p_["c"].get("src") or ir.place_str(p_["c"]) or "condition")[:60])
                    elif p_.get("k") == "match" and not (lookups and ir.contains(p_["e"], lambda y: y is lookups[0])):
                        extra.append("match")
        ck.check(stamp_ok and not extra, "R1", b["q"] + "|stamp-every-hit", "every hit is restamped: nothing but the hit itself conditions the stamp assignment",
                 "a hit is restamped only under %s: an entry that was just used can keep an old stamp, reach the median and be evicted by the next insertion" % extra, ir.loc(b))
    gos = [b for b in methods if b["q"].endswith("::get_or_set")]
    if ck.anchor("T1", "get_or_set", gos, 1):
        b = gos[0]
        keyp = ir.pat_binds(b["params"][1])[0]
        cbp = ir.pat_binds(b["params"][2])[0]
        blk = ir.fn_block(b)
        sts = ir.stmts_of(blk)
        # (a) early return of the cached value from self.get(key)
        hit = any(ir.contains(s_, lambda y: y.get("k") == "mcall" and y.get("q", "").endswith("LimitedCache::get") and ir.local_hid(y["a"][0]) == keyp["hid"]) for s_ in sts)
        ck.check(hit, "T1", b["q"] + "|hit-path", "get_or_set consults get(key) with its own key", "get_or_set does not consult the cache with its key", ir.loc(b))
        # (b) value = callback()? ; add(key.clone(), value) after it; return Ok(clone of value)
        vlet = None
        for s_ in sts:
            if s_.get("k") == "let" and ir.contains(s_.get("init", {}), lambda y: y.get("k") == "call" and y.get("f") is not None and ir.local_hid(y["f"]) == cbp["hid"]):
                vlet = s_
        ok_b = False
        if vlet is not None:
            has_try = ir.strip(vlet["init"]).get("k") == "try"
            vh = ir.pat_binds(vlet["pat"])[0]["hid"]
            derived = {vh}
            for s_ in sts:
                if s_.get("k") == "let" and "init" in s_ and s_["init"].get("k") == "mcall" and s_["init"].get("name") == "clone" and ir.local_hid(s_["init"]["recv"]) in derived:
                    derived.add(ir.pat_binds(s_["pat"])[0]["hid"])
            vi = sts.index(vlet)
            add = None
            for i, s_ in enumerate(sts):
                for y in ir.walk_nodes(s_):
                    if y.get("k") == "mcall" and y.get("q", "").endswith("LimitedCache::add"):
                        add = (i, y)
            tail = sts[-1]
            ret_ok = tail.get("k") == "call" and "Ok" in tail.get("q", "") and (ir.local_hid(tail["a"][0]) in derived or
                                                                                  (tail["a"][0].get("k") == "mcall" and tail["a"][0].get("name") == "clone" and ir.local_hid(tail["a"][0]["recv"]) in derived))
            if add:
                i, y = add
                k0 = y["a"][0]
                key_ok = (k0.get("k") == "mcall" and k0.get("name") == "clone" and ir.local_hid(k0["recv"]) == keyp["hid"])
                val_ok = ir.local_hid(y["a"][1]) in derived or (y["a"][1].get("k") == "mcall" and y["a"][1].get("name") == "clone" and ir.local_hid(y["a"][1]["recv"]) in derived)
                ok_b = has_try and i > vi and key_ok and val_ok and (ret_ok or (tail is sts[i] or ir.contains(tail, lambda z: z is y)))
        ck.check(ok_b, "T1", b["q"] + "|miss-path",
                 "on a miss the callback result passes `?` first, is stored under a clone of the same key and returned",
                 "miss path of get_or_set is not `v = callback()?; add(key.clone(), v); Ok(v)`: wrong key, wrong value, or insertion before the error check", ir.loc(b))


def mutants(P):
    Q = "versatiles_core::types::limited_cache::LimitedCache::"
    out = []

    def guard_gt(body):
        return m_replace(body, lambda n: n.get("k") == "bin" and n.get("op") == ">=", lambda n: n.__setitem__("op", ">"))
    out.append(("add: capacity guard `>=` weakened to `>`", Q + "add", guard_gt))

    def pred_lt(body):
        return m_replace(body, lambda n: n.get("k") == "bin" and n.get("op") == "<=", lambda n: n.__setitem__("op", "<"))
    out.append(("cleanup: retain predicate `<=` weakened to `<`", Q + "cleanup", pred_lt))

    def pivot_len(body):
        def fn(n):
            n["a"][0]["v"] = 1
        return m_replace(body, lambda n: n.get("k") == "mcall" and n.get("name") == "div", fn)
    out.append(("cleanup: pivot index len/1 (out of range)", Q + "cleanup", pivot_len))

    def no_sort(body):
        from .report import m_drop_stmt
        return m_drop_stmt(body, lambda n: n.get("k") == "mcall" and n.get("name") == "sort_unstable")
    out.append(("cleanup: stamps not sorted", Q + "cleanup", no_sort))

    def wrong_key(body):
        def fn(n):
            n["a"][0] = {"k": "lit", "lk": "int", "v": 0, "t": "K"}
        return m_replace(body, lambda n: n.get("k") == "mcall" and n.get("name") in ("get_mut", "get") and n.get("a"), fn)
    out.append(("get: looks up a different key", Q + "get", wrong_key))

    def no_stamp(body):
        from .report import m_drop_stmt
        return m_drop_stmt(body, lambda n: n.get("k") == "assignop")
    out.append(("get: does not advance the stamp counter", Q + "get", no_stamp))

    def ctor_no_guard(body):
        from .report import m_drop_stmt
        return m_drop_stmt(body, lambda n: n.get("k") == "if")
    out.append(("constructor: capacity guard removed", Q + "with_maximum_size", ctor_no_guard))
    return out
