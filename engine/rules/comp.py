"""E-COMP: compression-encoding typestate shared by C04, C05, C08, C10, C17.

Encodings: 'U' identity, 'G' gzip, 'B' brotli. Leaf summaries are derived from which external codec a function
constructs (resolved callee paths), everything above is evaluated with the abstract interpreter."""
from . import absint, ir
from .absint import OPAQUE, is_variant, mk_variant, ok

TC = "versatiles_core::types::tile_compression::TileCompression::"
VARIANTS = {"U": TC + "Uncompressed", "G": TC + "Gzip", "B": TC + "Brotli"}
ENC_OF = {v: k for k, v in VARIANTS.items()}
NAMES = {"U": "Uncompressed", "G": "Gzip", "B": "Brotli"}

CODECS = [
    (("flate2::bufread::GzEncoder", "flate2::read::GzEncoder", "flate2::write::GzEncoder", "flate2::gz::bufread::GzEncoder", "flate2::gz::read::GzEncoder", "flate2::gz::write::GzEncoder"), ("U", "G")),
    (("flate2::bufread::GzDecoder", "flate2::read::GzDecoder", "flate2::write::GzDecoder", "flate2::gz::bufread::GzDecoder", "flate2::gz::read::GzDecoder", "flate2::gz::write::GzDecoder",
      "flate2::bufread::MultiGzDecoder", "flate2::gz::bufread::MultiGzDecoder"), ("G", "U")),
    (("brotli::enc::encode::BrotliCompress", "brotli::BrotliCompress", "brotli::enc::BrotliCompress", "brotli::enc::writer::CompressorWriter", "brotli::CompressorWriter", "brotli::CompressorReader"), ("U", "B")),
    (("brotli::BrotliDecompress", "brotli_decompressor::BrotliDecompress", "brotli_decompressor::reader::Decompressor", "brotli::Decompressor", "brotli_decompressor::BrotliDecompress"), ("B", "U")),
]


def variant(enc):
    return mk_variant(VARIANTS[enc])


def enc_of(v):
    if isinstance(v, tuple) and v[0] == "v":
        return ENC_OF.get(v[1])
    return None


def leaf_summaries(P):
    """workspace functions that directly drive an external codec -> (from, to)"""
    out = {}
    for b in P.bodies:
        if b["dk"] not in ("Fn", "AssocFn"):
            continue
        found = set()
        for n in ir.walk_nodes(b["body"]):
            if n.get("k") in ("call", "mcall", "struct", "path"):
                q = n.get("q") or ""
                for prefixes, summ in CODECS:
                    if any(q.startswith(p) for p in prefixes):
                        found.add(summ)
        if len(found) == 1:
            out[b["q"]] = next(iter(found))
        elif len(found) > 1:
            out[b["q"]] = None  # mixes codecs: not a leaf
    return out


class CompInterp(absint.Interp):
    """abstract interpreter with codec leaf handlers; records codec misuse"""

    def __init__(self, P, leaves=None, extra=None):
        self.leaves = leaves if leaves is not None else leaf_summaries(P)
        self.errors = []
        handlers = {}
        for q, summ in self.leaves.items():
            if summ is None:
                continue
            handlers[q] = self._mk_leaf(q, summ)
        handlers.update({
            "alloc::sync::Arc::new": lambda it, a, n: a[0],
            "alloc::sync::Arc::get_mut": lambda it, a, n: absint.some(a[0]),
            "alloc::vec::Vec::new": lambda it, a, n: ("list", []),
            "alloc::vec::Vec::push": self._push,
            "core::slice::<impl [T]>::iter": lambda it, a, n: a[0],
            "[T]::iter": lambda it, a, n: a[0],
            "*EnumSet::contains": lambda it, a, n: (a[1] in a[0][1]) if isinstance(a[0], tuple) and a[0][0] == "set" else OPAQUE,
            "*EnumSet::is_empty": lambda it, a, n: (len(a[0][1]) == 0) if isinstance(a[0], tuple) and a[0][0] == "set" else OPAQUE,
            "*EnumSet::insert": self._set_insert,
            "core::cmp::PartialEq::eq": lambda it, a, n: a[0] == a[1],
            "core::cmp::PartialEq::ne": lambda it, a, n: a[0] != a[1],
        })
        if extra:
            handlers.update(extra)
        super().__init__(P, handlers)

    def _mk_leaf(self, q, summ):
        def h(it, args, node):
            b = args[0]
            if not (isinstance(b, tuple) and b[0] == "blob"):
                return OPAQUE
            if b[1] != summ[0]:
                self.errors.append("%s (%s->%s) applied to a payload that is %s-encoded" % (q.rsplit("::", 1)[-1], summ[0], summ[1], b[1]))
                return ok(("blob", "?"))
            return ok(("blob", summ[1]))
        return h

    def _push(self, it, args, node):
        if isinstance(args[0], tuple) and args[0][0] == "list":
            args[0][1].append(args[1])
        return ("tuple", [])

    def _set_insert(self, it, args, node):
        return OPAQUE


def deep_place(n, lets, depth=0):
    """place string with local accessor aliases expanded through their let initialisers"""
    n = ir.strip(n) if n is not None else None
    if n is None or depth > 8:
        return "?"
    k = n.get("k")
    if k == "path":
        if n.get("r") == "local":
            init = lets.get(n["hid"])
            if init is not None and _accessor(init):
                return deep_place(init, lets, depth + 1)
            nm = n["name"]
            return "self" if nm == "__self" else nm
        return absint.vname(n.get("q")) or "?"
    if k == "field":
        return deep_place(n["e"], lets, depth + 1) + "." + n["name"]
    if k == "mcall":
        if n["name"] in ("clone", "to_owned", "as_ref", "borrow", "deref") and not n["a"]:
            return deep_place(n["recv"], lets, depth + 1)
        return deep_place(n["recv"], lets, depth + 1) + "." + n["name"] + "()"
    if k in ("try", "await", "cast"):
        return deep_place(n["e"], lets, depth + 1)
    if k == "call":
        return (n.get("q") or "?").rsplit("::", 1)[-1] + "(" + ",".join(deep_place(a, lets, depth + 1) for a in n.get("a", ())) + ")"
    return ir.place_str(n)


def _accessor(n):
    n = ir.strip(n)
    k = n.get("k")
    if k in ("path", "field"):
        return k == "path" or _accessor(n["e"])
    if k == "mcall":
        return not n.get("a") and _accessor(n["recv"])
    if k in ("try", "await"):
        return _accessor(n["e"])
    return False


def lets_of(body):
    """hid -> initialiser for `let x = e;`, and component-wise for `let (a, b) = (e1, e2);`"""
    out = {}

    def bind(pat, init):
        if pat.get("k") == "bind":
            out[pat["hid"]] = init
        elif pat.get("k") == "tuple" and init is not None:
            i2 = ir.unparen(init)
            if i2.get("k") == "tup" and len(i2.get("es", ())) == len(pat.get("ps", ())):
                for p_, e_ in zip(pat["ps"], i2["es"]):
                    bind(p_, e_)
    for n in ir.walk_nodes(body["body"]):
        if n.get("k") == "let" and "init" in n:
            bind(n["pat"], n["init"])
    return out


def calls_to(body, suffixes):
    if isinstance(suffixes, str):
        suffixes = (suffixes,)
    return [n for n in ir.walk_nodes(body["body"]) if n.get("k") in ("call", "mcall") and (n.get("q") or "").endswith(tuple(suffixes))]


def meta_pair_rules(ck, P, rule="E-COMP-META"):
    """metadata is compressed with the compression the container records, and decompressed with the recorded one"""
    def impl_fn(trait_suffix, adt_suffix, name):
        for i in P.impls_of(trait_suffix):
            if i.get("self_adt", "").endswith(adt_suffix):
                return P.impl_method(i, name)
        return None

    # ---- versatiles
    w = impl_fn("::TilesWriterTrait", "::VersaTilesWriter", "write_to_writer")
    r = [b for b in P.bodies if b["q"].endswith("versatiles::reader::VersaTilesReader::open_reader")]
    if ck.anchor(rule, "versatiles writer/reader", [x for x in [w] + r if x], 2):
        wl = lets_of(w)
        hdr = calls_to(w, "FileHeader::new")
        wm = [b for b in P.bodies if b["q"].endswith("versatiles::writer::VersaTilesWriter::write_meta")]
        comp_calls = []
        for fb in [w] + wm:
            fl = lets_of(fb)
            for c in calls_to(fb, "utils::compression::compress"):
                comp_calls.append(deep_place(c["a"][1], fl))
        hp = deep_place(hdr[0]["a"][1], wl) if hdr else "?"
        ck.check(bool(comp_calls) and all(c.endswith("get_parameters().tile_compression") for c in comp_calls) and hp.endswith("get_parameters().tile_compression"),
                 rule, "versatiles|writer", "metadata is compressed with reader.get_parameters().tile_compression, the value the header records (%s / %s)" % (comp_calls, hp),
                 "metadata compression %s and header compression %s are not the same value" % (comp_calls, hp), ir.loc(w))
        rl = lets_of(r[0])
        dec = [deep_place(c["a"][1], rl) for c in calls_to(r[0], "utils::compression::decompress")]
        ck.check(any(d.endswith("header.compression") or ".compression" in d for d in dec), rule, "versatiles|reader",
                 "metadata is decompressed with the header's compression (%s)" % dec, "metadata is not decompressed with header.compression: %s" % dec, ir.loc(r[0]))
        # FileHeader::new stores its compression parameter in the compression field
        fh = [b for b in P.bodies if b["q"].endswith("file_header::FileHeader::new")]
        if fh:
            pn = [ir.pat_binds(p)[0] for p in fh[0]["params"]]
            st = [n for n in ir.walk_nodes(fh[0]["body"]) if n.get("k") == "struct" and n.get("q", "").endswith("FileHeader")]
            okf = False
            for s in st:
                for f in s["fields"]:
                    if f["name"] == "compression":
                        okf = ir.local_hid(f["e"]) == pn[1]["hid"] and "TileCompression" in pn[1]["t"]
            ck.check(okf and hdr and "TileCompression" in pn[1]["t"], rule, "versatiles|header-field", "FileHeader::new stores its 2nd argument as `compression`",
                     "FileHeader::new does not store the compression argument in `compression`", ir.loc(fh[0]))
    # ---- pmtiles
    w = impl_fn("::TilesWriterTrait", "::PMTilesWriter", "write_to_writer")
    r = [b for b in P.bodies if b["q"].endswith("pmtiles::reader::PMTilesReader::open_reader")]
    if ck.anchor(rule, "pmtiles writer/reader", [x for x in [w] + r if x], 2):
        wl = lets_of(w)
        cc = [deep_place(c["a"][1], wl) for c in calls_to(w, "utils::compression::compress")]
        dirs = [deep_place(c["a"][-1], wl) for c in calls_to(w, "EntriesV3::as_directory")]
        hdrset = [deep_place(n["r"], wl) for n in ir.walk_nodes(w["body"]) if n.get("k") == "assign" and ir.strip(n["l"]).get("k") == "field" and ir.strip(n["l"]).get("name") == "internal_compression"]
        same = set(cc) | set(dirs)
        ck.check(len(same) == 1 and hdrset and all(next(iter(same)).split("::")[-1] in h for h in hdrset), rule, "pmtiles|writer",
                 "metadata and directories are compressed with one constant (%s) and the header records it (%s)" % (sorted(same), hdrset),
                 "pmtiles internal compression is not one value: compress=%s directories=%s header=%s" % (cc, dirs, hdrset), ir.loc(w))
        rl = lets_of(r[0])
        dec = [deep_place(c["a"][1], rl) for c in calls_to(r[0], "utils::compression::decompress")]
        ck.check(len(dec) >= 2 and all(".internal_compression" in d for d in dec), rule, "pmtiles|reader",
                 "metadata and root directory are decompressed with header.internal_compression (%s)" % dec,
                 "pmtiles reader does not decompress with header.internal_compression: %s" % dec, ir.loc(r[0]))
    # ---- tar / directory: file name suffix and compress argument come from the same value
    for fmt in ("tar", "directory"):
        adt = "::TarTilesWriter" if fmt == "tar" else "::DirectoryTilesWriter"
        cands = [impl_fn("::TilesWriterTrait", adt, nm) for nm in ("write_to_path", "write_to_writer")]
        cands = [c for c in cands if c is not None and calls_to(c, "utils::compression::compress")]
        w = cands[0] if cands else None
        if not ck.anchor(rule, fmt + " writer", [w] if w else [], 1):
            continue
        wl = lets_of(w)
        cc = [c for c in calls_to(w, "utils::compression::compress")]
        ext = [n for n in ir.walk_nodes(w["body"]) if n.get("k") == "mcall" and (n.get("q") or "").endswith("TileCompression::extension")]
        okw = False
        desc = ""
        if cc and ext:
            a = deep_place(cc[0]["a"][1], wl)
            e = deep_place(ext[0]["recv"], wl)
            desc = "%s / %s" % (a, e)
            okw = a == e and a.endswith("tile_compression")
            # and the meta file name uses that extension
            names = [n for n in ir.walk_nodes(w["body"]) if n.get("src", "").startswith("format!(\"tiles.json")]
            okw = okw and bool(names)
        ck.check(okw, rule, fmt + "|writer", "tiles.json is compressed with the value whose extension() names the file (%s)" % desc,
                 "tiles.json compression and its file-name extension come from different values (%s)" % desc, ir.loc(w))
    # readers: literal name -> decompress table
    for fmt, q in (("tar", "tar::reader::TarTilesReader::open_path"), ("directory", "directory::reader::DirectoryTilesReader::open_path")):
        r = [b for b in P.bodies if b["q"].endswith(q)]
        if not ck.anchor(rule, fmt + " reader", r, 1):
            continue
        tab = {}
        for n in ir.walk_nodes(r[0]["body"]):
            if n.get("k") == "match":
                for a in n["arms"]:
                    pats = a["pat"]["ps"] if a["pat"].get("k") == "or" else [a["pat"]]
                    for pt in pats:
                        lit = pt.get("e", {}).get("v") if pt.get("k") == "expr" else None
                        if isinstance(lit, str) and lit.startswith(("meta.json", "tiles.json")):
                            dc = [c for c in ir.walk_nodes(a["body"]) if c.get("k") == "call" and (c.get("q") or "").endswith("compression::decompress")]
                            tab[lit] = ENC_OF.get(absint.vname(ir.strip(dc[0]["a"][1]).get("q"))) if dc else "U"
        want = {"tiles.json": "U", "tiles.json.gz": "G", "tiles.json.br": "B"}
        got = {k: tab.get(k) for k in want}
        ck.check(got == want, rule, fmt + "|reader", "reader maps tiles.json[.gz|.br] to identity/gzip/brotli decoding",
                 "reader's metadata name table is %s, expected %s" % (got, want), ir.loc(r[0]))
    # extension table
    ext = [b for b in P.bodies if b["q"].endswith("TileCompression::extension")]
    if ck.anchor(rule, "TileCompression::extension", ext, 1):
        it = absint.Interp(P)
        got = {}
        for e, vq in VARIANTS.items():
            try:
                got[e] = it.call_fn(ext[0]["q"], [mk_variant(vq)])
            except absint.Unsupported as ex:
                got[e] = "unsupported:" + str(ex)
        ck.check(got == {"U": "", "G": ".gz", "B": ".br"}, rule, "extension-table", "extension(): Uncompressed->'', Gzip->'.gz', Brotli->'.br'",
                 "extension table is %s" % got, ir.loc(ext[0]))


def stage_installed(ck, rule, key, b):
    """a transform operation's build() must install the stage on every successful path: no `Ok(source)` / `return Ok(source)`
    that hands back the upstream operation itself (the stage's arguments — e.g. removal of unmatched features — would be ignored)"""
    src = [x for p in b["params"] for x in ir.pat_binds(p) if "OperationTrait" in x["t"] and x["t"].startswith("std::boxed::Box<")]
    if not src:
        ck.violation(rule, key + "|source-param", "build() has no Box<dyn OperationTrait> source parameter", ir.loc(b))
        return
    al = ir.Aliases(b)
    sh = {al.canon(x["hid"]) for x in src}
    bad = []
    for n in ir.walk_nodes(b["body"]):
        if n.get("k") == "call" and (n.get("q") or "").endswith("Result::Ok::{Ctor#0}") and n.get("a"):
            a = ir.strip(n["a"][0])
            while a is not None and a.get("k") in ("cast", "block") and (a.get("e") or a.get("tail")):
                a = ir.strip(a.get("e") or a.get("tail"))
            if a is not None and a.get("k") == "path" and a.get("r") == "local" and al.canon(a["hid"]) in sh:
                bad.append(ir.loc(n))
    ck.check(not bad, rule, key + "|stage-installed", "every successful build path returns the new stage (never the upstream operation itself)",
             "build() returns the upstream operation unchanged at %s: the stage and its arguments are silently dropped on that path" % bad, ir.loc(b))


LEVEL_ADAPTERS_OK = ("iter", "iter_mut", "enumerate", "into_iter", "rev")


def levels_rule(ck, P, rule, names):
    """per-level application: a TileBBoxPyramid method that updates the pyramid level by level must visit EVERY level
    (self.level_bbox.iter_mut()[.enumerate()], no take_while / skip / filter / break) and, where it needs the level number,
    must use the loop's own index or the visited box's `level` field."""
    for nm in names:
        bs = [b for b in P.bodies if b["q"].endswith("TileBBoxPyramid::" + nm)]
        if not ck.anchor(rule, "TileBBoxPyramid::" + nm, bs, 1):
            continue
        b = bs[0]
        loops = [n for n in ir.walk_nodes(b["body"]) if n.get("k") == "for" and "level_bbox" in ir.place_str(n["iter"])]
        key = "levels|" + nm
        if not ck.check(len(loops) == 1, rule, key + "|loop", "%s updates the pyramid in one loop over self.level_bbox" % nm, "%s has %d loops over level_bbox" % (nm, len(loops)), ir.loc(b)):
            continue
        lp = loops[0]
        chain = []
        x = ir.strip(lp["iter"])
        while x is not None and x.get("k") == "mcall":
            chain.append(x["name"])
            x = ir.strip(x["recv"])
        if nm in ("set_zoom_min", "set_zoom_max") and x is not None and x.get("k") == "index":
            verdict = zoom_slice_form(b, lp, x, nm)
            ck.check(verdict is None, rule, key + "|slice", "%s empties exactly the levels outside the limit (slice form, bounds compared as terms)" % nm,
                     "%s (slice form): %s" % (nm, verdict), ir.loc(lp))
            continue
        root = ir.place_str(x) if x is not None else "?"
        bad = [c for c in chain if c not in LEVEL_ADAPTERS_OK]
        ck.check(not bad and root == "self.level_bbox", rule, key + "|all-levels", "%s visits every level (self.level_bbox.%s)" % (nm, ".".join(reversed(chain))),
                 "%s iterates `%s`: levels are skipped by %s, so the operation is not applied to every zoom level" % (nm, ir.place_str(lp["iter"]), bad or root), ir.loc(lp))
        esc = []
        for n, parents, _ in ir.walk(lp["body"]):
            if n.get("k") in ("break", "continue", "ret") and not any(p.get("k") == "closure" for p in parents):
                esc.append(n["k"])
        ck.check(not esc, rule, key + "|no-exit", "no break/continue/return inside the level loop (errors propagate with `?`)", "the level loop contains %s" % esc, ir.loc(lp))
        binds = ir.pat_binds(lp["pat"])
        idx = [z for z in binds if z["t"] == "usize"]
        bb = [z for z in binds if "TileBBox" in z["t"]]
        # level numbers used inside the loop
        uses = []
        for n in ir.walk_nodes(lp["body"]):
            if n.get("k") in ("call", "mcall") and (n.get("q") or "").endswith(("TileBBox::from_geo", "TileBBoxPyramid::get_level_bbox", "TileBBox::new_empty", "TileBBox::new_full")):
                a = n["a"][0]
                uses.append(a)
        okl = True
        for a in uses:
            e = ir.strip(a)
            while e is not None and e.get("k") == "cast":
                e = ir.strip(e["e"])
            from_idx = bool(idx) and ir.local_hid(e) == idx[0]["hid"]
            from_box = bool(bb) and e is not None and e.get("k") == "field" and e.get("name") == "level" and ir.local_hid(e["e"]) == bb[0]["hid"]
            okl = okl and (from_idx or from_box)
        ck.check(okl, rule, key + "|own-level", "level numbers used inside the loop are the loop's own level (%d uses)" % len(uses), "a level number inside the loop is not the visited level", ir.loc(lp))


ORDER_KEEPING = {"into_iter", "iter", "map", "collect", "buffered", "try_collect", "then", "cloned", "copied", "enumerate", "boxed", "await", "unwrap", "expect", "to_vec", "clone", "into", "ok_or", "ok_or_else", "context", "with_context"}
ORDER_KEEPING_FNS = ("future::join_all::join_all", "future::try_join_all::try_join_all", "stream::iter::iter", "Result::Ok::{Ctor#0}", "from_iter")


def sources_in_list_order(ck, rule, key, b, adt):
    """a multi-source read operation stores its sub-pipelines in the order the pipeline text lists them: the expression
    that turns `args.sources` into the stored vector may only use order-preserving combinators (join_all / buffered /
    sequential loop); completion-ordered ones (buffer_unordered, FuturesUnordered, select_all), sorting or reversing
    make `first listed source` / `source order` depend on timing."""
    st = [n for n in ir.walk_nodes(b["body"]) if n.get("k") == "struct" and n.get("q") == adt]
    if not st:
        ck.violation(rule, key + "|sources-order", "operation struct is not built in build()", ir.loc(b))
        return
    f = [x for x in st[0]["fields"] if x["name"] == "sources"]
    lets = lets_of(b)
    init = lets.get(ir.local_hid(f[0]["e"])) if f else None
    if init is None:
        ck.violation(rule, key + "|sources-order", "the stored `sources` value is not a local built in build()", ir.loc(b))
        return
    bad = []
    rooted = False

    def outside_closures(n):
        yield n
        if n.get("k") == "closure":
            return
        for c in ir.children(n):
            yield from outside_closures(c)
    for y in outside_closures(init):
        if y.get("k") == "mcall":
            if y["name"] not in ORDER_KEEPING:
                bad.append(y["name"])
        elif y.get("k") == "call" and y.get("q") and not (y.get("q") or "").endswith(ORDER_KEEPING_FNS) and "f" not in y:
            bad.append(y["q"].rsplit("::", 1)[-1])
        if y.get("k") == "field" and y.get("name") == "sources":
            rooted = True
    # later re-ordering of the vector
    vh = ir.local_hid(f[0]["e"])
    for y in ir.walk_nodes(b["body"]):
        if y.get("k") == "mcall" and ir.local_hid(y["recv"]) == vh and y["recv"].get("ta", "").startswith("&mut") and y["name"] not in ("iter_mut", "push"):
            bad.append(y["name"])
    ck.check(not bad and rooted, rule, key + "|sources-order", "the stored sources are built from args.sources with order-preserving combinators only",
             "the stored sources are produced through %s: their order is completion order / re-ordered, not the order of the pipeline text" % (sorted(set(bad)) or "an expression not rooted in args.sources"), ir.loc(init))


def zoom_slice_form(b, lp, idx, nm):
    """`for bbox in self.level_bbox[..E].iter_mut() { bbox.set_empty() }` (min) / `[S..]` (max): correct iff E = min(limit, LEN)
    resp. S = min(limit, LEN-1) + 1 (or min(limit + 1, LEN)); returns None if correct, else the reason"""
    from . import affine as A
    if ir.place_str(idx["e"]) != "self.level_bbox":
        return "the slice is not taken from self.level_bbox"
    rng = ir.strip(idx["i"])
    if rng.get("k") != "struct":
        return "index expression is not a range"
    kind = (rng.get("q") or "").rsplit("::", 1)[-1]
    env = A.Env()
    A.run(ir.stmts_of(ir.fn_block(b)), env)
    zp = [x for p in b["params"] for x in ir.pat_binds(p) if x["t"] == "u8"]
    if not zp:
        return "no u8 limit parameter"
    L = A.local_sym(zp[0])
    t = (idx["e"].get("t") or "")
    import re
    m = re.search(r";\s*(\d+)\]", t)
    if not m:
        return "array length unknown"
    LEN = int(m.group(1))
    body_calls = [n for n in ir.walk_nodes(lp["body"]) if n.get("k") == "mcall"]
    if [n["name"] for n in body_calls] != ["set_empty"] or any(n.get("k") in ("if", "match", "break", "continue") for n in ir.walk_nodes(lp["body"])):
        return "loop body is not a single unconditional set_empty()"
    bounds = [A.ev(f["e"], env) for f in rng["fields"]]
    if nm == "set_zoom_min":
        if kind != "RangeTo":
            return "levels below the minimum are `[..limit]`, found %s" % kind
        want = [A.tmin(L, A.const(LEN))]
        ok = any(A.eq(bounds[0], w) for w in want)
        return None if ok else "levels [..%s] are emptied, expected [..min(limit, %d)]: level(s) between stay populated or the slice panics" % (A.show(bounds[0]), LEN)
    if kind != "RangeFrom":
        return "levels above the maximum are `[limit+1..]`, found %s" % kind
    want = [A.add(A.tmin(L, A.const(LEN - 1)), A.const(1)), A.tmin(A.add(L, A.const(1)), A.const(LEN))]
    ok = any(A.eq(bounds[0], w) for w in want)
    return None if ok else "levels [%s..] are emptied, expected [min(limit, %d) + 1..]" % (A.show(bounds[0]), LEN - 1)


def pyramid_union_rule(ck, P, rule):
    """TileBBoxPyramid::include_bbox_pyramid is a per-level bounding union over EVERY level of the other pyramid: the loop runs
    over other.iter_levels() (all non-empty levels) or over all level pairs, with no skip/take adaptor and no exit, and merges
    into the level the visited box belongs to; iter_levels itself filters on emptiness only."""
    ib = [b for b in P.bodies if b["q"].endswith("TileBBoxPyramid::include_bbox_pyramid")]
    il = [b for b in P.bodies if b["q"].endswith("TileBBoxPyramid::iter_levels")]
    if not ck.anchor(rule, "TileBBoxPyramid::include_bbox_pyramid / iter_levels", ib + il, 2):
        return
    b = ib[0]
    loops = [n for n in ir.walk_nodes(b["body"]) if n.get("k") == "for"]
    ok = len(loops) == 1
    why = "%d loops" % len(loops)
    if ok:
        lp = loops[0]
        names = [y["name"] for y in ir.walk_nodes(lp["iter"]) if y.get("k") == "mcall"]
        lets = lets_of(b)
        h = ir.local_hid(lp["iter"])
        if h is not None and h in lets:
            names += [y["name"] for y in ir.walk_nodes(lets[h]) if y.get("k") == "mcall"]
        bad = [nm for nm in names if nm not in ("iter_levels", "iter", "iter_mut", "zip", "enumerate", "into_iter")]
        esc = [y["k"] for y in ir.walk_nodes(lp["body"]) if y.get("k") in ("break", "continue", "ret", "if", "match")]
        inc = [y for y in ir.walk_nodes(lp["body"]) if y.get("k") == "mcall" and y.get("name") in ("include_bbox",)]
        lv = ir.pat_binds(lp["pat"])
        tgt_ok = False
        if len(inc) == 1:
            r = ir.strip(inc[0]["recv"])
            if r.get("k") == "index":       # self.level_bbox[bbox.level as usize]
                i_ = ir.strip(r["i"])
                while i_ is not None and i_.get("k") == "cast":
                    i_ = ir.strip(i_["e"])
                tgt_ok = ir.place_str(r["e"]) == "self.level_bbox" and i_ is not None and i_.get("k") == "field" and i_.get("name") == "level" and ir.local_hid(i_["e"]) in {x["hid"] for x in lv} and \
                    ir.local_hid(inc[0]["a"][0]) == ir.local_hid(i_["e"])
            else:                            # zipped pair (own, other)
                tgt_ok = len(lv) == 2 and ir.local_hid(r) == lv[0]["hid"] and ir.local_hid(inc[0]["a"][0]) == lv[1]["hid"] and "zip" in names
        ok = not bad and not esc and tgt_ok and ("iter_levels" in names or "zip" in names)
        why = "adaptors %s, control flow in the loop %s, merge target ok=%s" % (bad or names, esc, tgt_ok)
    ck.check(ok, rule, b["q"] + "|all-levels", "include_bbox_pyramid merges every non-empty level of the other pyramid into the same level of this one",
             "include_bbox_pyramid does not merge every level of the other pyramid (%s): levels behind a zoom gap are missing from the advertised union" % why, ir.loc(b))
    b2 = il[0]
    flt = [y for y in ir.walk_nodes(b2["body"]) if y.get("k") == "mcall" and y.get("name") not in ("iter",)]
    okf = len(flt) == 1 and flt[0]["name"] == "filter" and flt[0]["a"] and flt[0]["a"][0].get("k") == "closure" and \
        ir.unparen(flt[0]["a"][0]["body"]).get("k") == "un" and ir.contains(flt[0]["a"][0]["body"], lambda y: y.get("k") == "mcall" and y.get("name") == "is_empty")
    okf = okf or (len(flt) == 2 and sorted(y["name"] for y in flt) == ["filter", "is_empty"])
    ck.check(okf, rule, b2["q"], "iter_levels yields exactly the non-empty levels", "iter_levels does not yield exactly the non-empty levels (%s)" % [y["name"] for y in flt], ir.loc(b2))
