"""TSIR program model: bodies, items, node traversal, call graph."""
from collections import defaultdict

# ------------------------------------------------------------------ traversal

_CHILD_KEYS = {
    "block": None,  # special
    "let": ("init", "els"),
    "semi": ("e",),
    "call": ("f", "a"),
    "mcall": ("recv", "a"),
    "bin": ("l", "r"),
    "assign": ("r", "l"),
    "assignop": ("r", "l"),
    "un": ("e",),
    "cast": ("e",),
    "field": ("e",),
    "ref": ("e",),
    "ret": ("e",),
    "break": ("e",),
    "yield": ("e",),
    "repeat": ("e",),
    "try": ("e",),
    "await": ("e",),
    "index": ("e", "i"),
    "if": ("c", "then", "else"),
    "letx": ("init",),
    "match": None,  # special
    "closure": ("body",),
    "for": ("iter", "body"),
    "while": ("c", "body"),
    "loop": ("body",),
    "struct": None,  # special
    "tup": ("es",),
    "array": ("es",),
}


def children(n):
    """child expression nodes in evaluation order"""
    k = n.get("k")
    out = []
    if k == "block":
        out.extend(n.get("stmts", ()))
        if "tail" in n:
            out.append(n["tail"])
        return out
    if k == "match":
        out.append(n["e"])
        for a in n["arms"]:
            _pat_exprs(a["pat"], out)
            if "guard" in a:
                out.append(a["guard"])
            out.append(a["body"])
        return out
    if k == "struct":
        for f in n.get("fields", ()):
            out.append(f["e"])
        if "base" in n:
            out.append(n["base"])
        return out
    keys = _CHILD_KEYS.get(k)
    if not keys:
        return out
    for key in keys:
        v = n.get(key)
        if v is None:
            continue
        if isinstance(v, list):
            out.extend(v)
        else:
            out.append(v)
    return out


def _pat_exprs(p, out):
    # guard expressions embedded in patterns
    if p.get("k") == "guard":
        out.append(p["g"])
        _pat_exprs(p["p"], out)


def walk(n, parents=(), mac=""):
    """pre-order walk yielding (node, parents, effective_macro_chain)."""
    if "m" in n:
        mac = n["m"]
    elif n.get("um"):
        mac = ""
    yield n, parents, mac
    np = parents + (n,)
    for c in children(n):
        yield from walk(c, np, mac)


def walk_nodes(n):
    stack = [n]
    while stack:
        x = stack.pop()
        yield x
        ch = children(x)
        ch.reverse()
        stack.extend(ch)


def pat_binds(p, out=None):
    """all bindings (name, hid, type) of a pattern"""
    if out is None:
        out = []
    k = p.get("k")
    if k == "bind":
        out.append(p)
        if "sub" in p:
            pat_binds(p["sub"], out)
    elif k in ("tstruct", "or", "tuple"):
        for x in p.get("ps", ()):
            pat_binds(x, out)
    elif k == "struct":
        for f in p.get("fields", ()):
            pat_binds(f["p"], out)
    elif k in ("ref", "guard"):
        pat_binds(p["p"], out)
    elif k == "slice":
        for x in p.get("before", ()):
            pat_binds(x, out)
        if "mid" in p:
            pat_binds(p["mid"], out)
        for x in p.get("after", ()):
            pat_binds(x, out)
    return out


def callee(n):
    """resolved callee name of a call-like node (prefers the resolved impl method)"""
    if n.get("k") in ("call", "mcall", "bin", "un", "index", "assignop", "path"):
        return n.get("rvq") or n.get("q")
    return None


def strip(n):
    """peel reference/deref/cast-free wrappers: &x, &mut x, *x, (x)"""
    while n is not None and n.get("k") in ("ref", "un") and (n.get("k") == "ref" or n.get("op") == "*"):
        n = n["e"]
    return n


def is_local(n, name=None):
    n = strip(n)
    return n is not None and n.get("k") == "path" and n.get("r") == "local" and (name is None or n.get("name") == name)


def local_hid(n):
    n = strip(n)
    if n is not None and n.get("k") == "path" and n.get("r") == "local":
        return n["hid"]
    return None


def place_str(n):
    """textual place of an lvalue-like expression: self.a.b / x / *x"""
    n = strip(n)
    if n is None:
        return "?"
    k = n.get("k")
    if k == "path":
        if n.get("r") == "local":
            nm = n["name"]
            return "self" if nm == "__self" else nm
        return n.get("q", "?")
    if k == "field":
        return place_str(n["e"]) + "." + n["name"]
    if k == "index":
        return place_str(n["e"]) + "[]"
    if k == "mcall":
        return place_str(n["recv"]) + "." + n["name"] + "()"
    if k == "call":
        return (n.get("q") or "?") + "()"
    if k in ("try", "await", "cast"):
        return place_str(n["e"])
    if k == "lit":
        return repr(n.get("v"))
    return "<" + k + ">"


def loc(n):
    s = n.get("s")
    if not s:
        return "?"
    return "%s:%d" % (s[0], s[1])


def short(q):
    """last two path segments of a qualified name, for messages"""
    if q is None:
        return "?"
    return q


# ------------------------------------------------------------------ program


CONSTS = {}


class Program:
    def __init__(self, crates, tree_hash):
        self.crates = crates
        self.tree_hash = tree_hash
        self.bodies = []          # all fn-like bodies (dicts)
        self.by_q = defaultdict(list)
        self.adts = {}
        self.impls = []
        self.traits = {}
        self.trait_impl_methods = defaultdict(list)  # trait_item q -> [impl method q]
        for (cname, target), data in crates.items():
            for b in data["bodies"]:
                b["crate"] = cname
                b["target"] = target
                self.bodies.append(b)
                self.by_q[b["q"]].append(b)
            for a in data["adts"]:
                a["crate"] = cname
                self.adts[a["q"]] = a
            for i in data["impls"]:
                i["crate"] = cname
                self.impls.append(i)
                for m in i["methods"]:
                    if "trait_item" in m:
                        self.trait_impl_methods[m["trait_item"]].append(m["q"])
            for t in data["traits"]:
                t["crate"] = cname
                self.traits[t["q"]] = t
        self.trait_defaults = {}
        for t in self.traits.values():
            for m in t["methods"]:
                if m["default"]:
                    self.trait_defaults[m["q"]] = True
        self.workspace_crates = {c for (c, _t) in crates}
        self._cg = None
        CONSTS.clear()
        CONST_BODIES.clear()
        for b in self.bodies:
            if b["dk"].startswith(("Const", "AssocConst", "Static")):
                CONST_BODIES[b["q"]] = b["body"]
        for _ in range(2):
            for b in self.bodies:
                if b["dk"].startswith(("Const", "AssocConst")) and b["q"] not in CONSTS:
                    v = const_eval(b["body"], {})
                    if v is not None:
                        CONSTS[b["q"]] = v

    # ---- lookup helpers
    def fn(self, q):
        """unique body with this qualified name, or None"""
        bs = self.by_q.get(q)
        if bs:
            return bs[0]
        return None

    def fns_matching(self, pred):
        return [b for b in self.bodies if pred(b["q"])]

    def fn_suffix(self, suffix):
        bs = [b for b in self.bodies if b["q"].endswith(suffix)]
        return bs

    def impls_of(self, trait_suffix):
        return [i for i in self.impls if i.get("trait", "").endswith(trait_suffix)]

    def impl_method(self, impl, name, inline=True):
        """body of a trait method of an impl; private straight-line helpers of the same type/module are inlined (depth 2), so that
        structural rules also see code that a refactoring moved into a helper"""
        for m in impl["methods"]:
            if m["name"] == name:
                b = self.fn(m["q"])
                if b is None or not inline:
                    return b
                memo = self.__dict__.setdefault("_inl", {})
                if m["q"] not in memo:
                    ok0 = same_impl_helper(b)

                    def ok(cb):
                        return ok0(cb) and not contains(cb["body"], lambda y: y.get("k") in ("for", "while", "loop"))
                    memo[m["q"]] = inline_helpers(self, b, ok)
                return memo[m["q"]]
        return None

    def adt_suffix(self, suffix):
        r = [a for q, a in self.adts.items() if q.endswith(suffix)]
        return r

    def is_workspace(self, q):
        if q is None:
            return False
        head = q.lstrip("<").split("::", 1)[0]
        return head in self.workspace_crates

    # ---- call graph
    def targets_of(self, n):
        """set of workspace body names a call-like node may invoke"""
        q = n.get("rvq") or n.get("q")
        if q is None:
            return ()
        if n.get("rvq"):
            return (q,)
        if q in self.trait_impl_methods or q in self.trait_defaults:
            # unresolved trait method call (dyn or generic): class hierarchy
            out = list(self.trait_impl_methods.get(q, ()))
            if q in self.trait_defaults:
                out.append(q)
            return tuple(out)
        return (q,)

    def callgraph(self):
        if self._cg is not None:
            return self._cg
        cg = {}
        for b in self.bodies:
            edges = set()
            for n in walk_nodes(b["body"]):
                k = n.get("k")
                if k in ("call", "mcall", "bin", "un", "index", "assignop"):
                    for t in self.targets_of(n):
                        if t in self.by_q:
                            edges.add(t)
                elif k == "path" and n.get("r") == "def" and n.get("dk") in ("Fn", "AssocFn"):
                    for t in self.targets_of(n):
                        if t in self.by_q:
                            edges.add(t)
            cg[b["q"]] = edges
        self._cg = cg
        return cg

    def reachable(self, entries):
        cg = self.callgraph()
        seen = {}
        stack = []
        for e in entries:
            if e in cg and e not in seen:
                seen[e] = None
                stack.append(e)
        while stack:
            f = stack.pop()
            for t in cg.get(f, ()):
                if t not in seen:
                    seen[t] = f
                    stack.append(t)
        return seen  # fn -> predecessor (for call chains)

    def chain(self, seen, f):
        out = [f]
        while seen.get(f) is not None:
            f = seen[f]
            out.append(f)
        return list(reversed(out))


# ------------------------------------------------------------------ small semantic helpers

_FLIP = {"<": ">", "<=": ">=", ">": "<", ">=": "<=", "==": "==", "!=": "!="}
_NEG = {"<": ">=", "<=": ">", ">": "<=", ">=": "<", "==": "!=", "!=": "=="}


def unparen(n):
    while n is not None and n.get("k") == "block" and not n.get("stmts") and "tail" in n:
        n = n["tail"]
    return n


def _operand_str(e):
    v = const_eval(e, {})
    if v is not None and not isinstance(v, bool):
        return str(v)
    return place_str(e)


def cmp_norm(n, negate=False):
    """normalise a comparison to (lhs_place, op, rhs_place); None if n is not a comparison.
    `!(a < b)` becomes a >= b; operands are rendered with place_str."""
    n = unparen(n)
    if n is None:
        return None
    if n.get("k") == "un" and n.get("op") == "!":
        return cmp_norm(n["e"], not negate)
    if n.get("k") == "call" and n.get("q") == "anyhow::__private::not" and n.get("a"):
        return cmp_norm(n["a"][0], not negate)
    if n.get("k") == "bin" and n.get("op") in _FLIP:
        op = n["op"]
        if negate:
            op = _NEG[op]
        return (_operand_str(n["l"]), op, _operand_str(n["r"]))
    # method forms a.lt(b) etc.
    if n.get("k") == "mcall" and n.get("name") in ("lt", "le", "gt", "ge", "eq", "ne") and n.get("a"):
        op = {"lt": "<", "le": "<=", "gt": ">", "ge": ">=", "eq": "==", "ne": "!="}[n["name"]]
        if negate:
            op = _NEG[op]
        return (place_str(n["recv"]), op, place_str(n["a"][0]))
    return None


def cmp_holds_as(c, lhs, ops, rhs):
    """does the normalised comparison c state `lhs OP rhs` for some OP in ops (either orientation)?"""
    if c is None:
        return False
    a, op, b = c
    if a == lhs and b == rhs and op in ops:
        return True
    if a == rhs and b == lhs and _FLIP[op] in ops:
        return True
    return False


PANIC_FNS = ("core::panicking::", "std::rt::begin_panic", "core::option::expect_failed", "core::result::unwrap_failed",
             "std::process::exit", "std::process::abort")


def diverges(n):
    """does evaluating n never complete normally (panic / return / break / continue)?"""
    n = unparen(n)
    if n is None:
        return False
    k = n.get("k")
    if k in ("ret", "break", "continue"):
        return True
    if n.get("t") == "!":
        return True
    if k == "semi":
        return diverges(n["e"])
    if k == "block":
        for st in n.get("stmts", ()):
            if diverges(st):
                return True
        return "tail" in n and diverges(n["tail"])
    if k == "call":
        return (n.get("q") or "").startswith(PANIC_FNS)
    if k == "if":
        return "else" in n and diverges(n["then"]) and diverges(n["else"])
    if k == "match":
        return bool(n["arms"]) and all(diverges(a["body"]) for a in n["arms"])
    return False


import re as _re_mod
_ARRAY_T = _re_mod.compile(r"^&*\[.*; (\d+)\]$")


CONST_BODIES = {}


def walk_with_consts(n, depth=2):
    """walk_nodes that also enters the initialiser of every named constant the expression mentions (`MAGIC` for `b"PMTiles"`)"""
    for y in walk_nodes(n):
        yield y
        if depth > 0 and y.get("k") == "path" and y.get("r") == "def" and y.get("q") in CONST_BODIES:
            yield from walk_with_consts(CONST_BODIES[y["q"]], depth - 1)


def const_eval(n, env):
    """evaluate an integer expression tree with locals from env (name or hid -> int); None if not evaluable"""
    n = unparen(strip(n)) if n is not None else None
    if n is None:
        return None
    k = n.get("k")
    if k == "lit" and n.get("lk") == "int":
        return n["v"]
    if k == "path" and n.get("r") == "local":
        return env.get(n["hid"], env.get(n["name"]))
    if k == "path" and n.get("r") == "def" and n.get("dk", "").startswith(("Const", "AssocConst")):
        return CONSTS.get(n.get("q"))
    if k == "cast":
        return const_eval(n["e"], env)
    if k == "bin":
        a, b = const_eval(n["l"], env), const_eval(n["r"], env)
        if a is None or b is None:
            return None
        return _arith(n["op"], a, b)
    if k == "mcall":
        nm = n.get("name")
        place = place_str(n)
        if place in env:
            return env[place]
        if nm == "len" and not n.get("a"):
            # the length of an array (or of a reference to one) is part of its type: `MAGIC.len()` for `const MAGIC: &[u8; 7]`
            r_ = strip(n["recv"])
            for t_ in ((r_ or {}).get("t"), (n["recv"] or {}).get("t")):
                m_ = _ARRAY_T.match((t_ or "").replace("&'static ", "&"))
                if m_:
                    return int(m_.group(1))
        if nm in ("div", "add", "sub", "mul", "rem", "shr", "shl", "saturating_sub", "wrapping_sub", "min", "max") and n.get("a"):
            a, b = const_eval(n["recv"], env), const_eval(n["a"][0], env)
            if a is None or b is None:
                return None
            op = {"div": "/", "add": "+", "sub": "-", "mul": "*", "rem": "%", "shr": ">>", "shl": "<<", "wrapping_sub": "-"}.get(nm)
            if op:
                return _arith(op, a, b)
            if nm == "saturating_sub":
                return max(a - b, 0)
            if nm == "min":
                return min(a, b)
            if nm == "max":
                return max(a, b)
        return None
    if k == "field" or k == "index":
        return env.get(place_str(n))
    return None


def _arith(op, a, b):
    try:
        if op == "+":
            return a + b
        if op == "-":
            return a - b
        if op == "*":
            return a * b
        if op == "/":
            return a // b
        if op == "%":
            return a % b
        if op == ">>":
            return a >> b
        if op == "<<":
            return a << b
    except (ZeroDivisionError, ValueError):
        return None
    return None


def stmts_of(block):
    """top-level statements of a block, tail included as the last"""
    out = list(block.get("stmts", ()))
    if "tail" in block:
        out.append(block["tail"])
    return out


def contains(n, pred):
    return any(pred(x) for x in walk_nodes(n))


def fn_block(body):
    """the user-visible top-level block of a fn body; looks through the async_trait wrapper
    (Box::pin(async move { ...; let __ret: T = { USER BLOCK }; __ret }))"""
    b = body["body"]
    for n in walk_nodes(b):
        if n.get("k") == "let" and n.get("pat", {}).get("name") == "__ret" and "init" in n and n["init"].get("k") == "block":
            return n["init"]
    # plain async fn: body is a closure (coroutine) wrapping the block
    clo = b if b.get("k") == "closure" else (b.get("tail") if b.get("k") == "block" and not b.get("stmts") and b.get("tail", {}).get("k") == "closure" else None)
    if clo is not None and "Coroutine" in clo.get("ck", ""):
        inner = clo["body"]
        # async fn desugaring: block { let param = param; ..; tail: USER BLOCK }
        if inner.get("k") == "block" and inner.get("tail", {}).get("k") == "block" and \
                all(st.get("k") == "let" and "Async" in st.get("m", "") for st in inner.get("stmts", ())):
            return inner["tail"]
        return inner
    return b


class Aliases:
    """plain-copy aliases inside one body: `let b = a;` (async/async_trait parameter re-bindings, `let __self = self`)"""

    def __init__(self, body):
        self.m = {}
        for n in walk_nodes(body["body"] if "body" in body and "k" not in body else body):
            if n.get("k") == "let" and "init" in n and n["pat"].get("k") == "bind":
                i = n["init"]
                if i.get("k") == "path" and i.get("r") == "local":
                    self.m[n["pat"]["hid"]] = i["hid"]

    def canon(self, h):
        seen = 0
        while h in self.m and seen < 10:
            h = self.m[h]
            seen += 1
        return h

    def hid(self, n):
        h = local_hid(n)
        return None if h is None else self.canon(h)


def const_eval_str(n):
    """string literal value of an expression (through refs / to_string / String::from), else None"""
    n = unparen(strip(n)) if n is not None else None
    while n is not None and n.get("k") in ("mcall", "call") and (n.get("name") in ("to_string", "to_owned", "into", "as_str") or (n.get("q") or "").endswith(("String::from", "From::from"))):
        n = unparen(strip(n["recv"] if n.get("k") == "mcall" else n["a"][0]))
    if n is not None and n.get("k") == "lit" and n.get("lk") == "str":
        return n["v"]
    return None


# ------------------------------------------------------------------ helper inlining

def inline_helpers(P, body, accept, depth=2, _k=[0]):
    """deep copy of `body` in which every call to a workspace function accepted by `accept(callee_body)` is replaced by a block
    `{ let <param_i> = <arg_i>; …; <callee body> }` (locals of the callee are renumbered so that they cannot clash).
    Rules that reason about one function then also see code that a refactoring moved into a private helper."""
    import copy

    def renumber(n, off):
        if isinstance(n, dict):
            if "hid" in n and isinstance(n["hid"], int):
                n["hid"] += off
            for c_ in n.get("caps", ()) if isinstance(n.get("caps"), list) else ():
                if isinstance(c_.get("hid"), int):
                    c_["hid"] += off
            for k_, v in n.items():
                if k_ != "caps":
                    renumber(v, off)
        elif isinstance(n, list):
            for v in n:
                renumber(v, off)

    def subst(n, d):
        if isinstance(n, list):
            return [subst(x, d) for x in n]
        if not isinstance(n, dict):
            return n
        n = {k_: subst(v, d) for k_, v in n.items()}
        if d > 0 and n.get("k") in ("call", "mcall") and not n.get("f"):
            q = n.get("rvq") or n.get("q")
            cb = P.fn(q) if q in P.by_q else None
            if cb is not None and cb is not body and accept(cb):
                _k[0] += 1
                off = 1000000 * _k[0]
                params = copy.deepcopy(cb.get("params", []))
                cbody = copy.deepcopy(fn_block(cb))
                renumber(params, off)
                renumber(cbody, off)
                args = ([n["recv"]] if n.get("k") == "mcall" else []) + list(n.get("a", ()))
                if len(args) != len(params):
                    return n
                stmts = [{"k": "let", "pat": p_, "init": a_, "s": n.get("s"), "inl": q} for p_, a_ in zip(params, args)]
                inner = subst(cbody, d - 1)
                return {"k": "block", "stmts": stmts, "tail": inner, "t": n.get("t"), "s": n.get("s"), "inl": q}
        return n
    out = dict(body)
    out["body"] = subst(copy.deepcopy(body["body"]), depth)
    out["_inlined"] = True
    return out


def same_impl_helper(body):
    """acceptance predicate: private (non-pub, non-trait) functions of the same type or module as `body`"""
    adt = body.get("self_adt")
    mod = body["q"].lstrip("<").rsplit("::", 1)[0]

    def ok(cb):
        if cb.get("trait_item") or cb.get("vis") == "pub":
            return False
        if adt and cb.get("self_adt") == adt:
            return True
        return cb["q"].rsplit("::", 1)[0] == mod
    return ok


def deep_has_lit(n, v):
    """a literal with value v anywhere in an expression, patterns of `if let` / match arms included"""
    if isinstance(n, dict):
        if n.get("k") == "lit" and n.get("v") == v:
            return True
        return any(deep_has_lit(x, v) for x in n.values())
    if isinstance(n, (list, tuple)):
        return any(deep_has_lit(x, v) for x in n)
    return False
