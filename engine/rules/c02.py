"""C02 — bounding-box tile stream equals the single-tile lookups inside the box.

R-STREAM-TOTAL  census over every stream implementation: no panic-capable site may depend on the requested box vs. the
                source's coverage (the stream must finish without failure for boxes beyond the coverage and empty boxes);
                every other site is classed io-or-corrupt (outside C02: valid sources) or invariant (reviewed).
R-TMS           MBTiles: writer, lookup and stream denote the same bijection tile_row = M - y, with lower/upper row
                bounds swapped in the range query and columns bound in the order the SQL text names them.
R-DEFAULT       the default stream enumerates the argument box and pairs each lookup result with the coordinate it asked for.
R-CLIP          every overriding stream restricts its output to the argument box by construction (forwarding a narrowed
                box, enumerating the box, SQL bounds, or a contains-filter on box ∩ block).
R-SLOT          overlay / merge index their per-sub-box result slots and turn them back into coordinates with the same
                sub-box binding, sized by that binding's tile count.
"""
import re

from . import census, ir
from .report import m_drop_stmt, m_replace

META = {
    "level": "other",
    "explanation": (
        "Decides the structural part of C02 for every stream implementation at once (12 implementations found through the "
        "trait, not by name): (R-STREAM-TOTAL) a census of panic-capable sites reachable from all get_bbox_tile_stream / "
        "get_tile_stream bodies, where no site may depend on the relation between the requested box and the stored coverage; "
        "(R-TMS) the SQL texts of the MBTiles writer, lookup and range query are parsed and matched against the bound parameter "
        "expressions in a normal form M - y, so that all three use one row flip and the range bounds are swapped correctly; "
        "(R-DEFAULT/R-CLIP) each stream either enumerates the argument box, forwards a box derived from it by narrowing "
        "operations (or the converter's inverse transform, C06), or filters by containment in box ∩ block; (R-SLOT) overlay "
        "and merge address their result slots through one sub-box binding."),
    "not_decided": "chunk merge arithmetic of the versatiles stream (64 MiB / 32 KiB gap, slice offsets); identity of bytes between lookup and stream (both read the same index entry — C01/C16 decide the index agreement); multithreaded execution beyond C14's per-item argument.",
    "trusted_base": ["TileBBox primitives (iter_coords, contains3, intersect_*, get_tile_index3/get_coord3_by_index) behave as sets (C15, not decided here)", "SQLite evaluates the range query as written",
                     "reviewed-table reasons (tables/stream_sites.json)"],
}


def stream_entries(P):
    out = []
    for b in P.bodies:
        ti = b.get("trait_item", "")
        if ti.endswith(("TilesReaderTrait::get_bbox_tile_stream", "OperationTrait::get_tile_stream")):
            out.append(b["q"])
        if b["q"].endswith("TilesReaderTrait::get_bbox_tile_stream") and b.get("trait_default_of"):
            out.append(b["q"])
    return sorted(set(out))


# ------------------------------------------------------------------ SQL helpers

def sql_literals(b):
    return [n for n in ir.walk_nodes(b["body"]) if n.get("k") == "lit" and n.get("lk") == "str" and re.search(r"\b(SELECT|INSERT)\b", n.get("v", ""))]


def parse_insert(sql):
    m = re.search(r"INSERT\s+INTO\s+(\w+)\s*\(([^)]*)\)\s*VALUES\s*\(([^)]*)\)", sql, re.I)
    if not m:
        return None
    cols = [c.strip() for c in m.group(2).split(",")]
    vals = [v.strip() for v in m.group(3).split(",")]
    return m.group(1), cols, vals


def parse_where(sql):
    """[(column, op)] in placeholder order"""
    m = re.search(r"\bWHERE\b(.*)$", sql, re.I | re.S)
    if not m:
        return None
    out = []
    for part in re.split(r"\bAND\b", m.group(1), flags=re.I):
        mm = re.match(r"\s*(\w+)\s*(>=|<=|=|<|>)\s*\?\d*\s*$", part)
        if not mm:
            return None
        out.append((mm.group(1), mm.group(2)))
    return out


def parse_select_cols(sql):
    m = re.search(r"SELECT\s+(.*?)\s+FROM\b", sql, re.I | re.S)
    return [c.strip() for c in m.group(1).split(",")] if m else None


class RowNorm:
    """normal form of a bound parameter: ('id', field) or ('flip', field) where flip = M - field with
    M = 2^z - 1 or TileBBox.max"""

    def __init__(self, b):
        self.lets = {}
        for n in ir.walk_nodes(b["body"]):
            if n.get("k") == "let" and "init" in n and n["pat"].get("k") == "bind":
                self.lets[n["pat"]["hid"]] = n["init"]

    def is_max(self, e, depth=0):
        e = ir.unparen(ir.strip(e))
        if e is None or depth > 4:
            return False
        if e.get("k") == "field" and e.get("name") == "max" and "TileBBox" in (e["e"].get("t", "") + e["e"].get("ta", "")):
            return True
        if e.get("k") == "path" and e.get("r") == "local":
            init = self.lets.get(e["hid"])
            return init is not None and self.is_max(init, depth + 1)
        if e.get("k") == "bin" and e.get("op") == "-" and ir.const_eval(e["r"], {}) == 1:
            l = ir.unparen(e["l"])
            if l.get("k") == "mcall" and l.get("name") == "pow" and ir.const_eval(l["recv"], {}) == 2:
                return True
            if l.get("k") == "bin" and l.get("op") == "<<" and ir.const_eval(l["l"], {}) == 1:
                return True
        return False

    def norm(self, e):
        e = ir.unparen(ir.strip(e))
        while e is not None and e.get("k") in ("cast", "try"):
            e = ir.unparen(ir.strip(e["e"]))
        if e is None:
            return ("?", "?")
        if e.get("k") == "bin" and e.get("op") == "-" and self.is_max(e["l"]):
            inner = self.norm(e["r"])
            if inner[0] == "id":
                return ("flip", inner[1])
            return ("?", ir.place_str(e))
        if e.get("k") == "field":
            return ("id", e["name"])
        if e.get("k") == "mcall" and e.get("name") in ("get",) and e.get("a"):
            v = ir.const_eval(e["a"][0], {})
            return ("id", "col%s" % v)
        if e.get("k") == "mcall" and e.get("name") in ("as_slice", "as_ref", "clone", "to_vec"):
            return self.norm(e["recv"])
        if e.get("k") == "path" and e.get("r") == "local":
            return ("id", e["name"])
        return ("?", ir.place_str(e))


def param_array(call):
    """element expressions of the parameter array passed to execute/query_row/query_map"""
    for a in call.get("a", ()):
        for x in ir.walk_nodes(a):
            if x.get("k") == "array":
                return [ir.strip(el) for el in x["es"]]
            if x.get("k") == "closure":
                break
    return None


def rules(ck, P):
    from . import boxalg as _boxalg
    _boxalg.box_core_rules(ck, P)
    E = stream_entries(P)
    ck.anchor("R-STREAM-TOTAL", "stream implementations", E, 10)
    # ---------------- R-STREAM-TOTAL
    t19 = census.load_table("panic_sites.json")
    tst = census.load_table("stream_sites.json")
    seen = P.reachable(E)
    n_sites = 0
    stats = {"auto": 0, "reviewed": 0, "shared-with-C19": 0, "violation": 0}
    for fq in sorted(seen):
        b = P.fn(fq)
        if b is None:
            continue
        for s in census.collect_sites(P, b):
            n_sites += 1
            why = census.auto_discharge(s)
            if why:
                stats["auto"] += 1
                continue
            e = tst.get(s.key)
            lapsed = census.entry_lapsed(e, s) if e is not None else None
            if e is not None and lapsed is None:
                stats["reviewed"] += 1
                ck.ok("R-STREAM-TOTAL", s.key, "%s: %s" % (e["class"], e["reason"]), s.loc)
                continue
            if s.key in t19 and lapsed is None:
                from . import c19 as _c19
                lapsed = census.entry_lapsed(t19[s.key], s) or _c19.validate_witness(P, t19[s.key], s)
                if lapsed is None:
                    stats["shared-with-C19"] += 1
                    continue
            stats["violation"] += 1
            chain = P.chain(seen, fq)
            ck.violation("R-STREAM-TOTAL", s.key, "panic-capable %s site `%s` in a stream (reached from %s) is not classified: the stream has no error channel, so a site that "
                         "depends on the requested box vs. the stored coverage makes valid requests fail%s" % (
                             s.kind, s.desc, chain[0].split(">::")[-1], " (reviewed entry lapsed: %s)" % (lapsed or census.entry_lapsed(t19.get(s.key) or {}, s)) if (lapsed or s.key in t19) else ""), s.loc)
    ck.anchor("R-STREAM-TOTAL", "census size", n_sites, 60)
    ck.note("R-STREAM-TOTAL: %d reachable bodies, %d sites: %s" % (len(seen), n_sites, stats))

    # ---------------- R-TMS
    mbr = [i for i in P.impls_of("::TilesReaderTrait") if i.get("self_adt", "").endswith("::MBTilesReader")]
    mbw = [b for b in P.bodies if b["q"].endswith("mbtiles::writer::MBTilesWriter::add_tiles")]
    if ck.anchor("R-TMS", "MBTiles reader impl + writer add_tiles", mbr + mbw, 2):
        look = P.impl_method(mbr[0], "get_tile_data")
        strm = P.impl_method(mbr[0], "get_bbox_tile_stream")
        w = mbw[0]
        # writer
        rn = RowNorm(w)
        ok_w, desc = False, ""
        for lit in sql_literals(w):
            pi = parse_insert(lit["v"])
            if pi and pi[0] == "tiles":
                calls = [n for n in ir.walk_nodes(w["body"]) if n.get("k") == "mcall" and n.get("name") == "execute" and ir.contains(n, lambda y: y is lit)]
                arr = param_array(calls[0]) if calls else None
                if arr and len(arr) == len(pi[1]):
                    m = {c: rn.norm(a) for c, a in zip(pi[1], arr)}
                    desc = str(m)
                    ok_w = m.get("zoom_level") == ("id", "z") and m.get("tile_column") == ("id", "x") and m.get("tile_row") == ("flip", "y") and pi[2] == ["?%d" % (i + 1) for i in range(len(pi[1]))]
        ck.check(ok_w, "R-TMS", w["q"] + "|insert", "writer binds zoom_level=z, tile_column=x, tile_row=M-y (%s)" % desc, "writer row/column binding is %s" % desc, ir.loc(w))
        # lookup
        rn = RowNorm(look)
        ok_l, desc = False, ""
        for lit in sql_literals(look):
            wh = parse_where(lit["v"])
            calls = [n for n in ir.walk_nodes(look["body"]) if n.get("k") == "mcall" and n.get("name") in ("query_row", "query_map", "query")]
            arr = param_array(calls[0]) if calls else None
            if wh and arr and len(arr) == len(wh):
                m = {c: (op, rn.norm(a)) for (c, op), a in zip(wh, arr)}
                desc = str(m)
                ok_l = m.get("tile_column") == ("=", ("id", "x")) and m.get("tile_row") == ("=", ("flip", "y")) and m.get("zoom_level") == ("=", ("id", "z"))
        ck.check(ok_l, "R-TMS", look["q"] + "|where", "lookup binds tile_column=x, tile_row=M-y, zoom_level=z in the order of the SQL text (%s)" % desc,
                 "lookup parameter binding is %s" % desc, ir.loc(look))
        # stream
        rn = RowNorm(strm)
        ok_s, ok_r, desc, desc2 = False, False, "", ""
        for lit in sql_literals(strm):
            wh = parse_where(lit["v"])
            cols = parse_select_cols(lit["v"])
            calls = [n for n in ir.walk_nodes(strm["body"]) if n.get("k") == "mcall" and n.get("name") in ("query_row", "query_map", "query")]
            arr = param_array(calls[0]) if calls else None
            if wh and arr and len(arr) == len(wh):
                got = [(c, op, rn.norm(a)) for (c, op), a in zip(wh, arr)]
                desc = str(got)
                want = {("tile_column", ">=", ("id", "x_min")), ("tile_column", "<=", ("id", "x_max")), ("tile_row", ">=", ("flip", "y_max")),
                        ("tile_row", "<=", ("flip", "y_min")), ("zoom_level", "=", ("id", "level"))}
                ok_s = set(got) == want
            # result mapping
            if cols and calls:
                clo = [a for a in calls[0]["a"] if a.get("k") == "closure"]
                tc = [n for c in clo for n in ir.walk_nodes(c["body"]) if n.get("k") == "call" and (n.get("q") or "").endswith("TileCoord3::new")]
                if tc:
                    xs = [rn.norm(a) for a in tc[0]["a"]]

                    def colname(nf):
                        if nf[1].startswith("col") and nf[1][3:].isdigit() and int(nf[1][3:]) < len(cols):
                            return (nf[0], cols[int(nf[1][3:])])
                        return nf
                    xs = [colname(x) for x in xs]
                    desc2 = str(xs)
                    ok_r = xs == [("id", "tile_column"), ("flip", "tile_row"), ("id", "zoom_level")]
                    blobs = [n for c in clo for n in ir.walk_nodes(c["body"]) if n.get("k") == "mcall" and n.get("name") == "get" and "Vec<u8>" in (n.get("ga") or "")]
                    if blobs:
                        bi = ir.const_eval(blobs[0]["a"][0], {})
                        ok_r = ok_r and bi is not None and bi < len(cols) and cols[bi] == "tile_data"
        ck.check(ok_s, "R-TMS", strm["q"] + "|range", "range query bounds: column in [x_min,x_max], row in [M-y_max, M-y_min] (swapped), zoom=level",
                 "range query binding is %s: the image of [y_min,y_max] under row = M-y is [M-y_max, M-y_min]" % desc, ir.loc(strm))
        ck.check(ok_r, "R-TMS", strm["q"] + "|result", "result rows map to (tile_column, M-tile_row, zoom_level) and tile_data", "result mapping is %s" % desc2, ir.loc(strm))
        emp = ir.contains(strm["body"], lambda y: y.get("k") == "if" and ir.diverges(y["then"]) and ir.contains(y["c"], lambda z: z.get("k") == "mcall" and z.get("name") == "is_empty"))
        ck.check(emp, "R-TMS", strm["q"] + "|empty", "an empty box returns an empty stream before M - y_max is computed", "empty boxes are not handled before the row arithmetic", ir.loc(strm))

    # ---------------- R-DEFAULT
    dflt = [b for b in P.bodies if b["q"].endswith("TilesReaderTrait::get_bbox_tile_stream") and b.get("trait_default_of")]
    if ck.anchor("R-DEFAULT", "default get_bbox_tile_stream", dflt, 1):
        b = dflt[0]
        bp = [x for p in b["params"] for x in ir.pat_binds(p) if x["t"].endswith("TileBBox")]
        al = ir.Aliases(b)
        it = [n for n in ir.walk_nodes(b["body"]) if n.get("k") == "mcall" and n.get("name") in ("iter_coords", "into_iter_coords")]
        ok1 = len(it) == 1 and bp and al.hid(it[0]["recv"]) == bp[0]["hid"]
        ck.check(ok1, "R-DEFAULT", b["q"] + "|enumerates-arg", "coordinates come from iter_coords() of the argument box", "coordinates do not come from the argument box", ir.loc(b))
        if ok1:
            # every coordinate of the box is asked for: only 1:1 adaptors between iter_coords() and the collected list
            chain = []
            for y, ps, _ in ir.walk(b["body"]):
                if y is it[0]:
                    cur = y
                    for p_ in reversed(ps):
                        if p_.get("k") == "mcall" and ir.strip(p_["recv"]) is cur:
                            chain.append(p_["name"])
                            cur = p_
                        elif p_.get("k") in ("paren", "try") and ir.strip(p_.get("e", {})) is cur:
                            cur = p_
                        else:
                            break
            lossy = [nm for nm in chain if nm not in ("collect", "map", "copied", "cloned", "into_iter", "iter", "rev", "enumerate", "inspect", "peekable", "by_ref")]
            ck.check(not lossy, "R-DEFAULT", b["q"] + "|all-coords", "every coordinate of the box is looked up (adaptors after iter_coords(): %s)" % chain,
                     "the default stream drops coordinates of the box before looking them up (%s after iter_coords()): tiles a single lookup returns are missing from the stream" % lossy, ir.loc(it[0]))
        gtd = [n for n in ir.walk_nodes(b["body"]) if n.get("k") == "mcall" and (n.get("q") or "").endswith("TilesReaderTrait::get_tile_data")]
        ok2 = False
        if len(gtd) == 1:
            ch = ir.local_hid(gtd[0]["a"][0])
            # the emitted tuple uses the same coordinate binding
            tups = [n for n in ir.walk_nodes(b["body"]) if n.get("k") == "tup" and len(n["es"]) == 2 and n["es"][0].get("t", "").endswith("TileCoord3")]
            ok2 = bool(tups) and all(ir.local_hid(t["es"][0]) == ch for t in tups)
        ck.check(ok2, "R-DEFAULT", b["q"] + "|pairs", "each emitted pair carries the coordinate that was looked up", "emitted coordinate is not the looked-up coordinate", ir.loc(b))

    # ---------------- R-AGREE: what the stream clips by, the lookup guards by (and vice versa)
    from . import comp
    n_pairs = 0
    for fq in E:
        b = P.fn(fq)
        if b.get("trait_default_of") or not b.get("self_adt"):
            continue
        look = [x for x in P.bodies if x.get("self_adt") == b["self_adt"] and x.get("trait_item", "").endswith(("TilesReaderTrait::get_tile_data", "OperationTrait::get_tile_data"))
                and x.get("trait_item", "").rsplit("::", 2)[-2] == b.get("trait_item", "").rsplit("::", 2)[-2]]
        if not look:
            continue
        n_pairs += 1
        lk = look[0]
        S, G = {}, {}
        lets_s, lets_l = comp.lets_of(b), comp.lets_of(lk)
        for n in ir.walk_nodes(b["body"]):
            if n.get("k") == "mcall" and n.get("name") in ("intersect_pyramid", "intersect_bbox") and n.get("a"):
                pl = comp.deep_place(n["a"][0], lets_s)
                if pl.startswith("self."):
                    S[pl] = n
        for n in ir.walk_nodes(lk["body"]):
            if n.get("k") == "mcall" and n.get("name") in ("contains_coord", "contains3", "contains") and "TileBBox" in (n.get("q") or ""):
                pl = comp.deep_place(n["recv"], lets_l)
                if pl.startswith("self."):
                    G[pl] = n
        short = b["self_adt"].rsplit("::", 2)[-2] + "::" + b["self_adt"].rsplit("::", 1)[-1]
        extra_s = sorted(set(S) - set(G))
        extra_g = sorted(set(G) - set(S))
        ck.check(not extra_s, "R-AGREE", fq + "|stream-clip-has-lookup-guard", "%s: every coverage the stream clips the box by (%s) also guards the lookup" % (short, sorted(S) or "none"),
                 "the stream clips the requested box by %s but the lookup of the same type returns tiles outside it: the stream delivers fewer tiles than the lookups" % extra_s,
                 ir.loc(S[extra_s[0]]) if extra_s else ir.loc(b))
        ck.check(not extra_g, "R-AGREE", fq + "|lookup-guard-has-stream-clip", "%s: every coverage guarding the lookup (%s) also clips the stream" % (short, sorted(G) or "none"),
                 "the lookup is guarded by %s but the stream is not clipped by it: the stream delivers tiles the lookups do not" % extra_g,
                 ir.loc(G[extra_g[0]]) if extra_g else ir.loc(lk))
    ck.anchor("R-AGREE", "types implementing both lookup and stream", list(range(n_pairs)), 8)
    # a helper of the workspace that both the lookup and the stream of one type call to PRODUCE the tile gets the same configuration on
    # both paths: an argument that is a field of self / a constant on one path must be the same field / constant on the other
    n_shared = 0
    for fq in E:
        b = P.fn(fq)
        if b.get("trait_default_of") or not b.get("self_adt"):
            continue
        look = [x for x in P.bodies if x.get("self_adt") == b["self_adt"] and x.get("trait_item", "").endswith(("TilesReaderTrait::get_tile_data", "OperationTrait::get_tile_data"))
                and x.get("trait_item", "").rsplit("::", 2)[-2] == b.get("trait_item", "").rsplit("::", 2)[-2]]
        if not look:
            continue
        lk = look[0]

        def calls_of(body):
            lets = comp.lets_of(body)
            out = {}
            for n in ir.walk_nodes(body["body"]):
                if n.get("k") == "call" and P.fn(n.get("q") or "") is not None and P.is_workspace(n.get("q") or "") and "::{" not in (n.get("q") or ""):
                    args = []
                    for a in n.get("a", ()):
                        if ir.strip(a).get("k") == "lit":
                            args.append("const:%s" % ir.strip(a).get("v"))
                            continue
                        pl = comp.deep_place(a, lets)
                        args.append(pl if pl.startswith("self.") else None)
                    out.setdefault(n["q"], []).append((args, n))
            return out
        cs, cl = calls_of(b), calls_of(lk)
        for q in sorted(set(cs) & set(cl)):
            if len(cs[q]) != 1 or len(cl[q]) != 1:
                continue
            n_shared += 1
            (as_, ns), (al_, nl) = cs[q][0], cl[q][0]
            diff = [(i, al_[i], as_[i]) for i in range(min(len(as_), len(al_))) if as_[i] is not None and al_[i] is not None and as_[i] != al_[i]]
            diff += [(i, al_[i], as_[i]) for i in range(min(len(as_), len(al_))) if (as_[i] is None) != (al_[i] is None) and str(as_[i] or al_[i]).startswith("const:")]
            ck.check(not diff, "R-AGREE", "%s|same-arguments|%s" % (fq, q.rsplit("::", 1)[-1]), "lookup and stream call %s with the same configuration" % q.rsplit("::", 1)[-1],
                     "lookup and stream of %s call %s with different configuration: %s — the streamed tile is not the tile a lookup returns" %
                     (b["self_adt"].rsplit("::", 2)[-2], q.rsplit("::", 1)[-1], "; ".join("argument %d is `%s` in the lookup and `%s` in the stream" % (i + 1, x, y) for i, x, y in diff)), ir.loc(ns))
    ck.anchor("R-AGREE", "tile-producing helpers shared by lookup and stream", list(range(n_shared)), 1)
    # a zero-length payload is either a tile on both paths or on neither: a reader whose lookup answers None for an empty blob / an empty
    # range while its stream still delivers the coordinate (or the other way round) disagrees with itself on exactly those tiles
    n_e = 0
    for fq in E:
        b = P.fn(fq)
        if b.get("trait_default_of") or not b.get("self_adt") or "::container::" not in b["q"]:
            continue
        look = [x for x in P.bodies if x.get("self_adt") == b["self_adt"] and x.get("trait_item", "").endswith("TilesReaderTrait::get_tile_data")]
        if not look:
            continue
        n_e += 1

        def emptiness(body):
            out = []
            for y in ir.walk_nodes(body["body"]):
                if y.get("k") == "mcall" and y.get("name") == "is_empty" and any(t in ((ir.strip(y["recv"]).get("t") or "") + (ir.strip(y["recv"]).get("ta") or "")) for t in ("Vec<u8>", "Blob", "[u8]", "ByteRange")):
                    out.append(ir.loc(y))
                elif y.get("k") == "bin" and y.get("op") in ("==", "!=", ">", "<", ">=", "<="):
                    for side, other in ((y["l"], y["r"]), (y["r"], y["l"])):
                        pl = ir.place_str(ir.strip(side))
                        if (pl.endswith(".length") or pl.endswith(".len()")) and ir.const_eval(other, {}) in (0, 1) and \
                                any(t in ((ir.strip(ir.strip(side).get("e", ir.strip(side).get("recv", {}))).get("t") or "")) for t in ("ByteRange", "Vec<u8>", "Blob", "[u8]")):
                            out.append(ir.loc(y))
            return out
        es, el = emptiness(b), emptiness(look[0])
        ck.check(bool(es) == bool(el), "R-AGREE", fq + "|empty-payload", "%s: a zero-length payload is treated the same by lookup and stream (%s)" % (b["self_adt"].rsplit("::", 1)[-1], "skipped by both" if es else "delivered by both"),
                 "%s: the %s tests the payload for emptiness (%s) and the %s does not: a stored zero-length tile is delivered by one path and reported absent by the other" %
                 (b["self_adt"].rsplit("::", 1)[-1], "lookup" if el else "stream", (el or es)[:2], "stream" if el else "lookup"), ir.loc(look[0] if el else b))
    ck.anchor("R-AGREE", "container readers with their own stream and lookup", list(range(n_e)), 2)
    # ---------------- R-INDEX-SCAN
    scans = [P.fn(fq) for fq in E if ir.contains(P.fn(fq)["body"], lambda y: y.get("k") == "mcall" and (y.get("q") or "").endswith("::get_block_tile_index"))]
    if ck.anchor("R-INDEX-SCAN", "streams that scan a block's tile index", scans, 1):
        for b in scans:
            _index_scan_rules(ck, P, b)
    # ---------------- R-CLIP / R-SLOT per implementation
    NARROW = ("intersect_bbox", "intersect_pyramid", "clone", "intersect", "to_owned")
    D4 = ("flip_y", "swap_xy")
    for fq in E:
        b = P.fn(fq)
        if b.get("trait_default_of"):
            continue
        bp = [x for p in b["params"] for x in ir.pat_binds(p) if x["t"].endswith("TileBBox")]
        if not bp:
            ck.violation("R-CLIP", fq + "|param", "stream has no TileBBox parameter")
            continue
        al = ir.Aliases(b)
        argh = bp[0]["hid"]
        # locals derived from the argument by clone / rebinding
        derived = {argh}
        changed = True
        while changed:
            changed = False
            for n in ir.walk_nodes(b["body"]):
                if n.get("k") == "let" and "init" in n and n["pat"].get("k") == "bind" and n["pat"]["hid"] not in derived:
                    i = ir.strip(n["init"])
                    while i.get("k") == "mcall" and i.get("name") in ("clone", "to_owned") and not i.get("a"):
                        i = ir.strip(i["recv"])
                    if i.get("k") == "path" and al.hid(i) in derived or (i.get("k") == "path" and i.get("r") == "local" and i["hid"] in derived):
                        derived.add(n["pat"]["hid"])
                        changed = True
        is_derived = lambda e: (ir.local_hid(e) in derived) or (al.hid(e) in derived)
        fwd = [n for n in ir.walk_nodes(b["body"]) if n.get("k") == "mcall" and (n.get("q") or "").endswith(("OperationTrait::get_tile_stream", "TilesReaderTrait::get_bbox_tile_stream"))]
        enum_ = [n for n in ir.walk_nodes(b["body"]) if n.get("k") == "mcall" and n.get("name") in ("iter_coords", "into_iter_coords", "iter_bbox_grid")]
        # mutations applied to derived boxes
        muts = [n for n in ir.walk_nodes(b["body"]) if n.get("k") == "mcall" and n["recv"].get("ta", "").startswith("&mut") and is_derived(n["recv"])]
        bad_mut = [m["name"] for m in muts if m["name"] not in NARROW + D4 + ("scale_down",)]
        kind = None
        if sql_literals(b):
            kind = "sql (R-TMS)"
        elif enum_ and all(_rooted_in(n["recv"], derived, al) for n in enum_):
            grid = [n for n in enum_ if n["name"] == "iter_bbox_grid"]
            kind = "enumerates the argument box" + (" in sub-boxes" if grid else "")
            if grid:
                _slot_rule(ck, P, b, grid[0])
        elif fwd and all(any(is_derived(a) or _rooted_in(a, derived, al) for a in f["a"]) for f in fwd):
            kind = "forwards a box derived from the argument"
        elif ir.contains(b["body"], lambda y: y.get("k") == "mcall" and y.get("name") == "contains3") and \
                ir.contains(b["body"], lambda y: y.get("k") == "mcall" and y.get("name") == "intersect_bbox" and is_derived(y["recv"])):
            kind = "filters by containment in (argument ∩ block)"
            # the filter's receiver must be the intersected clone of the argument
            flt = [n for n in ir.walk_nodes(b["body"]) if n.get("k") == "mcall" and n.get("name") == "filter" and n["a"] and n["a"][0].get("k") == "closure"
                   and ir.contains(n["a"][0]["body"], lambda y: y.get("k") == "mcall" and y.get("name") == "contains3" and is_derived(y["recv"]))]
            ck.check(bool(flt), "R-CLIP", fq + "|filter", "index entries pass a contains3 filter on the clone of the argument intersected with the block box",
                     "no contains3 filter on the argument-derived box before ranges are scheduled", ir.loc(b))
        ck.check(kind is not None and not bad_mut, "R-CLIP", fq, "output restricted to the argument box: %s" % kind,
                 "cannot show that the stream restricts its output to the argument box (mutations on the box: %s)" % bad_mut, ir.loc(b))
        # no coordinate rewriting except the converter's D4 map (C06)
        mc = [n for n in ir.walk_nodes(b["body"]) if n.get("k") == "mcall" and n.get("name") == "map_coord"]
        if mc and not fq.startswith("<versatiles_container::container::converter::TilesConvertReader"):
            ck.violation("R-CLIP", fq + "|map_coord", "stream rewrites coordinates (map_coord) outside the converting reader", ir.loc(mc[0]))


def _rooted_in(e, derived, al):
    e = ir.strip(e)
    while e is not None and e.get("k") == "mcall" and e.get("name") in ("clone", "to_owned", "iter_coords", "into_iter") and not e.get("a"):
        e = ir.strip(e["recv"])
    if e is None or e.get("k") != "path":
        return False
    return e.get("r") == "local" and (e["hid"] in derived or al.canon(e["hid"]) in derived)


def _slot_rule(ck, P, b, grid_call):
    """overlay / merge: one sub-box binding for slot count, slot index and coordinate reconstruction"""
    fq = b["q"]
    # the closure that processes one sub-box: parameter of type TileBBox
    clos = [n for n in ir.walk_nodes(b["body"]) if n.get("k") == "closure" and any(x["t"].endswith("TileBBox") for p in n.get("params", ()) for x in ir.pat_binds(p))]
    if not ck.check(len(clos) >= 1, "R-SLOT", fq + "|sub-box-closure", "per-sub-box closure found", "no closure taking the sub-box", ir.loc(b)):
        return
    clo = clos[0]
    sb = [x for p in clo["params"] for x in ir.pat_binds(p) if x["t"].endswith("TileBBox")][0]["hid"]
    uses = {"count_tiles": [], "get_tile_index3": [], "get_coord3_by_index": []}
    for n in ir.walk_nodes(clo["body"]):
        if n.get("k") == "mcall" and n.get("name") in uses:
            uses[n["name"]].append(ir.local_hid(n["recv"]))
    for nm, hs in uses.items():
        if nm == "get_coord3_by_index" and not hs:
            continue
        ck.check(bool(hs) and all(h == sb for h in hs), "R-SLOT", "%s|%s" % (fq, nm), "%s is taken from the sub-box binding (%d uses)" % (nm, len(hs)),
                 "%s is not taken from the sub-box binding: slots and coordinates would refer to different boxes" % nm, ir.loc(clo))
    # sources are asked for a box derived from the sub-box
    fwd = [n for n in ir.walk_nodes(clo["body"]) if n.get("k") == "mcall" and (n.get("q") or "").endswith("OperationTrait::get_tile_stream")]
    okf = True
    for f in fwd:
        a = ir.strip(f["a"][0])
        h = ir.local_hid(a) if a.get("k") == "path" else None
        if a.get("k") == "mcall" and a.get("name") == "clone":
            h = ir.local_hid(a["recv"])
        if h == sb:
            continue
        # bbox_left: built by include_coord3 of coordinates reconstructed from the sub-box
        inc = [n for n in ir.walk_nodes(clo["body"]) if n.get("k") == "mcall" and n.get("name") == "include_coord3" and ir.local_hid(n["recv"]) == h]
        okf = okf and bool(inc) and all(ir.contains(i["a"][0], lambda y: y.get("k") == "mcall" and y.get("name") == "get_coord3_by_index" and ir.local_hid(y["recv"]) == sb) for i in inc)
    ck.check(bool(fwd) and okf, "R-SLOT", fq + "|asks-sources", "each source is asked for the sub-box or for the bounding box of its still-empty slots",
             "sources are asked for a box that is not derived from the sub-box", ir.loc(clo))
    # every source is asked: loop over self.sources without filtering adapters
    loops = [n for n in ir.walk_nodes(clo["body"]) if n.get("k") == "for" and ir.place_str(n["iter"]).startswith("self.sources")]
    ck.check(bool(loops) and all(ir.place_str(l["iter"]) in ("self.sources.iter()", "self.sources") for l in loops), "R-SLOT", fq + "|all-sources",
             "all sources are visited in declaration order", "source iteration is %s" % [ir.place_str(l["iter"]) for l in loops], ir.loc(clo))
    ck.check((ir.const_eval(grid_call["a"][0], {}) or 0) > 0, "R-SLOT", fq + "|grid", "sub-boxes come from iter_bbox_grid(%s) of the argument box" % ir.const_eval(grid_call["a"][0], {}),
             "grid size is not a positive constant", ir.loc(grid_call))


def mutants(P):
    out = []
    mb = "<versatiles_container::container::mbtiles::reader::MBTilesReader as versatiles_core::types::tiles_reader::TilesReaderTrait>::"

    def swap_rows(body):
        arrs = [n for n in ir.walk_nodes(body["body"]) if n.get("k") == "array" and len(n["es"]) == 5]
        if not arrs:
            return False
        a = arrs[0]["es"]
        a[2], a[3] = a[3], a[2]
        return True
    out.append(("mbtiles stream: row bounds not swapped", mb + "get_bbox_tile_stream", swap_rows))

    def no_flip_lookup(body):
        def fn(n):
            r = n["r"]
            n.clear()
            n.update(r)
        return m_replace(body, lambda n: n.get("k") == "bin" and n.get("op") == "-" and ir.place_str(n["r"]).endswith(".y"), fn)
    out.append(("mbtiles lookup: row not flipped", mb + "get_tile_data", no_flip_lookup))

    ov = "<versatiles_pipeline::operations::read::from_overlayed::Operation as versatiles_pipeline::traits::operation::OperationTrait>::get_tile_stream"

    def wrong_slot_box(body):
        # get_tile_index3 taken from another box binding
        def fn(n):
            n["recv"] = {"k": "path", "r": "local", "name": "bbox_left", "hid": 99999, "t": "versatiles_core::types::tile_bbox::TileBBox"}
        return m_replace(body, lambda n: n.get("k") == "mcall" and n.get("name") == "get_tile_index3", fn)
    out.append(("overlay stream: slot index from a different box", ov, wrong_slot_box))

    vt = "<versatiles_container::container::versatiles::reader::VersaTilesReader as versatiles_core::types::tiles_reader::TilesReaderTrait>::get_bbox_tile_stream"

    def add_panic(body):
        blk = ir.fn_block(body)
        blk["stmts"].insert(0, {"k": "semi", "e": {"k": "call", "q": "core::panicking::panic_fmt", "t": "!", "a": [], "s": body["s"], "m": "panic"}})
        return True
    out.append(("versatiles stream: new panic site", vt, add_panic))

    def default_other_coord(body):
        def fn(n):
            n["es"][0] = {"k": "call", "q": "versatiles_core::types::tile_coords::TileCoord3::new", "t": "versatiles_core::types::tile_coords::TileCoord3", "a": [], "s": n["s"]}
        return m_replace(body, lambda n: n.get("k") == "tup" and len(n.get("es", ())) == 2 and n["es"][0].get("t", "").endswith("TileCoord3"), fn)
    out.append(("default stream: emits a different coordinate", "versatiles_core::types::tiles_reader::TilesReaderTrait::get_bbox_tile_stream", default_other_coord))
    return out


# ------------------------------------------------------------------ index-scan streams (versatiles)

def _index_scan_rules(ck, P, b):
    """A stream that walks a block's tile index instead of asking per coordinate must (V1) turn an index position back
    into a coordinate with the SAME box the lookup uses to turn a coordinate into a position (the block's global box),
    (V2) keep exactly the entries inside argument ∩ block with a non-empty range, (V3) sort by offset before merging
    ranges into chunks (Chunk::push assumes ascending offsets), (V4) cut each tile out of its chunk at
    [range.offset - chunk.offset, + range.length) and (V5) grow a chunk to the end of every entry it takes."""
    from . import affine as A, comp
    fq = b["q"]
    key = fq + "|index-scan"
    lets = comp.lets_of(b)
    gi = [n for n in ir.walk_nodes(b["body"]) if n.get("k") == "mcall" and (n.get("q") or "").endswith("::get_block_tile_index")]
    if not ck.check(len(gi) == 1, "R-INDEX-SCAN", key + "|index", "the stream reads one tile index per block", "%d get_block_tile_index calls" % len(gi), ir.loc(b)):
        return
    blk_place = comp.deep_place(gi[0]["a"][0], lets)
    # V1
    ci = [n for n in ir.walk_nodes(b["body"]) if n.get("k") == "mcall" and n.get("name") in ("get_coord3_by_index", "get_coord2_by_index")]
    ok1 = len(ci) == 1 and comp.deep_place(ci[0]["recv"], lets) == blk_place + ".get_global_bbox()"
    look = [x for x in P.bodies if x.get("self_adt") == b.get("self_adt") and x.get("trait_item", "").endswith("TilesReaderTrait::get_tile_data")]
    lk_ok = False
    if look:
        ll = comp.lets_of(look[0])
        ti = [n for n in ir.walk_nodes(look[0]["body"]) if n.get("k") == "mcall" and n.get("name") in ("get_tile_index2", "get_tile_index3")]
        lk_ok = len(ti) == 1 and comp.deep_place(ti[0]["recv"], ll).endswith(".get_global_bbox()")
    ck.check(ok1 and lk_ok, "R-INDEX-SCAN", key + "|position-box", "index position -> coordinate uses the block's global box, the box the lookup uses for coordinate -> position",
             "index positions are turned into coordinates with `%s`, not with the global box of the block whose index is read (`%s.get_global_bbox()`)" %
             (comp.deep_place(ci[0]["recv"], lets) if ci else "?", blk_place), ir.loc(ci[0]) if ci else ir.loc(b))
    if ci:
        # the position is the enumerate index of the index's own iteration
        clo = None
        for n, parents, _ in ir.walk(b["body"]):
            if n is ci[0]:
                cl = [p for p in parents if p.get("k") == "closure"]
                clo = cl[-1] if cl else None
        ok_idx = False
        if clo is not None:
            binds = [x for p in clo["params"] for x in ir.pat_binds(p)]
            arg = ir.strip(ci[0]["a"][0])
            while arg is not None and arg.get("k") == "cast":
                arg = ir.strip(arg["e"])
            en = [n for n in ir.walk_nodes(b["body"]) if n.get("k") == "mcall" and n.get("name") == "enumerate"]
            src_ok = False
            if len(en) == 1 and ir.strip(en[0]["recv"]).get("k") == "mcall" and ir.strip(en[0]["recv"]).get("name") == "iter":
                ih = ir.local_hid(ir.strip(en[0]["recv"])["recv"])
                src_ok = ih in lets and ir.contains(lets[ih], lambda y: y is gi[0])
            ok_idx = bool(binds) and binds[0]["t"] == "usize" and ir.local_hid(arg) == binds[0]["hid"] and src_ok
        ck.check(ok_idx, "R-INDEX-SCAN", key + "|position", "the position is the enumerate() index over that block's tile index", "the position handed to get_coord3_by_index is not the enumerate index of the tile index", ir.loc(ci[0]))
    # V2
    flt = [n for n in ir.walk_nodes(b["body"]) if n.get("k") == "mcall" and n.get("name") == "filter" and n["a"] and n["a"][0].get("k") == "closure"]
    ok2 = False
    why2 = "no filter over the index entries"
    if len(flt) >= 1:
        # consecutive .filter(..).filter(..) calls on the same chain are one conjunction
        chain = [flt[0]]
        for other in flt[1:]:
            if any(ir.contains(other["recv"], lambda y, c_=c_: y is c_) or ir.contains(c_["recv"], lambda y: y is other) for c_ in chain):
                chain.append(other)
        conj = []

        def split(c):
            c = ir.unparen(c)
            if c.get("k") == "bin" and c.get("op") == "&&":
                split(c["l"])
                split(c["r"])
            else:
                conj.append(c)
        fbs = set()
        for fl_ in chain:
            f = fl_["a"][0]
            split(f["body"])
            fbs |= {x["hid"] for p in f["params"] for x in ir.pat_binds(p)}
        fb = [{"hid": h} for h in fbs]
        cont = [c for c in conj if c.get("k") == "mcall" and c.get("name") == "contains3"]
        nonempty = [c for c in conj if ir.cmp_norm(c) is not None and ir.cmp_norm(c)[0].endswith(".length") and ir.cmp_norm(c)[1] in (">", "!=") and ir.cmp_norm(c)[2] == "0"]
        box_ok = False
        if cont:
            rh = ir.local_hid(cont[0]["recv"])
            # the receiver is a clone of the argument that was intersected with the block's global box
            inter = [n for n in ir.walk_nodes(b["body"]) if n.get("k") == "mcall" and n.get("name") == "intersect_bbox" and ir.local_hid(n["recv"]) == rh]
            init = lets.get(rh)
            bp = [x for p in b["params"] for x in ir.pat_binds(p) if x["t"].endswith("TileBBox")]
            al = ir.Aliases(b)
            from_arg = init is not None and bp and al.hid(ir.strip(init)["recv"] if ir.strip(init).get("k") == "mcall" else ir.strip(init)) in {al.canon(bp[0]["hid"])} | _clones_of(b, al, bp[0]["hid"])
            box_ok = len(inter) == 1 and comp.deep_place(inter[0]["a"][0], lets) == blk_place + ".get_global_bbox()" and from_arg
            coord_ok = bool(fb) and ir.local_hid(cont[0]["a"][0]) in fbs
            box_ok = box_ok and coord_ok
        ok2 = len(conj) == 2 and len(cont) == 1 and len(nonempty) == 1 and box_ok
        why2 = "filter conjuncts: %s" % [c.get("src") or ir.place_str(c) for c in conj]
    ck.check(ok2, "R-INDEX-SCAN", key + "|filter", "entries are kept exactly when their coordinate lies in (argument ∩ block box) and their range is non-empty",
             "the entry filter is not `box.contains3(coord) && range.length > 0` on the argument box intersected with the block's box (%s)" % why2, ir.loc(flt[0]) if flt else ir.loc(b))
    # V3
    loops = [n for n in ir.walk_nodes(b["body"]) if n.get("k") == "for" and ir.contains(n["body"], lambda y: y.get("k") == "mcall" and (y.get("q") or "").endswith("Chunk::push"))]
    ok3 = False
    if len(loops) == 1:
        lh = ir.local_hid(loops[0]["iter"])
        order = {id(n): i for i, n in enumerate(ir.walk_nodes(b["body"]))}
        def by_offset(n):
            if not n.get("a") or n["a"][0].get("k") != "closure":
                return False
            clo = n["a"][0]
            offs = [y for y in ir.walk_nodes(clo["body"]) if y.get("k") == "field" and y.get("name") == "offset"]
            if n["name"] in ("sort_by_key", "sort_unstable_by_key", "sort_by_cached_key"):
                return len(offs) == 1
            # comparator form: a.offset.cmp(&b.offset) in parameter order (ascending)
            ps = [x["hid"] for p_ in clo["params"] for x in ir.pat_binds(p_)]
            cm = [y for y in ir.walk_nodes(clo["body"]) if y.get("k") == "mcall" and y.get("name") in ("cmp", "partial_cmp")]
            if len(ps) != 2 or len(cm) != 1 or len(offs) != 2:
                return False

            def root(e):
                e = ir.strip(e)
                while e is not None and e.get("k") == "field":
                    e = ir.strip(e["e"])
                return ir.local_hid(e)
            return root(cm[0]["recv"]) == ps[0] and root(cm[0]["a"][0]) == ps[1] and ir.strip(cm[0]["recv"]).get("name") == "offset" and ir.strip(cm[0]["a"][0]).get("name") == "offset"
        srt = [n for n in ir.walk_nodes(b["body"]) if n.get("k") == "mcall" and n.get("name") in ("sort_by_key", "sort_unstable_by_key", "sort_by_cached_key", "sort_by", "sort_unstable_by")
               and ir.local_hid(n["recv"]) == lh and by_offset(n)]
        ok3 = len(srt) >= 1 and order[id(srt[0])] < order[id(loops[0])]
    ck.check(ok3, "R-INDEX-SCAN", key + "|sorted", "entries are sorted by offset before they are merged into chunks", "entries are not sorted by offset before chunking (Chunk::push requires ascending offsets; de-duplicated tiles are not in index order)", ir.loc(loops[0]) if loops else ir.loc(b))
    # V6: every entry ends up in exactly one chunk, every chunk in the chunk list
    if len(loops) == 1:
        from . import mvt
        lp = loops[0]
        lv = ir.pat_binds(lp["pat"])
        lvh = lv[0]["hid"] if len(lv) == 1 else None

        def is_push(n):
            if n.get("k") == "mcall" and (n.get("q") or "").endswith("Chunk::push") and n["a"] and ir.local_hid(n["a"][0]) == lvh:
                return 1
            return None
        counts = mvt.exit_counts(P, {"body": lp["body"]}, is_push)
        esc = [n["k"] for n in ir.walk_nodes(lp["body"]) if n.get("k") in ("break", "continue")]
        ck.check(counts == {1} and not esc and lvh is not None, "R-INDEX-SCAN", key + "|every-entry-chunked", "on every path through the merge loop the entry is pushed into exactly one chunk",
                 "an entry can pass the merge loop with %s pushes (paths: %s)%s: a tile that starts a new chunk is lost or duplicated" % (sorted(counts), sorted(counts), " and the loop has %s" % esc if esc else ""), ir.loc(lp))
        pushes = [n for n in ir.walk_nodes(lp["body"]) if n.get("k") == "mcall" and (n.get("q") or "").endswith("Chunk::push")]
        ch = ir.local_hid(pushes[0]["recv"]) if pushes else None
        ok_keep = ch is not None
        for blk in ir.walk_nodes(lp["body"]):
            if blk.get("k") != "block":
                continue
            sts = ir.stmts_of(blk)
            for i, st in enumerate(sts):
                x = st["e"] if st.get("k") == "semi" else st
                if x.get("k") == "assign" and ir.local_hid(x["l"]) == ch:
                    before = [y for s_ in sts[:i] for y in ir.walk_nodes(s_) if y.get("k") == "mcall" and y.get("q") == "alloc::vec::Vec::push" and y["a"] and ir.local_hid(y["a"][0]) == ch]
                    ok_keep = ok_keep and len(before) == 1
        after = [y for y in ir.walk_nodes(b["body"]) if y.get("k") == "mcall" and y.get("q") == "alloc::vec::Vec::push" and y["a"] and ir.local_hid(y["a"][0]) == ch
                 and not ir.contains(lp, lambda z: z is y)]
        ck.check(ok_keep and len(after) == 1, "R-INDEX-SCAN", key + "|every-chunk-kept", "a chunk is appended to the chunk list before it is replaced, and the last one after the loop",
                 "a chunk can be replaced or left over without being appended to the chunk list", ir.loc(lp))
        if len(after) == 1 and pushes:
            # the last chunk is kept whenever it holds a tile: the push after the loop is unconditional or guarded by `len() > 0` / `!is_empty()` only
            cname = ir.place_str(pushes[0]["recv"])
            fs = [f for (n_, f_) in census.nodes_with_facts(ir.fn_block(b), lambda y: y is after[0]) for f in f_]
            rel = [f for f in fs if any(isinstance(x, str) and (x == cname or x.startswith(cname + ".")) for x in f[1:])]

            def fine(f):
                if f[0] == "pred":
                    return f[1] == cname and f[2] == "is_empty" and f[4] is False
                if f[0] == "cmp":
                    a_, op, b_ = f[1], f[2], f[3]
                    if a_ == cname + ".len()":
                        return (op, b_) in ((">", "0"), (">=", "1"), ("!=", "0"))
                    if b_ == cname + ".len()":
                        return (op, a_) in (("<", "0"), ("<=", "1"), ("!=", "0"))
                return False
            wrong = [" ".join(map(str, f[1:])) for f in rel if not fine(f)]
            ck.check(not wrong, "R-INDEX-SCAN", key + "|last-chunk-kept", "the chunk left over after the loop is appended whenever it holds a tile (guard: %s)" % ([" ".join(map(str, f[1:])) for f in rel] or "none"),
                     "the chunk left over after the merge loop is appended only if %s: its tiles are missing from the stream otherwise" % wrong, ir.loc(after[0]))
    # V4
    gr = [n for n in ir.walk_nodes(b["body"]) if n.get("k") == "mcall" and n.get("name") == "get_range" and "Blob" in (n.get("q") or "")]
    ok4 = False
    why4 = "no Blob::get_range"
    if len(gr) == 1:
        clo = None
        for n, parents, _ in ir.walk(b["body"]):
            if n is gr[0]:
                cl = [p for p in parents if p.get("k") == "closure"]
                clo = cl[-1] if cl else None
        if clo is not None:
            env = A.Env()
            body = clo["body"]
            A.run(ir.stmts_of(body) if body.get("k") == "block" else [body], env)
            rg = ir.strip(gr[0]["a"][0])
            if rg.get("k") == "path" and rg.get("r") == "local":
                rg = ir.strip(lets.get(rg["hid"], rg))
            binds = [x for p in clo["params"] for x in ir.pat_binds(p)]
            rb = [x for x in binds if x["t"].endswith("ByteRange")]
            if rg.get("k") == "struct" and rb and len(rg["fields"]) == 2:
                lo, hi = A.ev(rg["fields"][0]["e"], env), A.ev(rg["fields"][1]["e"], env)
                R = (rb[0]["hid"], rb[0]["name"])
                r_off, r_len = A.sym((R, ".offset")), A.sym((R, ".length"))
                # chunk base: some place ending in .range.offset of the chunk whose bytes were read
                base = A.sub(r_off, lo)
                base_s = A.show(base)
                rd = [n for n in ir.walk_nodes(b["body"]) if n.get("k") == "mcall" and n.get("name") == "read_range" and ir.contains(n, lambda y: y.get("k") == "field" and y.get("name") == "range")]
                src = comp.deep_place(rd[-1]["a"][0], lets) if rd else "?"
                ok4 = A.eq(A.sub(hi, lo), r_len) and base_s == src + ".offset" and ir.local_hid(gr[0]["recv"]) is not None
                why4 = "slice [%s, %s) of the bytes read from %s" % (A.show(lo), A.show(hi), src)
    ck.check(ok4, "R-INDEX-SCAN", key + "|slice", "a tile is cut out of its chunk at [range.offset - chunk.range.offset, + range.length)",
             "tile bytes are not cut at [range.offset - chunk.range.offset, + range.length): %s" % why4, ir.loc(gr[0]) if gr else ir.loc(b))
    # V5
    push = [x for x in P.bodies if x["q"].startswith(fq + "::") and x["q"].endswith("Chunk::push")]
    if ck.anchor("R-INDEX-SCAN", "Chunk::push", push, 1):
        pb = push[0]
        env = A.Env()
        asg = [n for n in ir.walk_nodes(pb["body"]) if n.get("k") == "assign" and ir.place_str(n["l"]).endswith("range.length")]
        ok5 = False
        if len(asg) == 1:
            v = A.ev(asg[0]["r"], env)
            ps = [x for p in pb["params"] for x in ir.pat_binds(p)]
            sh = [x for x in ps if x["name"] == "self"]
            en = [x for x in ps if x["name"] != "self"]
            if sh and en:
                S, E = (sh[0]["hid"], "self"), (en[0]["hid"], en[0]["name"])
                cur = A.sym(((S, ".range"), ".length"))
                want = A.tmax(cur, A.sub(A.add(A.sym(((E, ".1"), ".offset")), A.sym(((E, ".1"), ".length"))), A.sym(((S, ".range"), ".offset"))))
                ok5 = A.eq(v, want)
        keep = [n for n in ir.walk_nodes(pb["body"]) if n.get("k") == "mcall" and n.get("name") == "push" and ir.place_str(n["recv"]).endswith("tiles")]
        ck.check(ok5 and len(keep) == 1, "R-INDEX-SCAN", key + "|chunk-extent", "a chunk keeps every entry and extends to max(length, entry.end - chunk.offset)",
                 "Chunk::push does not extend the chunk to the end of the entry it takes", ir.loc(pb))


def _clones_of(b, al, hid):
    out = set()
    for n in ir.walk_nodes(b["body"]):
        if n.get("k") == "let" and "init" in n and n["pat"].get("k") == "bind":
            i = ir.strip(n["init"])
            if i.get("k") == "mcall" and i.get("name") in ("clone", "to_owned") and al.hid(i["recv"]) in ({al.canon(hid)} | out):
                out.add(n["pat"]["hid"])
    return out
