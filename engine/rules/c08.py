"""C08 — overlay returns the tile of the first listed source that has one.

R-FIRST      lookup: a loop over self.sources in declaration order that returns from inside the loop on the first Some and
             returns None after it; stream: same iteration order, a slot is written only if it is still empty, slots are never cleared.
E-COMP       on both paths the blob is re-encoded from the compression declared by the *same source that produced it* to the
             compression the overlay declares.
R-COVER-OPS  the advertised coverage is the union over *all* sources; the declared compression is the common one or
             Uncompressed; all sources share the tile format.
R-STREAM-TOTAL (C02) covers 'handled without failure' for differing coverages.
"""
from . import absint, comp, ir
from .report import m_drop_stmt, m_replace

META = {
    "level": "other",
    "explanation": (
        "Decides the structural part of C08 on the type-checked body of the overlay operation (found as the OperationTrait "
        "implementation whose self type has a `sources: Vec<Box<dyn OperationTrait>>` and whose build calls "
        "include_bbox_pyramid): first-wins order on the lookup path (early return inside an in-order loop) and on the stream "
        "path (slot assignment dominated by `is_none()` on the same slot, in-order loop, no clearing), re-encoding with the "
        "producing source's declared compression to the overlay's declared one on both paths (recompress is summarised by "
        "E-COMP in C04), coverage = union over every source, declared compression = common or Uncompressed, equal formats "
        "enforced. Together with C02's R-SLOT/R-CLIP/R-STREAM-TOTAL this gives lookup/stream agreement and failure freedom "
        "for differing coverages."),
    "not_decided": "byte identity of what sources return between their lookup and stream paths (C02 per source); nested filters (C09).",
    "trusted_base": ["Vec iteration order", "recompress summary (C04)", "TileBBoxPyramid::include_bbox_pyramid is a per-level bounding union (C15)"],
}


def overlay_ops(P):
    out = []
    for i in P.impls_of("::OperationTrait"):
        adt = P.adts.get(i.get("self_adt"))
        if not adt:
            continue
        fields = {f["name"]: f["t"] for f in adt["variants"][0]["fields"]}
        if any(t.startswith("std::vec::Vec<") and "OperationTrait" in t for t in fields.values()):
            gtd = P.impl_method(i, "get_tile_data")
            if gtd and ir.contains(ir.inline_helpers(P, gtd, ir.same_impl_helper(gtd))["body"], lambda y: (y.get("q") or "").endswith("compression::recompress")):
                out.append(i)
    return out


def rules(ck, P):
    from . import boxalg as _boxalg
    _boxalg.box_core_rules(ck, P)       # slot index <-> coordinate of the sub-box stream (shared with C02 / C03 / C09 / C10)
    ops = overlay_ops(P)
    if not ck.anchor("R-FIRST", "overlay operation", ops, 1):
        return
    impl = ops[0]
    adt = impl["self_adt"]
    gtd = P.impl_method(impl, "get_tile_data")
    gts = P.impl_method(impl, "get_tile_stream")
    # private helpers of the operation are inlined: a re-encoding moved into `fn to_output(&self, ..)` is still seen
    gtd = ir.inline_helpers(P, gtd, ir.same_impl_helper(gtd)) if gtd else gtd
    gts = ir.inline_helpers(P, gts, ir.same_impl_helper(gts)) if gts else gts
    builds = [b for b in P.bodies if b.get("self_adt") == adt and b["q"].endswith("::build")]
    if not ck.anchor("R-FIRST", "methods", [x for x in (gtd, gts) if x] + builds, 3):
        return
    # ---------------- lookup
    blk = ir.fn_block(gtd)
    loops = [n for n in ir.walk_nodes(gtd["body"]) if n.get("k") == "for"]
    ok_order = len(loops) == 1 and ir.place_str(loops[0]["iter"]) in ("self.sources.iter()", "self.sources")
    ck.check(ok_order, "R-FIRST", gtd["q"] + "|order", "lookup visits self.sources in declaration order", "lookup iteration is `%s`" % (ir.place_str(loops[0]["iter"]) if loops else None), ir.loc(gtd))
    if loops:
        lp = loops[0]
        src = ir.pat_binds(lp["pat"])[0]
        cp = [x for p in gtd["params"] for x in ir.pat_binds(p) if x["t"].endswith("TileCoord3")][0]
        al = ir.Aliases(gtd)
        calls = [n for n in ir.walk_nodes(lp["body"]) if n.get("k") == "mcall" and (n.get("q") or "").endswith("OperationTrait::get_tile_data")]
        ok_call = len(calls) == 1 and ir.local_hid(calls[0]["recv"]) == src["hid"] and al.hid(calls[0]["a"][0]) == cp["hid"]
        ck.check(ok_call, "R-FIRST", gtd["q"] + "|asks-source", "each source is asked for the requested coordinate", "the loop does not ask the loop's source for the requested coordinate", ir.loc(lp))
        # return on first Some from inside the loop
        rets = [n for n in ir.walk_nodes(lp["body"]) if n.get("k") == "ret"]
        ok_ret = False
        for n, parents, _ in ir.walk(lp["body"]):
            if n.get("k") == "ret":
                some_guard = any(p.get("k") == "if" and p["c"].get("k") == "letx" and (p["c"]["pat"].get("q") or "").endswith("Option::Some::{Ctor#0}") for p in parents)
                val_some = ir.contains(n, lambda y: y.get("k") == "call" and (y.get("q") or "").endswith("Option::Some::{Ctor#0}"))
                ok_ret = ok_ret or (some_guard and val_some)
        ck.check(ok_ret and len(rets) == 1, "R-FIRST", gtd["q"] + "|first-wins", "the first source with a tile ends the search (return inside the loop under `if let Some`)",
                 "the loop does not return on the first Some", ir.loc(lp))
        # after the loop: None
        sts = ir.stmts_of(blk)
        after = sts[-1] if sts else None
        ck.check(after is not None and after is not lp and ir.contains(after, lambda y: (y.get("q") or "").endswith("Option::None::{Ctor#0}")), "R-FIRST", gtd["q"] + "|absent",
                 "no source has the tile -> Ok(None)", "the fall-through result is not Ok(None)", ir.loc(gtd))
        # "no tile" is only ever the answer AFTER every source was asked: nothing returns before the loop (a pre-check of the coordinate
        # - is_valid(), a coverage test - answers None for coordinates a source holds, e.g. on zoom level 31) and nothing leaves it
        # except the first hit and a source's error
        order = {id(y): i for i, y in enumerate(ir.walk_nodes(blk))}
        early = [ir.loc(y) for y in ir.walk_nodes(blk) if y.get("k") == "ret" and order[id(y)] < order[id(lp)] and y.get("m", "") == "" and
                 ir.contains(y, lambda z: (z.get("q") or "").endswith(("Option::None::{Ctor#0}", "Result::Ok::{Ctor#0}")))]
        esc = [ir.loc(y) for y in ir.walk_nodes(lp["body"]) if y.get("k") in ("break", "continue")]
        ck.check(not early and not esc, "R-FIRST", gtd["q"] + "|asks-before-none", "the lookup answers `no tile` only after every source was asked (no return before the loop, no break/continue in it)",
                 "the overlay lookup can answer without asking its sources (early return at %s, loop exits at %s): a coordinate that a source holds is reported absent while the stream still delivers it" % (early, esc), ir.loc(gtd))
        # E-COMP on the lookup path
        rc = [n for n in ir.walk_nodes(lp["body"]) if n.get("k") == "call" and (n.get("q") or "").endswith("compression::recompress")]
        _recompress_ok(ck, gtd, rc, src["hid"], "lookup")
    # ---------------- stream
    clos = [n for n in ir.walk_nodes(gts["body"]) if n.get("k") == "closure" and any(x["t"].endswith("TileBBox") for p in n.get("params", ()) for x in ir.pat_binds(p))]
    if ck.anchor("R-FIRST", "per-sub-box closure", clos, 1):
        clo = clos[0]
        floops = [n for n in ir.walk_nodes(clo["body"]) if n.get("k") == "for" and ir.place_str(n["iter"]).startswith("self.sources")]
        ck.check(len(floops) == 1 and ir.place_str(floops[0]["iter"]) in ("self.sources.iter()", "self.sources"), "R-FIRST", gts["q"] + "|order", "stream visits self.sources in declaration order",
                 "stream source iteration is %s" % [ir.place_str(l["iter"]) for l in floops], ir.loc(clo))
        if floops:
            lp = floops[0]
            src = ir.pat_binds(lp["pat"])[0]
            asg = [n for n in ir.walk_nodes(lp["body"]) if n.get("k") == "assign" and n["l"].get("k") == "index"]
            ok_slot = False
            for n, parents, _ in ir.walk(lp["body"]):
                if n.get("k") == "assign" and n["l"].get("k") == "index":
                    slot = ir.place_str(n["l"])
                    idx = ir.place_str(n["l"]["i"])
                    for p in reversed(parents):
                        if p.get("k") == "if":
                            c = ir.unparen(p["c"])
                            ok_slot = c.get("k") == "mcall" and c.get("name") == "is_none" and ir.place_str(c["recv"]) == slot and ir.place_str(ir.strip(c["recv"])["i"]) == idx
                            break
                    # value stored is Some((coord, blob)) of this item
                    ok_slot = ok_slot and ir.contains(n["r"], lambda y: (y.get("q") or "").endswith("Option::Some::{Ctor#0}"))
            ck.check(ok_slot and len(asg) == 1, "R-FIRST", gts["q"] + "|fill-empty-only", "a slot is written only while it is still empty (`if tiles[i].is_none()`)",
                     "slot assignment is not guarded by is_none() on the same slot: a later source overwrites an earlier one", ir.loc(lp))
            slot_h = ir.local_hid(ir.strip(asg[0]["l"])["e"]) if asg else None
            clears = [n for n in ir.walk_nodes(clo["body"]) if n.get("k") == "mcall" and n.get("name") in ("clear", "fill", "truncate", "take") and slot_h is not None and
                      slot_h in {ir.local_hid(y) for y in ir.walk_nodes(n["recv"])}]
            ck.check(not clears, "R-FIRST", gts["q"] + "|no-clear", "slots are never cleared between sources", "slots are cleared/taken between sources", ir.loc(clo))
            rc = [n for n in ir.walk_nodes(lp["body"]) if n.get("k") == "call" and (n.get("q") or "").endswith("compression::recompress")]
            _recompress_ok(ck, gts, rc, src["hid"], "stream")
            _every_source_consulted(ck, gts, clo, lp, src, slot_h)
            # the recompress is inside the fill guard (only the winning tile is re-encoded and stored)
    # ---------------- build: union coverage, compression, format
    b = builds[0]
    comp.sources_in_list_order(ck, "R-FIRST", "overlay", b, adt)
    comp.pyramid_union_rule(ck, P, "R-COVER-OPS")
    from . import boxalg
    boxalg.union_rule(ck, P, "R-UNION")
    lets = comp.lets_of(b)
    sh_ = None
    for n in ir.walk_nodes(b["body"]):
        if n.get("k") == "struct" and n.get("q") == adt:
            for f in n["fields"]:
                if f["name"] == "sources":
                    sh_ = ir.local_hid(f["e"])

    def over_all_sources(it):
        it = ir.strip(it)
        if it is not None and it.get("k") == "mcall" and it.get("name") == "iter" and not it.get("a"):
            it = ir.strip(it["recv"])
        return sh_ is not None and ir.local_hid(it) == sh_
    loops = [n for n in ir.walk_nodes(b["body"]) if n.get("k") == "for" and over_all_sources(n["iter"])]
    inc = [n for n in ir.walk_nodes(b["body"]) if n.get("k") == "mcall" and n.get("name") == "include_bbox_pyramid"]
    ok_union = False
    if len(loops) >= 1 and inc:
        lp = loops[0]
        src = ir.pat_binds(lp["pat"])[0]
        in_loop = ir.contains(lp["body"], lambda y: y is inc[0])
        arg = comp.deep_place(inc[0]["a"][0], comp.lets_of(b))
        arg_local = ir.place_str(inc[0]["a"][0])
        # argument is the loop source's pyramid
        llets = {}
        for n in ir.walk_nodes(lp["body"]):
            if n.get("k") == "let" and "init" in n and n["pat"].get("k") == "bind":
                llets[n["pat"]["hid"]] = n["init"]
        full = comp.deep_place(inc[0]["a"][0], {**lets, **llets})
        ok_union = in_loop and full.startswith(src["name"] + ".get_parameters()") and full.endswith("bbox_pyramid") and over_all_sources(lp["iter"])
    ck.check(ok_union, "R-COVER-OPS", b["q"] + "|union", "coverage includes the pyramid of every source (include_bbox_pyramid inside a loop over all sources)",
             "coverage is not the union over all sources", ir.loc(b))
    # the stored parameters use that pyramid
    st = [n for n in ir.walk_nodes(b["body"]) if n.get("k") == "struct" and n.get("q") == adt]
    newp = [n for n in ir.walk_nodes(b["body"]) if n.get("k") == "call" and (n.get("q") or "").endswith("TilesReaderParameters::new")]
    ok_store = False
    if st and newp and inc:
        pyr_h = ir.local_hid(inc[0]["recv"])
        ok_store = ir.local_hid(newp[0]["a"][2]) == pyr_h
        ph = ir.local_hid([f for f in st[0]["fields"] if "TilesReaderParameters" in f["e"].get("t", "")][0]["e"])
        ok_store = ok_store and lets.get(ph) is not None and ir.contains(lets[ph], lambda y: y is newp[0])
    ck.check(ok_store, "R-COVER-OPS", b["q"] + "|stored", "the union pyramid is what the operation advertises", "the advertised pyramid is not the union that was built", ir.loc(b))
    # compression: reset to Uncompressed whenever a source differs
    okc = False
    for n in ir.walk_nodes(b["body"]):
        if n.get("k") == "if":
            c = ir.cmp_norm(n["c"])
            ch_ = ir.local_hid(newp[0]["a"][1]) if newp else None
            if c and c[1] == "!=" and ".tile_compression" in c[0] + c[2] and ch_ is not None and ch_ in {ir.local_hid(y) for y in ir.walk_nodes(n["c"])}:
                okc = ir.contains(n["then"], lambda y: y.get("k") == "assign" and ir.local_hid(y["l"]) == ch_ and (ir.strip(y["r"]).get("q") or "").endswith("TileCompression::Uncompressed::{Ctor#0}"))
    ck.check(okc and newp and ir.local_hid(newp[0]["a"][1]) is not None, "R-COVER-OPS", b["q"] + "|compression", "declared compression is the common compression or Uncompressed",
             "declared compression is not `common or Uncompressed`", ir.loc(b))
    okf = ir.contains(b["body"], lambda y: y.get("k") == "call" and y.get("q") == "anyhow::__private::not" and ir.contains(y, lambda z: z.get("k") == "field" and z.get("name") == "tile_format"))
    ck.check(okf, "R-COVER-OPS", b["q"] + "|format", "sources with a different tile format are rejected at build time", "tile formats of the sources are not compared", ir.loc(b))


def _every_source_consulted(ck, gts, clo, lp, src, slot_h=None):
    """stream: a source may be skipped only when no slot is empty any more, and it is asked for a box that covers every
    empty slot.  `missing` = a local box that starts empty and grows only by include_coord3 of slots guarded by is_none()."""
    key = gts["q"]
    # exits of the source loop (not those of nested loops / closures, except `return`)
    exits = []

    def scan(n, parents, depth_loop, in_clo):
        k = n.get("k")
        if k in ("break", "continue") and depth_loop == 0 and not in_clo:
            exits.append((n, list(parents)))
        if k in ("ret", "try") and not in_clo:
            exits.append((n, list(parents)))
        for c in ir.children(n):
            scan(c, parents + [n], depth_loop + (1 if k in ("for", "while", "loop") else 0), in_clo or k == "closure")
    scan(lp["body"], [], 0, False)
    # candidates for `missing`
    missing = {}
    for n in ir.walk_nodes(lp["body"]):
        if n.get("k") == "let" and "init" in n and n["pat"].get("k") == "bind" and ir.contains(n["init"], lambda y: (y.get("q") or "").endswith("TileBBox::new_empty")):
            missing[n["pat"]["hid"]] = n["pat"]["name"]
    ok_missing = {}
    for h, nm in missing.items():
        ok = True
        grows = 0
        for n, parents, _ in ir.walk(lp["body"]):
            if n.get("k") == "mcall" and ir.local_hid(n["recv"]) == h and n["recv"].get("ta", n["recv"].get("t", "")).startswith("&mut"):
                if not n.get("name", "").startswith("include_coord"):
                    ok = False
                    continue
                grows += 1
                guards = [p for p in parents if p.get("k") == "if"]
                g_ok = len(guards) == 1 and ir.unparen(guards[0]["c"]).get("k") == "mcall" and ir.unparen(guards[0]["c"]).get("name") == "is_none" and ir.contains(guards[0]["then"], lambda y: y is n)
                inner = [p for p in parents if p.get("k") == "for"]
                it_ok = False
                if len(inner) == 1:
                    it_ = ir.strip(inner[0]["iter"])
                    names_ = []
                    while it_ is not None and it_.get("k") == "mcall":
                        names_.append(it_["name"])
                        it_ = ir.strip(it_["recv"])
                    it_ok = names_ == ["enumerate", "iter"] and slot_h is not None and ir.local_hid(it_) == slot_h
                ok = ok and g_ok and it_ok
        ok_missing[h] = ok and grows == 1
    good = [h for h, v in ok_missing.items() if v]
    ck.check(len(good) == 1, "R-FIRST", key + "|missing-box", "the box of still-missing tiles is rebuilt per source from every slot that is None (and only grows by those)",
             "the per-source box of missing tiles is not the bounding box of all empty slots", ir.loc(lp))
    mh = good[0] if good else None
    bad = []
    for n, parents in exits:
        guards = [p for p in parents if p.get("k") == "if"]
        c = ir.unparen(guards[-1]["c"]) if guards else None
        fine = n.get("k") == "continue" and len(guards) == 1 and c.get("k") == "mcall" and c.get("name") == "is_empty" and ir.local_hid(c["recv"]) == mh and mh is not None
        if not fine:
            bad.append("%s at %s" % (n.get("k"), ir.loc(n)))
    ck.check(not bad, "R-FIRST", key + "|every-source-consulted", "a source is skipped only when no slot is empty (`continue` under missing.is_empty()); the loop has no other exit",
             "the loop over sources can end or skip a source while slots are still empty: %s" % bad, ir.loc(lp))
    asks = [n for n in ir.walk_nodes(lp["body"]) if n.get("k") == "mcall" and (n.get("q") or "").endswith("OperationTrait::get_tile_stream")]
    ok_ask = len(asks) == 1 and ir.local_hid(asks[0]["recv"]) == src["hid"] and mh is not None and ir.local_hid(asks[0]["a"][0]) == mh
    ck.check(ok_ask, "R-FIRST", key + "|asks-missing", "each consulted source is asked for the box of missing tiles", "the source is not asked for the box covering all empty slots", ir.loc(lp))


def _recompress_ok(ck, fn, rc, src_hid, path):
    ok = False
    desc = ""
    # the re-encoding is applied on every path that delivers the tile: it sits under exactly the conditions of the delivery
    # (the `return Ok(Some(..))` of the lookup, the slot assignment of the stream) — a format- or size-dependent skip is not allowed
    if len(rc) == 1:
        def guards_of(target):
            for n, parents, _ in ir.walk(fn["body"]):
                if n is target:
                    return [id(p) for p in parents if p.get("k") in ("if", "match")]
            return None
        deliver = [n for n in ir.walk_nodes(fn["body"]) if (n.get("k") == "ret" and ir.contains(n, lambda y: (y.get("q") or "").endswith("Option::Some::{Ctor#0}")))
                   or (n.get("k") == "assign" and n["l"].get("k") == "index")]
        g_rc = guards_of(rc[0])
        uncond = bool(deliver) and all(guards_of(d) is not None and g_rc == guards_of(d)[:len(g_rc)] and len(g_rc) <= len(guards_of(d)) for d in deliver)
        ck.check(uncond, "E-COMP", fn["q"] + "|" + path + "|unconditional", "%s: every delivered tile passes the re-encoding (no condition skips it)" % path,
                 "%s: the re-encoding is skipped under a condition that does not skip the delivery: the tile is handed on in its source's compression while the overlay declares another" % path, ir.loc(rc[0]))
    if len(rc) == 1:
        a0, a1, a2 = rc[0]["a"]
        p1 = ir.place_str(a1)
        p2 = ir.place_str(a2)
        desc = "%s -> %s" % (p1, p2)
        root = ir.strip(a1)
        while root is not None and root.get("k") in ("field", "mcall"):
            root = ir.strip(root["e"] if root.get("k") == "field" else root["recv"])
        lets = comp.lets_of(fn)
        p2d = comp.deep_place(a2, lets)
        # follow parameter bindings of inlined helpers back to the loop's source binding
        seen_ = 0
        while root is not None and ir.local_hid(root) != src_hid and ir.local_hid(root) in lets and seen_ < 6:
            root = ir.strip(lets[ir.local_hid(root)])
            while root is not None and root.get("k") in ("field", "mcall", "ref", "un"):
                root = ir.strip(root["e"] if root.get("k") in ("field", "ref", "un") else root["recv"])
            seen_ += 1
        ok = p1.endswith("get_parameters().tile_compression") and ir.local_hid(root) == src_hid and p2d.endswith("self.parameters.tile_compression")
    ck.check(ok, "E-COMP", fn["q"] + "|" + path, "%s: blob is re-encoded from the producing source's declared compression to the overlay's (%s)" % (path, desc),
             "%s: recompress arguments are %s — not (this source's compression -> overlay's compression)" % (path, desc), ir.loc(fn))


def mutants(P):
    out = []
    base = "<versatiles_pipeline::operations::read::from_overlayed::Operation as versatiles_pipeline::traits::operation::OperationTrait>::"

    def rev(body):
        def fn(n):
            it = n["iter"]
            n["iter"] = {"k": "mcall", "name": "rev", "q": "core::iter::traits::iterator::Iterator::rev", "recv": it, "a": [], "t": "", "s": n["s"]}
        return m_replace(body, lambda n: n.get("k") == "for" and ir.place_str(n["iter"]).startswith("self.sources"), fn)
    out.append(("overlay lookup: sources visited in reverse", base + "get_tile_data", rev))
    out.append(("overlay stream: sources visited in reverse", base + "get_tile_stream", rev))

    def no_guard(body):
        def fn(n):
            t = n["then"]
            n.clear()
            n.update(t)
        return m_replace(body, lambda n: n.get("k") == "if" and ir.contains(n["c"], lambda y: y.get("k") == "mcall" and y.get("name") == "is_none")
                         and ir.contains(n["then"], lambda y: y.get("k") == "assign"), fn)
    out.append(("overlay stream: slot overwritten by later sources", base + "get_tile_stream", no_guard))

    def wrong_src_comp(body):
        def fn(n):
            n["a"][1], n["a"][2] = n["a"][2], n["a"][1]
        return m_replace(body, lambda n: n.get("k") == "call" and (n.get("q") or "").endswith("compression::recompress"), fn)
    out.append(("overlay lookup: recompress arguments exchanged", base + "get_tile_data", wrong_src_comp))
    return out
