"""R-PM-TILEID — the PMTiles tile id (spec v3: ids of all lower zoom levels, then the position on a Hilbert curve) decided on
finite tables and term shapes, not by running the conversion:

  digit      the quadrant digit the encoder adds per level, as a function of the two coordinate bits (rx, ry), is the Hilbert
             order 0:(0,0) 1:(0,1) 2:(1,1) 3:(1,0); the decoder's (rx, ry) as a function of the digit is its inverse (4 cases each);
  rotate     the shared quadrant transform reflects both coordinates exactly when (rx, ry) = (1, 0), swaps them exactly when
             ry = 0, and the reflection is v -> s - 1 - v (4 cases, the executed assignments are collected per case);
  base       the encoder adds 4^t for every lower level t in 0..z, the decoder subtracts the same 4^t while id >= the running sum
             (the per-level term is evaluated for t = 0..31 on both sides);
  steps      the encoder walks s = n/2, n/4, .. 1 (halving), adds s*s*digit and rotates AFTER taking the bits; the decoder walks
             s = 1, 2, .. < n (doubling), rotates BEFORE adding s to the coordinates, and divides the rest by 4 per step;
  bounds     the encoder refuses z >= 32 and x, y >= 2^z.
"""
from . import ir


def _ev(n, env):
    """integer / boolean evaluation of small expressions (lets resolved through env)"""
    n = ir.unparen(ir.strip(n)) if n is not None else None
    if n is None:
        return None
    k = n.get("k")
    if k == "lit":
        return n["v"] if n.get("lk") in ("int", "bool") else None
    if k == "path" and n.get("r") == "local":
        if n["hid"] in env:
            return env[n["hid"]]
        l = (env.get("__lets__") or {}).get(n["hid"])
        if l is not None and env.get("__depth__", 0) < 6:
            return _ev(l["init"], dict(env, __depth__=env.get("__depth__", 0) + 1))
        return None
    if k in ("cast", "deref", "ref"):
        return _ev(n["e"], env)
    if k == "un":
        v = _ev(n["e"], env)
        if n.get("op") == "*":
            return v
        if v is None:
            return None
        return (not v) if n.get("op") == "!" else (-v if n.get("op") == "-" else None)
    if k == "bin":
        a, b = _ev(n["l"], env), _ev(n["r"], env)
        if a is None or b is None:
            return None
        op = n["op"]
        try:
            return {"+": lambda: a + b, "-": lambda: a - b, "*": lambda: a * b, "/": lambda: a // b, "%": lambda: a % b, "<<": lambda: a << b, ">>": lambda: a >> b,
                    "&": lambda: a & b, "|": lambda: a | b, "^": lambda: a ^ b, "==": lambda: a == b, "!=": lambda: a != b, "<": lambda: a < b, "<=": lambda: a <= b,
                    ">": lambda: a > b, ">=": lambda: a >= b, "&&": lambda: bool(a) and bool(b), "||": lambda: bool(a) or bool(b)}[op]()
        except (KeyError, ZeroDivisionError, ValueError):
            return None
    if k == "if":
        c = _ev(n["c"], env)
        if c is None:
            return None
        return _ev(n["then"] if c else n.get("else"), env)
    if k == "block" and not n.get("stmts") and "tail" in n:
        return _ev(n["tail"], env)
    return None


def _lets(b):
    return {y["pat"]["hid"]: y for y in ir.walk_nodes(b["body"]) if y.get("k") == "let" and "init" in y and y["pat"].get("k") == "bind"}


def _local(b, name):
    for y in ir.walk_nodes(b["body"]):
        if y.get("k") == "let" and y["pat"].get("k") == "bind" and y["pat"].get("name") == name:
            return y
    return None


SPEC_DIGIT = {(0, 0): 0, (0, 1): 1, (1, 1): 2, (1, 0): 3}


def rules(ck, P, rule="R-PM-TILEID"):
    mod = "pmtiles::types::tile_id::"
    enc = [b for b in P.bodies if b["q"].endswith(mod + "coord_to_tile_id")]
    dec = [b for b in P.bodies if b["q"].endswith(mod + "tile_id_to_coord")]
    rot = [b for b in P.bodies if b["q"].endswith(mod + "rotate")]
    if not ck.anchor(rule, "coord_to_tile_id + tile_id_to_coord + rotate", enc + dec + rot, 3):
        return
    enc, dec, rot = enc[0], dec[0], rot[0]

    # ---- digit (encoder): the amount added to the position per level, as a function of the two bit locals and of s
    lets = _lets(enc)
    wle = [y for y in ir.walk_nodes(enc["body"]) if y.get("k") == "while"]
    blets = [y for y in ir.walk_nodes(wle[0]["body"]) if y.get("k") == "let" and "init" in y and y["pat"].get("k") == "bind" and y["pat"].get("t") == "u8"] if len(wle) == 1 else []
    u32p = [x_ for p_ in enc["params"] for x_ in ir.pat_binds(p_) if x_["t"] == "u32"]

    def origin(h, depth=0):
        """'x' / 'y' if the local derives (through lets) from the first / second u32 parameter"""
        if depth > 5:
            return None
        if len(u32p) == 2 and h == u32p[0]["hid"]:
            return "x"
        if len(u32p) == 2 and h == u32p[1]["hid"]:
            return "y"
        i_ = lets.get(h, {}).get("init")
        for z in ir.walk_nodes(i_ or {}):
            if z.get("k") == "path" and z.get("r") == "local" and z["hid"] != h:
                o = origin(z["hid"], depth + 1)
                if o:
                    return o
        return None
    roles = {origin(y["pat"]["hid"]): y["pat"]["hid"] for y in blets}
    sc = ir.local_hid(ir.strip(ir.unparen(ir.strip(wle[0]["c"])).get("l", {}))) if len(wle) == 1 and ir.unparen(ir.strip(wle[0]["c"])).get("k") == "bin" else None
    addd = [y for y in ir.walk_nodes(wle[0]["body"]) if y.get("k") == "assignop" and y.get("op", "").startswith("+") and ir.local_hid(ir.strip(y["l"])) != sc] if len(wle) == 1 else []
    ok_digit, why = False, "the two bit locals / the position accumulator of the encoder loop were not found"
    bits = None
    if len(blets) == 2 and set(roles) == {"x", "y"} and len(addd) == 1 and sc is not None:
        bits = (roles["x"], roles["y"])
        tab1 = {(rx, ry): _ev(addd[0]["r"], {roles["x"]: rx, roles["y"]: ry, sc: 1, "__lets__": lets}) for rx in (0, 1) for ry in (0, 1)}
        tab4 = {(rx, ry): _ev(addd[0]["r"], {roles["x"]: rx, roles["y"]: ry, sc: 4, "__lets__": lets}) for rx in (0, 1) for ry in (0, 1)}
        ok_digit = tab1 == SPEC_DIGIT and tab4 == {k: 16 * v for k, v in SPEC_DIGIT.items()}
        why = "amount added for s = 1 is %s (Hilbert order: %s), for s = 4 it is %s (must be 16 times the digit)" % (tab1, SPEC_DIGIT, tab4)
    ck.check(ok_digit, rule, enc["q"] + "|digit", "per level the encoder adds s*s*digit with digit(rx, ry) = Hilbert order 0:(0,0) 1:(0,1) 2:(1,1) 3:(1,0), bits taken with (coord & s)",
             "the quadrant digit of coord_to_tile_id is wrong (%s): tile ids do not follow the PMTiles Hilbert order" % why, ir.loc(enc))

    # ---- digit (decoder): rx, ry as functions of the rest t
    wl = [y for y in ir.walk_nodes(dec["body"]) if y.get("k") == "while"]
    bitlets = [y for y in ir.walk_nodes(wl[0]["body"]) if y.get("k") == "let" and "init" in y and y["pat"].get("k") == "bind" and y["pat"].get("t") == "u8"] if len(wl) == 1 else []
    lr = ly = None
    if len(bitlets) == 2:
        hs_ = {y["pat"]["hid"] for y in bitlets}
        dep = [y for y in bitlets if any(z.get("k") == "path" and z.get("hid") in hs_ for z in ir.walk_nodes(y["init"]))]
        if len(dep) == 1:
            ly = dep[0]
            lr = [y for y in bitlets if y is not ly][0]
    ok_dec, why = False, "the two bit locals of the decoder loop were not found"
    if lr is not None and ly is not None:
        th = {z["hid"] for z in ir.walk_nodes(lr["init"]) if z.get("k") == "path" and z.get("r") == "local"}
        dec_bits = (lr["pat"]["hid"], ly["pat"]["hid"])
        if len(th) == 1:
            t_h = next(iter(th))
            inv = {}
            for t in range(4):
                rx = _ev(lr["init"], {t_h: t})
                ry = _ev(ly["init"], {t_h: t, lr["pat"]["hid"]: rx})
                inv[t] = (rx, ry)
            want = {d: k for k, d in SPEC_DIGIT.items()}
            ok_dec = inv == want
            why = "decoder maps digits to %s, the inverse of the Hilbert order is %s" % (inv, want)
    ck.check(ok_dec, rule, dec["q"] + "|digit", "the decoder's (rx, ry) per digit is the inverse of the encoder's digit table", "tile_id_to_coord does not invert the digit table (%s)" % why, ir.loc(dec))

    # ---- rotate: executed actions per (rx, ry)
    ps = [x for p_ in rot["params"] for x in ir.pat_binds(p_)]
    okshape = [x["t"] for x in ps] == ["i64", "&mut i64", "&mut i64", "u8", "u8"]
    byname = dict(zip(("s", "tx", "ty", "rx", "ry"), (x["hid"] for x in ps))) if okshape else {}
    acts = {}

    def run(n, env, out):
        n = ir.unparen(ir.strip(n))
        k = n.get("k")
        if k == "block":
            for st in n.get("stmts", ()):
                run(st, env, out)
            if "tail" in n:
                run(n["tail"], env, out)
        elif k == "semi":
            run(n["e"], env, out)
        elif k == "if":
            c = _ev(n["c"], env)
            if c is None:
                out.append(("?",))
            elif c:
                run(n["then"], env, out)
            elif "else" in n:
                run(n["else"], env, out)
        elif k == "assign":
            tgt = ir.local_hid(ir.strip(ir.strip(n["l"]).get("e", n["l"])))
            r = ir.unparen(ir.strip(n["r"]))
            refl = r.get("k") == "bin" and r.get("op") == "-" and ir.unparen(ir.strip(r["l"])).get("k") == "bin" and ir.unparen(ir.strip(r["l"])).get("op") == "-" and \
                ir.local_hid(ir.strip(ir.unparen(ir.strip(r["l"]))["l"])) == byname.get("s") and _ev(ir.unparen(ir.strip(r["l"]))["r"], {}) == 1 and \
                ir.local_hid(ir.strip(ir.strip(r["r"]).get("e", r["r"]))) == tgt
            out.append(("reflect" if refl else "assign?", tgt))
        elif k == "call" and (n.get("q") or "").endswith("mem::swap"):
            out.append(("swap", tuple(sorted(ir.local_hid(ir.strip(a)) for a in n["a"]))))
        elif k in ("mcall", "call", "assignop"):
            out.append(("?",))
    if okshape:
        for rx in (0, 1):
            for ry in (0, 1):
                out = []
                run(ir.fn_block(rot), {byname["rx"]: rx, byname["ry"]: ry}, out)
                acts[(rx, ry)] = out
        sw = ("swap", tuple(sorted((byname["tx"], byname["ty"]))))
        want = {(0, 0): [sw], (1, 0): [("reflect", byname["tx"]), ("reflect", byname["ty"]), sw], (0, 1): [], (1, 1): []}
        okrot = all(sorted(acts[k], key=str) == sorted(want[k], key=str) for k in want)
    else:
        okrot = False
    ck.check(okrot, rule, rot["q"], "rotate reflects both coordinates (v -> s-1-v) exactly for (rx, ry) = (1, 0) and swaps them exactly when ry = 0",
             "rotate does not implement the Hilbert quadrant transform (actions per (rx, ry): %s)" % {k: [a[0] for a in v] for k, v in acts.items()}, ir.loc(rot))

    # ---- base offsets: 4^t on both sides, for every lower level
    def level_terms(b):
        """(loop, term-expression, loop variable hid) of `acc += <term>` inside a for over levels"""
        for lp in ir.walk_nodes(b["body"]):
            if lp.get("k") != "for":
                continue
            lv = ir.pat_binds(lp["pat"])
            if len(lv) != 1:
                continue
            lets = {y["pat"]["hid"]: y["init"] for y in ir.walk_nodes(lp["body"]) if y.get("k") == "let" and "init" in y and y["pat"].get("k") == "bind"}
            for y in ir.walk_nodes(lp["body"]):
                if y.get("k") == "assignop" and y.get("op", "").startswith("+"):
                    r = ir.strip(y["r"])
                    if ir.local_hid(r) in lets:
                        r = lets[ir.local_hid(r)]
                    vals = [_ev(r, {lv[0]["hid"]: t}) for t in range(32)]
                    if all(v is not None for v in vals) and len(set(vals)) > 1:
                        return lp, vals, y
        return None, None, None
    lpe, ve, ye = level_terms(enc)
    lpd, vd, yd = level_terms(dec)
    pow4 = [4 ** t for t in range(32)]
    zp = [x for p_ in enc["params"] for x in ir.pat_binds(p_) if x["t"] == "u8"]
    rng_ok = False
    if lpe is not None:
        it = ir.strip(lpe["iter"])
        f = {x["name"]: x["e"] for x in it.get("fields", ())} if it.get("k") == "struct" else {}
        rng_ok = _ev(f.get("start"), {}) == 0 and zp and any(z.get("hid") == zp[0]["hid"] for z in ir.walk_nodes(f.get("end") or {}) if z.get("k") == "path") and \
            not ir.contains(f.get("end") or {}, lambda z: z.get("k") == "bin")
    ck.check(ve == pow4 and rng_ok, rule, enc["q"] + "|base", "the id starts at the number of tiles of all lower levels: sum of 4^t for t in 0..z",
             "the level base of coord_to_tile_id is not the sum of 4^t over t in 0..z (per-level terms %s.., range ok: %s)" % ((ve or [])[:4], rng_ok), ir.loc(enc))
    okd = vd == pow4
    if okd:
        # found-level guard: running sum + 4^t > id, rest = id - running sum, the level returned is the loop variable
        g = [y for y in ir.walk_nodes(lpd["body"]) if y.get("k") == "if" and ir.unparen(ir.strip(y["c"])).get("k") == "bin" and ir.unparen(ir.strip(y["c"])).get("op") in (">", "<", "<=", ">=")]
        lv = ir.pat_binds(lpd["pat"])[0]["hid"]
        ret = [y for y in ir.walk_nodes(lpd["body"]) if y.get("k") == "call" and (y.get("q") or "").endswith("TileCoord3::new")]
        okd = len(g) >= 1 and len(ret) == 1 and ir.local_hid(ir.strip(ret[0]["a"][2])) == lv and ir.contains(g[0]["then"], lambda z: z is ret[0]) and \
            ir.unparen(ir.strip(g[0]["c"])).get("op") == ">" and not ir.contains(g[0]["then"], lambda z: z is yd)
    ck.check(okd, rule, dec["q"] + "|base", "the decoder finds the level by subtracting 4^t while the id is not below the running sum, and returns that level",
             "the level search of tile_id_to_coord does not mirror the encoder's base (per-level terms %s..)" % ((vd or [])[:4]), ir.loc(dec))

    # ---- steps (locals are identified by their role, not by their name)
    def loop_of(b):
        lp = [y for y in ir.walk_nodes(b["body"]) if y.get("k") == "while"]
        return lp[0] if len(lp) == 1 else None

    def seq_of(lp):
        out = []
        for y in ir.walk_nodes(lp["body"]):
            if y.get("k") == "assignop":
                out.append(("op", ir.local_hid(ir.strip(y["l"])), y["op"], _ev(y["r"], {}), y))
            elif y.get("k") == "call" and (y.get("q") or "").endswith(mod + "rotate"):
                out.append(("rotate", None, None, None, y))
        return out

    def cond_var(lp):
        c = ir.unparen(ir.strip(lp["c"]))
        if c.get("k") == "bin":
            return ir.local_hid(ir.strip(c["l"])), c["op"], c["r"]
        return None, None, None
    lets_e, lets_d = _lets(enc), _lets(dec)
    le, ld = loop_of(enc), loop_of(dec)
    oke, why = False, "no single while loop"
    if le is not None:
        se = seq_of(le)
        sh, cop, crhs = cond_var(le)
        halve = [x for x in se if x[0] == "op" and x[1] == sh and x[2] == "/=" and x[3] == 2]
        rots = [x for x in se if x[0] == "rotate"]
        dig = [x for x in se if x[0] == "op" and x[2] == "+=" and x[1] != sh]
        pos = {id(x[4]): k for k, x in enumerate(se)}
        init_ok = sh in lets_e and ir.contains(lets_e[sh]["init"], lambda z: z.get("k") == "bin" and z.get("op") == "/" and _ev(z["r"], {}) == 2)
        # n = 1 << z feeds the initial s
        n_ok = init_ok and any(z.get("k") == "path" and z.get("hid") in lets_e and ir.contains(lets_e[z["hid"]]["init"], lambda w: w.get("k") == "bin" and w.get("op") == "<<" and _ev(w["l"], {}) == 1)
                               for z in ir.walk_nodes(lets_e[sh]["init"]))
        rot_arg = len(rots) == 1 and ir.local_hid(ir.strip(rots[0][4]["a"][0])) == sh
        oke = len(halve) == 1 and len(rots) == 1 and len(dig) == 1 and pos[id(dig[0][4])] < pos[id(rots[0][4])] < pos[id(halve[0][4])] and n_ok and rot_arg and \
            cop == ">" and _ev(crhs, {}) == 0
        why = "halve s: %d, rotate: %d, digit adds: %d, s starts at n/2 with n = 1 << z: %s, loop while s > 0: %s" % (len(halve), len(rots), len(dig), n_ok, cop == ">" and _ev(crhs, {}) == 0)
    ck.check(bool(oke), rule, enc["q"] + "|steps", "the encoder walks s = n/2, n/4, .. 1 with n = 1 << z, adds the digit, then rotates, then halves s",
             "the per-level steps of coord_to_tile_id are not digit, rotate(s, ..), s /= 2 from s = n/2 down to 1 (%s)" % why, ir.loc(enc))
    okd2, why = False, "no single while loop / bit locals"
    if ld is not None and lr is not None and ly is not None:
        sd = seq_of(ld)
        sh, cop, crhs = cond_var(ld)
        dbl = [x for x in sd if x[0] == "op" and x[1] == sh and x[2] == "*=" and x[3] == 2]
        rots = [x for x in sd if x[0] == "rotate"]
        quarter = [x for x in sd if x[0] == "op" and x[2] == "/=" and x[3] == 4]
        pos = {id(x[4]): k for k, x in enumerate(sd)}
        # x += s under rx == 1, y += s under ry == 1; x / y are the 2nd / 3rd argument of rotate
        adds = {}
        for y, ps_, _ in ir.walk(ld["body"]):
            if y.get("k") == "assignop" and y.get("op") == "+=" and ir.local_hid(ir.strip(y["r"])) == sh:
                g = [p_ for p_ in ps_ if p_.get("k") == "if"]
                c = ir.unparen(ir.strip(g[-1]["c"])) if g else {}
                bit = ir.local_hid(ir.strip(c.get("l", {}))) if c.get("k") == "bin" and c.get("op") == "==" and _ev(c.get("r"), {}) == 1 else None
                adds[ir.local_hid(ir.strip(y["l"]))] = (bit, y)
        if len(rots) == 1:
            ra = [ir.local_hid(ir.strip(ir.strip(a).get("e", a))) for a in rots[0][4]["a"]]
            want_adds = {ra[1]: lr["pat"]["hid"], ra[2]: ly["pat"]["hid"]}
            adds_ok = {k: v[0] for k, v in adds.items()} == want_adds and all(pos[id(rots[0][4])] < pos[id(v[1])] for v in adds.values()) and \
                ra[0] == sh and ra[3] == lr["pat"]["hid"] and ra[4] == ly["pat"]["hid"]
        else:
            adds_ok = False
        rest_h = next(iter({z["hid"] for z in ir.walk_nodes(lr["init"]) if z.get("k") == "path" and z.get("r") == "local"}), None)
        q_ok = len(quarter) == 1 and quarter[0][1] == rest_h
        init_ok = sh in lets_d and _ev(lets_d[sh]["init"], {}) == 1
        okd2 = len(dbl) == 1 and len(rots) == 1 and adds_ok and q_ok and init_ok and cop == "<"
        why = "double s: %d, rotate: %d, x += s if rx / y += s if ry after rotate(s, x, y, rx, ry): %s, rest /= 4: %s, s starts at 1: %s, loop while s < n: %s" % (len(dbl), len(rots), adds_ok, q_ok, init_ok, cop == "<")
    ck.check(bool(okd2), rule, dec["q"] + "|steps", "the decoder walks s = 1, 2, .. < n, rotates before adding s to x (rx = 1) and y (ry = 1), and divides the rest by 4",
             "the per-level steps of tile_id_to_coord are not rotate, x += s if rx, y += s if ry, rest /= 4, s *= 2 from s = 1 (%s)" % why, ir.loc(dec))

    # ---- bounds
    eps_ = [x for p_ in enc["params"] for x in ir.pat_binds(p_)]
    zh = [x["hid"] for x in eps_ if x["t"] == "u8"]
    xyh = [x["hid"] for x in eps_ if x["t"] == "u32"]
    seen_b = set()
    for y in ir.walk_nodes(enc["body"]):
        if y.get("k") == "if" and ir.diverges(y["then"]):
            for z in ir.walk_nodes(y["c"]):
                if z.get("k") == "bin" and z.get("op") in (">=", ">"):
                    lh = ir.local_hid(ir.strip(z["l"]))
                    if lh in zh and ((z["op"] == ">=" and _ev(z["r"], {}) == 32) or (z["op"] == ">" and _ev(z["r"], {}) == 31)):
                        seen_b.add("z")
                    if lh in xyh and z["op"] == ">=" and ir.local_hid(ir.strip(z["r"])) in lets_e and \
                            ir.contains(lets_e[ir.local_hid(ir.strip(z["r"]))]["init"], lambda w: w.get("k") == "bin" and w.get("op") == "<<" and _ev(w["l"], {}) == 1):
                        seen_b.add("xy%d" % xyh.index(lh))
    okb = seen_b == {"z", "xy0", "xy1"}
    ck.check(okb, rule, enc["q"] + "|bounds", "coord_to_tile_id refuses z >= 32 and x, y >= 2^z", "coord_to_tile_id does not refuse all of z >= 32, x >= 2^z, y >= 2^z (found %s)" % sorted(seen_b), ir.loc(enc))

    # ---- values: the bits, the start values and what is returned
    bits_ok = False
    if bits is not None and le is not None:
        sh = cond_var(le)[0]
        bits_ok = True
        for h in bits:
            i = lets_e[h]["init"]
            ch = [z["hid"] for z in ir.walk_nodes(i) if z.get("k") == "path" and z.get("r") == "local" and z["hid"] != sh]
            if len(set(ch)) != 1:
                bits_ok = False
                break
            for v in (0, 1, 2, 3):
                if _ev(i, {ch[0]: v, sh: 2}) != ((v >> 1) & 1) or _ev(i, {ch[0]: v, sh: 1}) != (v & 1):
                    bits_ok = False
    ck.check(bits_ok, rule, enc["q"] + "|bits", "rx / ry are the bit of the coordinate selected by s (evaluated for coordinate values 0..3 and s = 1, 2)",
             "the bit taken from a coordinate in coord_to_tile_id is not (coord & s) != 0", ir.loc(enc))
    # encoder: both accumulators start at 0 and the id is their sum
    t = ir.strip(ir.fn_block(enc).get("tail") or {})
    ret_ok = False
    if t.get("k") == "call" and (t.get("q") or "").endswith("Result::Ok::{Ctor#0}"):
        e = ir.unparen(ir.strip(t["a"][0]))
        while e.get("k") == "cast":
            e = ir.unparen(ir.strip(e["e"]))
        if e.get("k") == "bin" and e.get("op") == "+":
            hs2 = {ir.local_hid(ir.strip(e["l"])), ir.local_hid(ir.strip(e["r"]))}
            accs = {ir.local_hid(ir.strip(ye["l"])) if ye is not None else None, ir.local_hid(ir.strip(addd[0]["l"])) if len(addd) == 1 else None}
            ret_ok = hs2 == accs and None not in hs2 and all(_ev(lets_e[h]["init"], {}) == 0 for h in hs2 if h in lets_e) and all(h in lets_e for h in hs2)
    ck.check(ret_ok, rule, enc["q"] + "|result", "the id is (level base) + (Hilbert position), both accumulated from 0", "coord_to_tile_id does not return base + position with both sums started at 0", ir.loc(enc))
    # the callers hand over (x, y, level) in this order
    n_call, bad_call = 0, []
    for b in P.bodies:
        for y in ir.walk_nodes(b["body"]):
            if y.get("k") == "call" and (y.get("q") or "").endswith(mod + "coord_to_tile_id") and b is not enc:
                n_call += 1
                pl = [ir.place_str(a).rsplit(".", 1)[-1] for a in y["a"]]
                if not (pl[0].startswith("x") and pl[1].startswith("y") and pl[2] in ("z", "level")):
                    bad_call.append((b["q"].rsplit("::", 2)[-2:], pl))
    ck.check(n_call >= 2 and not bad_call, rule, "callers", "get_tile_id hands (x, y, level) to coord_to_tile_id in this order (%d call sites)" % n_call, "coord_to_tile_id is called with %s" % bad_call)
    # decoder: running sum and coordinates start at 0, levels from 0, rest = id - running sum, result (x, y, level)
    dec_ok, why = False, "level loop not found"
    if lpd is not None and ld is not None and len([x for x in seq_of(ld) if x[0] == "rotate"]) == 1:
        it = ir.strip(lpd["iter"])
        f = {x["name"]: x["e"] for x in it.get("fields", ())} if it.get("k") == "struct" else {}
        acc_h = ir.local_hid(ir.strip(yd["l"]))
        idp = [x for p_ in dec["params"] for x in ir.pat_binds(p_)]
        rot = [x for x in seq_of(ld) if x[0] == "rotate"][0][4]
        ra = [ir.local_hid(ir.strip(ir.strip(a).get("e", a))) for a in rot["a"]]
        rest_h = next(iter({z["hid"] for z in ir.walk_nodes(lr["init"]) if z.get("k") == "path" and z.get("r") == "local"}), None) if lr is not None else None
        rest_init = ir.unparen(ir.strip(lets_d[rest_h]["init"])) if rest_h in lets_d else {}
        rest_ok = rest_init.get("k") == "bin" and rest_init.get("op") == "-" and idp and ir.local_hid(ir.strip(rest_init["l"])) == idp[0]["hid"] and ir.local_hid(ir.strip(rest_init["r"])) == acc_h
        g = [y for y in ir.walk_nodes(lpd["body"]) if y.get("k") == "if" and ir.unparen(ir.strip(y["c"])).get("k") == "bin" and ir.unparen(ir.strip(y["c"])).get("op") == ">"]
        gc = ir.unparen(ir.strip(g[0]["c"])) if g else {}
        gl = ir.unparen(ir.strip(gc.get("l", {})))
        guard_ok = bool(g) and gl.get("k") == "bin" and gl.get("op") == "+" and acc_h in (ir.local_hid(ir.strip(gl["l"])), ir.local_hid(ir.strip(gl["r"]))) and idp and ir.local_hid(ir.strip(gc["r"])) == idp[0]["hid"]
        ret = [y for y in ir.walk_nodes(lpd["body"]) if y.get("k") == "call" and (y.get("q") or "").endswith("TileCoord3::new")]
        args_ok = len(ret) == 1 and [ir.local_hid(ir.strip(ir.unparen(ir.strip(a)).get("e", a)) if ir.unparen(ir.strip(a)).get("k") == "cast" else ir.strip(a)) for a in ret[0]["a"][:2]] == ra[1:3]
        zero = _ev(f.get("start"), {}) == 0 and _ev(f.get("end"), {}) == 32 and acc_h in lets_d and _ev(lets_d[acc_h]["init"], {}) == 0 and \
            all(h in lets_d and _ev(lets_d[h]["init"], {}) == 0 for h in ra[1:3])
        dec_ok = rest_ok and guard_ok and args_ok and zero
        why = "rest = id - running sum: %s, level found when running sum + 4^t > id: %s, result (x, y, level): %s, sums / coordinates / levels start at 0: %s" % (rest_ok, guard_ok, args_ok, zero)
    ck.check(dec_ok, rule, dec["q"] + "|values", "the decoder starts its sums and coordinates at 0, takes rest = id - running sum at the level where running sum + 4^t > id, and returns (x, y, level)",
             "tile_id_to_coord: %s" % why, ir.loc(dec))

