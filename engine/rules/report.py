"""Check context: obligations, violations, known findings, evidence, self-test."""
import copy
import json
import os
import sys
import time

from . import facts, ir

VERIF = facts.VERIF


class Check:
    def __init__(self, pid, tier="quick", silent=False):
        self.pid = pid
        self.tier = tier
        self.silent = silent
        self.obligations = []   # dicts: rule, key, what, status(ok|violation|known|info), loc
        self.anchor_counts = {}
        self.notes = []
        self.t0 = time.time()

    # ---- recording
    def ok(self, rule, key, what, loc=None):
        self.obligations.append({"rule": rule, "key": "%s|%s" % (rule, key), "what": what, "status": "ok", "loc": loc})

    def violation(self, rule, key, what, loc=None):
        self.obligations.append({"rule": rule, "key": "%s|%s" % (rule, key), "what": what, "status": "violation", "loc": loc})

    def check(self, cond, rule, key, what_ok, what_bad=None, loc=None):
        if cond:
            self.ok(rule, key, what_ok, loc)
        else:
            self.violation(rule, key, what_bad or ("NOT: " + what_ok), loc)
        return cond

    def anchor(self, rule, name, found, floor=1):
        """fail closed when an anchor set is empty or below its floor"""
        n = found if isinstance(found, int) else len(found)
        self.anchor_counts["%s:%s" % (rule, name)] = n
        if os.environ.get("VT_ANCHORS"):
            print("ANCHOR %s %s:%s n=%d floor=%d" % (self.pid if hasattr(self, "pid") else "", rule, name, n, floor))
        if n >= floor:
            # recorded as an obligation that holds, so that a reading on which the anchor is found can answer for one on which it is not
            self.ok(rule, "anchor-missing|" + name, "anchor set '%s' has %d members (floor %d)" % (name, n, floor))
        if n < floor:
            self.violation(rule, "anchor-missing|" + name,
                           "anchor set '%s' has %d members, floor %d (rule cannot be evaluated)" % (name, n, floor))
            return False
        return True

    def note(self, msg):
        self.notes.append(msg)

    def violations(self):
        return [o for o in self.obligations if o["status"] == "violation"]


# rules whose subject IS the spelling of control flow: R-WRITE-COMPLETE asks of every early `return Ok` / `continue` / `break` in a writer
# under which condition it is taken; a reading in which guard clauses have become nested branches has no such exits to ask about
RAW_ONLY_RULES = {"R-WRITE-COMPLETE"}


_REF = {}


def _reading_reference(pid):
    """tables/normalised_reference.json: per property and normalised reading, what the rules report on the REFERENCE tree's reading
    (violation keys = noise of that reading: shapes the rules do not recognise there although the program as written satisfies them)
    and the anchor counts there.  Written by tools_noise.py on a tree whose first reading is clean; never at check time."""
    if "data" not in _REF:
        p = os.path.join(VERIF, "tables", "normalised_reference.json")
        _REF["data"] = json.load(open(p)) if os.path.exists(p) else {}
    return _REF["data"].get(pid, {})


def evaluate(pid, tier, rules, crates, th, silent=False):
    """first reading: the rules on the program as written.  If that reports violations, second reading: the same rules on the
    normalised program (normalize.py: iterator chains -> loops, Option combinators / two-arm matches -> if let, guard clauses ->
    nested if).  The two programs are equivalent, so an obligation that holds on either reading holds; a violation is reported only
    when the rule fails on both (same key).  Returns (check, program, {rewrite: count} or None)."""
    from . import normalize
    P = ir.Program(crates, th)
    ck = Check(pid, tier, silent=silent)
    rules(ck, P)
    applied = None
    if ck.violations() and not os.environ.get("VT_NO_NORMALISE"):
        try:
            # six normalised readings (inline: 0 none, 1 private helpers only, 2 every small function of the same type / module): with / without turning guard clauses into nested if/else (rules written against guard clauses
            # read one, rules written against nested branches the other), with / without putting helper functions back into their
            # callers (rules that name a helper read one, rules that follow the data through it the other)
            for guard, inline in ((False, 0), (True, 0), (False, 1), (True, 1), (False, 2), (True, 2)):
                if not ck.violations():
                    break
                crates_n, app = normalize.normalise_program(crates, guard=guard, inline=inline)
                if not app:
                    continue
                applied = dict(applied or {}, **app)
                ckn = Check(pid, tier, silent=True)
                rules(ckn, ir.Program(crates_n, th))
                rid = "g%di%d" % (int(guard), int(inline))
                ref = _reading_reference(pid).get(rid, {})
                noise = set(ref.get("violations", ()))
                nk = {v["key"] for v in ckn.violations()}
                okk = {o["key"] for o in ckn.obligations if o["status"] == "ok"}
                # a reading on which a rule lost its footing says nothing about that rule (the anchors are the framework's guard
                # against vacuous rules: a rule whose anchor set is smaller than on the reference tree's same reading — or, where no
                # reference is recorded, than on the program as written — no longer recognises what it is looking for)
                weak = {v["rule"] for v in ckn.violations() if "anchor-missing" in v["key"]}
                floors = ref.get("anchors") or ck.anchor_counts
                for an, cnt in floors.items():
                    if an in ck.anchor_counts and ckn.anchor_counts.get(an, 0) < cnt:
                        weak.add(an.split(":", 1)[0])
                # ... and so has a rule that complains on this reading about something it did not complain about on the program as
                # written: the reading took apart a shape the rule relies on, and what it says about the rest is not believed either
                # (an inlined call that a sibling obligation counts would otherwise pass vacuously)
                raw_v = {o["key"] for o in ck.obligations if o["status"] == "violation"}
                weak |= {v["rule"] for v in ckn.violations() if v["key"] not in raw_v}
                # (a rule that reports nothing at all on a reading is NOT taken as holding there: most rules look at named functions, and
                # a defect that inlining moved into a caller is outside their view on that reading — seeds C17b and C11 showed it)
                for o in ck.obligations:
                    if o["status"] != "violation" or o["rule"] in weak or o["rule"] in RAW_ONLY_RULES or o["key"] in noise:
                        continue
                    # discharged only if the same obligation was evaluated on the normalised reading and held there (an obligation that
                    # is merely absent discharges nothing)
                    if o["key"] not in nk and o["key"] in okk:
                        o["status"] = "ok"
                        o["what"] = "[holds on the normalised reading %s of the program; first reading said: %s]" % (rid, o["what"])
                        o["normalised"] = True
        except Exception as e:   # the second reading can only discharge; if it breaks, the first reading stands
            ck.note("normalised reading failed (%s: %s); first reading reported as is" % (type(e).__name__, str(e)[:120]))
            applied = None
    return ck, P, applied


def load_known():
    p = os.path.join(VERIF, "known_findings.json")
    if not os.path.exists(p):
        return []
    with open(p) as fh:
        return json.load(fh)["findings"]


class _Patched:
    def __init__(self, P, q, new_body):
        self.P, self.q, self.new = P, q, new_body

    def __enter__(self):
        P = self.P
        self.old = P.by_q[self.q][0]
        P.by_q[self.q][0] = self.new
        self.idx = next(i for i, b in enumerate(P.bodies) if b is self.old)
        P.bodies[self.idx] = self.new
        P._cg = None
        P.__dict__.pop("_memo", None)
        P.__dict__.pop("_inl", None)
        return P

    def __exit__(self, *a):
        P = self.P
        P.by_q[self.q][0] = self.old
        P.bodies[self.idx] = self.old
        P._cg = None
        P.__dict__.pop("_memo", None)
        P.__dict__.pop("_inl", None)


def patched(P, q, transform):
    """context manager: body q replaced by transform(deepcopy(body))"""
    old = P.fn(q)
    if old is None:
        return None
    new = copy.deepcopy(old)
    r = transform(new)
    if r is False:
        return None
    return _Patched(P, q, new)


# ---- generic fact-level mutation helpers (operate on a copied body, in place)

def m_find(body, pred):
    for n, parents, mac in ir.walk(body["body"]):
        if pred(n):
            return n, parents
    return None, None


def m_drop_stmt(body, pred):
    """remove the first statement (in any block) that contains a node matching pred"""
    for n in ir.walk_nodes(body["body"]):
        if n.get("k") == "block":
            for i, st in enumerate(n.get("stmts", ())):
                if any(pred(x) for x in ir.walk_nodes(st)):
                    # prefer the innermost block: recurse first
                    inner = False
                    for x in ir.walk_nodes(st):
                        if x is not st and x.get("k") == "block":
                            for st2 in x.get("stmts", ()):
                                if any(pred(y) for y in ir.walk_nodes(st2)):
                                    inner = True
                    if inner:
                        continue
                    del n["stmts"][i]
                    return True
    return False


def m_replace(body, pred, fn):
    """apply fn(node) in place to the first node matching pred"""
    for n in ir.walk_nodes(body["body"]):
        if pred(n):
            fn(n)
            return True
    return False


def run_seeded(pid, rules, base_keys, only=None):
    """apply each seeded patch of this property to a scratch copy of /repo's working tree and re-run the rules"""
    import glob
    import shutil
    import subprocess
    import tempfile
    out = []
    for d in sorted(glob.glob(os.path.join(VERIF, "seeded", "*"))):
        meta_p = os.path.join(d, "meta.json")
        patch = os.path.join(d, "patch.diff")
        if not (os.path.exists(meta_p) and os.path.exists(patch)):
            continue
        with open(meta_p) as fh:
            meta = json.load(fh)
        props = meta.get("detected_by_checks") or [meta.get("property")]
        if pid not in props and pid != meta.get("property"):
            continue
        if only and os.path.basename(d) not in only:
            continue
        scratch = tempfile.mkdtemp(prefix="vt-seed-")
        try:
            subprocess.check_call(["rsync", "-a", "--exclude", "target", "--exclude", ".git", "--exclude", "tmp", facts.REPO + "/", scratch + "/"])
            r = subprocess.run(["patch", "-p1", "-s", "--forward", "-i", patch], cwd=scratch, stdout=subprocess.PIPE, stderr=subprocess.STDOUT, text=True)
            if r.returncode != 0:
                out.append({"seed": os.path.basename(d), "result": "skipped (patch no longer applies)"})
                continue
            try:
                crates, th = facts.load(repo=scratch)
            except facts.BrokenBuild as e:
                out.append({"seed": os.path.basename(d), "result": "skipped (patched tree does not build: %s)" % str(e)[:80]})
                continue
            try:
                c2, _, _ = evaluate(pid, "thorough", rules, crates, th, silent=True)
                fired = [v["key"] for v in c2.violations() if v["key"] not in base_keys]
            except Exception as e:
                fired = ["exception:" + type(e).__name__]
            out.append({"seed": os.path.basename(d), "result": "detected" if fired else "MISSED", "keys": fired[:4]})
        finally:
            shutil.rmtree(scratch, ignore_errors=True)
    return out


def run(pid, rules, mutants=None, *, level="other", explanation="", not_decided="", trusted_base=(),
        rule_text="", tier="quick", extra_cfg=None):
    """rules(ck, P) records obligations; mutants(P) -> [(name, q, transform)]."""
    t0 = time.time()
    seed = int(os.environ.get("VERIF_SEED", "0") or 0)
    try:
        crates, th = facts.load()
    except facts.BrokenBuild as e:
        print("BROKEN-BUILD property=%s: %s" % (pid, e))
        sys.exit(2)
    ck, P, applied = evaluate(pid, tier, rules, crates, th)
    if applied:
        ck.note("second reading used: rewrites applied %s; %d obligation(s) hold only on the normalised reading"
                % (applied, sum(1 for o in ck.obligations if o.get("normalised"))))

    # second configuration (no default features) in the thorough tier
    cfg2 = None
    if tier == "thorough" and extra_cfg:
        try:
            crates2, _ = facts.load(config="nodefault")
            ck2, P2, _ = evaluate(pid, tier, extra_cfg, crates2, th, silent=True)
            cfg2 = {"obligations": len(ck2.obligations), "violations": len(ck2.violations())}
            main_viol = {o["key"] for o in ck.obligations if o["status"] == "violation"}
            for v in ck2.violations():
                if "anchor-missing" in v["key"]:
                    continue  # binary-crate anchors are not part of the library-only configuration
                if v["key"] in main_viol:
                    continue  # same construct already reported (or listed as known finding) in the default configuration
                v = dict(v)
                v["key"] += "|cfg=nodefault"
                v["what"] += " [configuration: --no-default-features]"
                ck.obligations.append(v)
        except facts.BrokenBuild as e:
            cfg2 = {"skipped": str(e)}

    # source-level seeded patches (thorough tier): each must make this check report a new violation
    seeded = []
    if tier == "thorough":
        base_v = {o["key"] for o in ck.obligations if o["status"] == "violation"}
        seeded = run_seeded(pid, rules, base_v)

    # known findings
    known = [k for k in load_known() if k["property"] == pid]
    open_keys = {k["key"]: k for k in known if k["status"] == "open"}
    new_viol, known_hit = [], []
    for v in ck.violations():
        if v["key"] in open_keys:
            known_hit.append(v)
        else:
            new_viol.append(v)

    # fact-level self-test: every mutant must make some rule fire with a new key
    base_keys = {o["key"] for o in ck.obligations if o["status"] == "violation"}
    st = []
    if mutants and not os.environ.get("VT_NO_SELFTEST"):
        for name, q, transform in mutants(P):
            ctx = patched(P, q, transform)
            if ctx is None:
                st.append({"mutant": name, "result": "skipped (target construct not present)"})
                continue
            with ctx:
                c2 = Check(pid, tier, silent=True)
                try:
                    rules(c2, P)
                    fired = [v["key"] for v in c2.violations() if v["key"] not in base_keys]
                except Exception as e:  # a crashed rule on a mutant counts as fired (fail closed)
                    fired = ["exception:" + type(e).__name__]
            if fired and not fired[0].startswith("exception:"):
                # the mutant must also survive the normalised readings (what `evaluate` reports is what counts)
                try:
                    old_b = P.fn(q)
                    crates_m = {key: dict(d, bodies=[(ctx.new if b_ is old_b else b_) for b_ in d["bodies"]]) for key, d in crates.items()}
                    c3, _, _ = evaluate(pid, tier, rules, crates_m, th, silent=True)
                    fired = [v["key"] for v in c3.violations() if v["key"] not in base_keys]
                except Exception as e:
                    fired = ["exception:" + type(e).__name__]
                ir.Program(crates, th)      # restore the module-level constant table of the unmutated program
            st.append({"mutant": name, "result": "fired" if fired else "MISSED", "keys": fired[:3]})
    missed = [s for s in st if s["result"] == "MISSED"]

    # ---- output
    os.makedirs(os.path.join(VERIF, "reports"), exist_ok=True)
    os.makedirs(os.path.join(VERIF, "evidence"), exist_ok=True)
    report_path = os.path.join(VERIF, "reports", pid + ".json")
    with open(report_path, "w") as fh:
        json.dump({"property": pid, "tree": th, "violations": new_viol, "known": known_hit,
                   "selftest_missed": missed}, fh, indent=1)
    for v in known_hit:
        print("KNOWN-FINDING: property=%s %s :: %s" % (pid, v["key"], open_keys[v["key"]].get("what", v["what"])))
    for v in new_viol:
        print("  violation %s %s :: %s" % (v["key"], v.get("loc") or "", v["what"]))
    for s in missed:
        print("SELFTEST-WARNING property=%s: fact-level mutant '%s' was not detected by any rule" % (pid, s["mutant"]))

    obl = [o for o in ck.obligations]
    n_ok = sum(1 for o in obl if o["status"] == "ok")
    distinct = len({o["key"] for o in obl})
    rules_seen = sorted({o["rule"] for o in obl})
    samples = []
    per_rule = {}
    for o in obl:
        per_rule[o["rule"]] = per_rule.get(o["rule"], 0) + 1
        if per_rule[o["rule"]] <= 3 or o["status"] == "violation":
            samples.append({"rule": o["rule"], "key": o["key"], "verdict": o["status"], "what": o["what"], "loc": o["loc"]})
    samples = samples[:90]
    has_open = bool(known_hit)
    lvl = level
    if lvl == "proof" and (has_open or new_viol):
        lvl = "other"
    cov = {
        "evaluations": len(obl),
        "distinct_nontrivial": distinct,
        "rule": rule_text or "one evaluation per rule instance (call site, table arm, path, flag valuation, field); distinct = distinct (rule, function, construct) keys carrying an obligation",
        "samples": samples,
        "obligations": len(obl),
        "discharged": n_ok + len(known_hit) if lvl != "proof" else n_ok,
        "checker_cmd": "./vt check %s --tier %s" % (pid, tier),
        "trusted_base": list(trusted_base),
        "explanation": explanation + ("\nNOT DECIDED: " + not_decided if not_decided else ""),
        "exhaustive": True,
        "rules": rules_seen,
        "anchors": ck.anchor_counts,
        "tree_hash": th,
        "crates_analysed": sorted("%s(%s): %d bodies" % (c, t, len(d["bodies"])) for (c, t), d in crates.items()),
        "selftest_fact_mutants": st,
        "known_findings_hit": [v["key"] for v in known_hit],
        "second_configuration": cfg2,
        "seeded_source_mutants": seeded,
        "notes": ck.notes,
    }
    ev = {
        "property_id": pid,
        "tier": tier,
        "seed": seed,
        "level": lvl,
        "coverage": cov,
        "assumptions": list(trusted_base),
        "wall_s": round(time.time() - t0, 2),
        "violations": len(new_viol),
    }
    with open(os.path.join(VERIF, "evidence", pid + ".json"), "w") as fh:
        json.dump(ev, fh, indent=1)
    print("%s: %d obligations over rules %s; %d ok, %d known finding(s), %d violation(s); self-test %d/%d mutants fired; %.1fs"
          % (pid, len(obl), ",".join(rules_seen), n_ok, len(known_hit), len(new_viol),
             sum(1 for s in st if s["result"] == "fired"), len([s for s in st if not s["result"].startswith("skipped")]),
             time.time() - t0))
    if new_viol:
        print("VIOLATION property=%s replay=%s" % (pid, report_path))
        sys.exit(1)
    sys.exit(0)
