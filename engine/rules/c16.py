"""C16 — readers accept every container that is valid by the published format layouts.

R-SQL-NULL     an SQL aggregate (MIN/MAX/...) read through rusqlite must be typed Option<_> unless its WHERE set is shown non-empty:
               an MBTiles file with a zoom gap makes MIN(..) NULL for the missing level.
R-SPARSE       a missing block / tile outside a partial block is `no tile`, not an error or panic, in lookups and streams (C02).
R-PM-DEPTH     lookup and coverage scan follow leaf directories with the same depth limit.
R-PM-RUN       find_tile accepts ids inside [tile_id, tile_id + run_length) and returns run_length == 0 entries as leaf pointers.
R-TAR-PREFIX   './'-prefixed tar members are recognised.
R-WIRE/R-CODE  reader layouts and code tables equal the published ones (shared with C01), so foreign encoders are understood.
"""
import re

from . import c01, c03, comp, ir, wire
from .report import m_drop_stmt, m_replace

META = {
    "level": "other",
    "explanation": (
        "Decides structural necessary conditions for accepting foreign but valid containers: every rusqlite row read whose SQL "
        "text (literal or format! fragment reaching it) contains an aggregate must be typed Option<_>, because aggregates over "
        "an empty set are NULL (zoom gaps); lookups and the stream treat a missing block or a coordinate outside a partial "
        "block's box as 'no tile'; the PMTiles lookup and the coverage scan share one depth constant; find_tile implements "
        "run-length containment and leaf fall-through; the tar reader drops a leading '.' component; and the reader-side "
        "layouts and code tables equal the published formats (the C01 R-WIRE/R-CODE rules, re-run here on the reader side)."),
    "not_decided": "Hilbert id <-> coordinate arithmetic; binary-search correctness beyond the run-length/leaf conditions; SQLite itself.",
    "trusted_base": ["published layouts transcribed in rules/wire.py", "rusqlite maps SQL NULL to None only for Option<_> targets"],
}

AGG = re.compile(r"\b(MIN|MAX|SUM|AVG)\s*\(", re.I)


def _deep_has_lit(n, v):
    """a literal with value v anywhere in an expression, patterns of `if let` included"""
    if isinstance(n, dict):
        if n.get("k") == "lit" and n.get("v") == v:
            return True
        return any(_deep_has_lit(x, v) for x in n.values())
    if isinstance(n, (list, tuple)):
        return any(_deep_has_lit(x, v) for x in n)
    return False


def fixed_reads_rule(ck, P):
    """R-FIXED-READ: a reader may ask the data source unconditionally only for what the format guarantees to exist — the fixed-size
    header.  Every read_range on a DataReaderTrait object in the pmtiles / versatiles readers whose range is a constant
    (ByteRange::new(c1, c2) after resolving constants and `len()` helpers) must end within the published header length; all other
    ranges come from decoded fields.  A bigger fixed read fails on every valid archive that is shorter than it."""
    from . import affine as A
    n_const, n_all, bad = 0, 0, []
    for b in P.bodies:
        q = b["q"]
        fmt = "pmtiles.header" if "::container::pmtiles::" in q else ("versatiles.header" if "::container::versatiles::" in q else None)
        if fmt is None or "::tests::" in q or "riter" in q:
            continue
        lets = comp.lets_of(b)
        for n in ir.walk_nodes(b["body"]):
            if not (n.get("k") == "mcall" and (n.get("q") or "").endswith("DataReaderTrait::read_range") and n.get("a")):
                continue
            n_all += 1
            a = ir.strip(n["a"][0])
            seen = 0
            while a is not None and a.get("k") == "path" and a.get("r") == "local" and a["hid"] in lets and seen < 4:
                a = ir.strip(lets[a["hid"]])
                seen += 1
            if a is None or not (a.get("k") == "call" and (a.get("q") or "").endswith("ByteRange::new") and len(a.get("a", ())) == 2):
                continue
            env = A.Env()
            off = A.as_const(wire._resolve_const_calls(P, A.ev(a["a"][0], env)))
            ln = A.as_const(wire._resolve_const_calls(P, A.ev(a["a"][1], env)))
            if off is None or ln is None:
                continue
            n_const += 1
            lim = wire.SPEC_LAYOUT[fmt]["len"]
            if off + ln > lim:
                bad.append("%s reads the fixed range %d..%d (the %s is %d bytes) at %s" % (q.rsplit("::", 2)[-1] if "::" in q else q, off, off + ln, fmt, lim, ir.loc(n)))
    ck.anchor("R-FIXED-READ", "read_range calls in the pmtiles/versatiles readers", n_all, 8)
    ck.anchor("R-FIXED-READ", "constant ranges among them", n_const, 2)
    ck.check(not bad, "R-FIXED-READ", "readers|header-only", "the only fixed-size reads are the published headers (%d constant range(s) of %d reads)" % (n_const, n_all),
             "%s: a valid archive shorter than that cannot be opened (the formats only bound where the header and root directory lie, not the file length)" % bad[:2])


def scan_skip_rule(ck, P):
    """R-SCAN-SKIP: while scanning a tar archive or a tile directory an entry is skipped only because it FAILED to be something:
    every `continue` that is not the end of a successful arm (i.e. is not preceded in its block by the insertion into the tile map
    or by a metadata merge) is the else-branch of a `let PATTERN = .. else`, or is dominated — as its innermost condition — by a
    failure fact: is_err() / is_none() true, is_ok() / is_some() false, a non-regular entry type, or an unknown name.  A skip under
    the opposite condition drops valid tiles of a foreign (or own) container."""
    from . import census
    for suffix in ("tar::reader::TarTilesReader::open_path", "directory::reader::DirectoryTilesReader::open_path"):
        bs = [b for b in P.bodies if b["q"].endswith(suffix)]
        if not ck.anchor("R-SCAN-SKIP", suffix, bs, 1):
            continue
        b = bs[0]
        blk = ir.fn_block(b)
        facts_of = {id(n): f for n, f in census.nodes_with_facts(blk, lambda y: y.get("k") == "continue")}
        n_skip, bad = 0, []
        for n, parents, _ in ir.walk(blk):
            if n.get("k") != "continue":
                continue
            # end of a successful arm?
            inner = [p for p in parents if p.get("k") == "block"]
            done = False
            if inner:
                sts = ir.stmts_of(inner[-1])
                idx = next((i for i, st in enumerate(sts) if st is n or ir.contains(st, lambda y: y is n)), len(sts))
                done = any(ir.contains(st, lambda y: y.get("k") == "mcall" and y.get("name") in ("insert", "merge", "include_coord", "include_coord3")) for st in sts[:idx])
            if done:
                continue
            n_skip += 1
            if any(p.get("k") == "let" and "els" in p and ir.contains(p["els"], lambda y: y is n) for p in parents):
                continue
            fs = [f for f in facts_of.get(id(n), ()) if f[0] in ("pred", "cmp", "letpat")]
            last = fs[-1] if fs else None
            okf = False
            if last is not None:
                if last[0] == "pred":
                    okf = (last[2] in ("is_err", "is_none") and last[4] is True) or (last[2] in ("is_ok", "is_some") and last[4] is False)
                elif last[0] == "cmp":
                    okf = (last[2] == "!=" and "EntryType::Regular" in (str(last[3]) + str(last[1])))
            if not okf:
                bad.append("%s under `%s`" % (ir.loc(n), " ".join(map(str, last[1:])) if last else "no condition"))
        ck.check(n_skip >= 3 and not bad, "R-SCAN-SKIP", b["q"], "entries are skipped only when they failed to parse / are not regular files (%d skip(s))" % n_skip,
                 "an entry is skipped although nothing failed: %s — valid tiles or levels are dropped while the container is opened" % bad[:3], ir.loc(b))


def pm_depth_rules(ck, P):
    """R-PM-DEPTH (shared with C03): lookup and coverage scan of the PMTiles reader descend the same number of directory levels"""
    # ---------------- R-PM-DEPTH
    pd = [b for b in P.bodies if b["q"].endswith("calc_bbox_pyramid::parse_directories")]
    pl = None
    for i in P.impls_of("::TilesReaderTrait"):
        if i.get("self_adt", "").endswith("::PMTilesReader"):
            pl = P.impl_method(i, "get_tile_data")
    if ck.anchor("R-PM-DEPTH", "PMTiles lookup + coverage scan", pd + ([pl] if pl else []), 2):
        def depth_consts(b):
            out = set()
            for n in ir.walk_nodes(b["body"]):
                if n.get("k") == "path" and n.get("dk", "").startswith("Const") and "DEPTH" in (n.get("q") or "").upper():
                    out.add(n["q"])
            return out
        c1, c2 = depth_consts(pd[0]), depth_consts(pl)
        lp = [n for n in ir.walk_nodes(pl["body"]) if n.get("k") == "for"]
        bound = None
        if lp:
            it = ir.unparen(lp[0]["iter"])
            fl = {f["name"]: f["e"] for f in it.get("fields", [])} if it.get("k") == "struct" else {}
            bound = ir.const_eval(fl.get("end"), {}) if "end" in fl else None
            if "start" in fl and ir.const_eval(fl["start"], {}) != 0:
                bound = None       # the loop must make `bound` rounds
        # number of directory levels each side visits: lookup `for _ in 0..K` = K; scan = recursion from a constant start d0 with d + 1 per
        # level and an exit when d >= K (K - d0 levels) or d > K (K - d0 + 1)
        scan_levels = None
        b_s = pd[0]
        dp = [x for p_ in b_s["params"] for x in ir.pat_binds(p_) if x["t"] in ("u8", "u32", "usize", "u64", "u16", "i32")]
        if dp:
            dh, dn = dp[-1]["hid"], dp[-1]["name"]
            g = [n for n in ir.walk_nodes(b_s["body"]) if n.get("k") == "if" and ir.cmp_norm(n["c"]) is not None and ir.cmp_norm(n["c"])[0] == dn and ir.cmp_norm(n["c"])[1] in (">=", ">") and
                 (ir.diverges(n["then"]) or ir.contains(n["then"], lambda y: y.get("k") == "ret"))]
            rec = [y for y in ir.walk_nodes(b_s["body"]) if y.get("k") == "call" and (y.get("q") or "") == b_s["q"]]
            from . import affine as A
            step_ok = bool(rec) and all(any(A.eq(A.ev(a_, A.Env()), A.add(A.sym((dh, dn)), A.const(1))) for a_ in y["a"]) for y in rec)
            outer = [y for x in P.bodies if x["q"] != b_s["q"] for y in ir.walk_nodes(x["body"]) if y.get("k") == "call" and (y.get("q") or "") == b_s["q"]]
            d0 = None
            if len(outer) == 1:
                consts = [ir.const_eval(a_, {}) for a_ in outer[0]["a"] if ir.const_eval(a_, {}) is not None and (ir.strip(a_).get("t") or "") in ("u8", "u32", "usize", "u64", "u16", "i32")]
                d0 = consts[-1] if consts else None
            if len(g) == 1 and step_ok and d0 is not None and bound is not None:
                scan_levels = bound - d0 + (1 if ir.cmp_norm(g[0]["c"])[1] == ">" else 0)
        ck.check(scan_levels is not None and scan_levels == bound, "R-PM-DEPTH", "same-levels", "the coverage scan descends as many directory levels as the lookup (%s)" % bound,
                 "the coverage scan visits %s directory level(s), the lookup %s: tiles in the deeper leaves are returned but not advertised (or the reverse)" % (scan_levels, bound), ir.loc(pd[0]))
        ck.check(bool(c1) and c1 == c2 and bound is not None and bound >= 3, "R-PM-DEPTH", "shared-limit", "lookup loop and coverage recursion are limited by the same constant (%s = %s levels; the specification allows root + leaf levels)" % (sorted(c1), bound),
                 "lookup and coverage scan do not share one depth limit (scan: %s, lookup: %s, bound %s)" % (sorted(c1), sorted(c2), bound), ir.loc(pl))


def mb_reader_rules(ck, P):
    """R-MB-READ: the MBTiles reader reads what the schema says.
    cols   every row.get(i) inside the row callback of a statement prepared from a constant SELECT addresses the column the
           value is used as: tile_data for blobs, tile_column / tile_row / zoom_level for x / (flipped) y / z, name / value for the
           metadata record fields of the same name.
    guard  the lookup refuses a coordinate only for y > 2^z - 1 (a row on the last line of the grid is a valid tile).
    meta   the format and compression found in the metadata table end up in the reader's parameters; recognised string keys are stored
           under their own key."""
    import re as _re
    bodies = [b for b in P.bodies if "::mbtiles::reader::MBTilesReader" in b["q"] and "::tests::" not in b["q"]]
    if not ck.anchor("R-MB-READ", "MBTilesReader methods", bodies, 5):
        return
    # the queries name only what the MBTiles specification guarantees: the table / view `tiles` with zoom_level, tile_column, tile_row,
    # tile_data and the table `metadata` with name, value.  Index names, the map / images tables behind a tiles VIEW, rowid ... are
    # choices of the encoder: a query that depends on them (INDEXED BY tile_index) cannot even be prepared on another valid file.
    SPEC_WORDS = {"select", "from", "where", "and", "or", "not", "min", "max", "count", "distinct", "order", "by", "asc", "desc", "limit", "group", "as", "is", "null", "in", "between",
                  "tiles", "metadata", "zoom_level", "tile_column", "tile_row", "tile_data", "name", "value"}
    n_sql, off = 0, []
    for b in bodies:
        cand = [(str(y.get("v")), y) for y in ir.walk_nodes(b["body"]) if y.get("k") == "lit" and y.get("lk") == "str"]
        for y in ir.walk_nodes(b["body"]):
            src = y.get("src", "")
            if src.startswith("format!("):
                # the format string is the first string literal of the macro call (the snippet may be cut: an unterminated one is taken to its end)
                m_ = _re.match(r'format!\(\s*r?#*"((?:[^"\\]|\\.)*)"?', src, _re.S)
                if m_:
                    cand.append((m_.group(1), y))
        for v_, y in cand:
            if _re.search(r"\b(SELECT|FROM|WHERE)\b", v_, _re.I):
                n_sql += 1
                txt = _re.sub(r"\{[^}]*\}", " ", v_)          # format placeholders
                txt = _re.sub(r"'[^']*'", " ", txt)                      # string constants
                for w in _re.findall(r"[A-Za-z_][A-Za-z_0-9]*", txt):
                    if w.lower() not in SPEC_WORDS:
                        off.append((w, ir.loc(y)))
    ck.anchor("R-MB-READ", "SQL texts of the MBTiles reader", n_sql, 4)
    ck.check(not off, "R-MB-READ", "MBTilesReader|sql-objects", "the reader's queries use only the tables and columns of the MBTiles specification (tiles / metadata and their columns)",
             "a query of the MBTiles reader names `%s`, which the specification does not guarantee: a valid file written by another encoder (tiles as a view, an index of another name or none) is refused" %
             sorted({w for w, _ in off})[:4], off[0][1] if off else None)
    n_get, bad = 0, []
    for b in bodies:
        sqls = []
        for y in ir.walk_nodes(b["body"]):
            if y.get("k") == "mcall" and (y.get("q") or "").endswith("Connection::prepare") and y.get("a"):
                v = ir.const_eval_str(y["a"][0])
                if v:
                    sqls.append(v)
        if len(sqls) != 1:
            continue
        m_ = _re.match(r"\s*SELECT\s+(.*?)\s+FROM\s", sqls[0], _re.I | _re.S)
        if not m_:
            continue
        cols = [c.strip() for c in m_.group(1).split(",")]
        for clo in [y for y in ir.walk_nodes(b["body"]) if y.get("k") == "closure"]:
            for g, parents, _ in ir.walk(clo["body"]):
                if not (g.get("k") == "mcall" and (g.get("q") or "").endswith("Row::get") and g.get("a")):
                    continue
                i = ir.const_eval(g["a"][0], {})
                n_get += 1
                if i is None or not 0 <= i < len(cols):
                    bad.append("%s: row.get(%s) with %d selected column(s)" % (ir.loc(g), i, len(cols)))
                    continue
                col = cols[i].lower()
                # the role the value plays
                role = None
                for p_ in reversed(parents):
                    if p_.get("k") == "struct":
                        f_ = [f["name"] for f in p_.get("fields", ()) if ir.contains(f["e"], lambda z: z is g)]
                        role = f_[0] if f_ else None
                        break
                    if p_.get("k") == "call" and (p_.get("q") or "").endswith("TileCoord3::new") and len(p_.get("a", ())) == 3:
                        k_ = next((j for j, a_ in enumerate(p_["a"]) if a_ is g or ir.contains(a_, lambda z: z is g)), None)
                        role = {0: "tile_column", 1: "tile_row", 2: "zoom_level"}.get(k_)
                        break
                    if p_.get("k") == "call" and (p_.get("q") or "").endswith(("Blob::from", "From::from")) and "Blob" in (p_.get("t") or ""):
                        role = "tile_data"
                        break
                if role is None and "Vec<u8>" in (g.get("t") or ""):
                    role = "tile_data"
                if role is not None and role != col:
                    bad.append("%s: column %d of `%s` is `%s` but the value is used as %s" % (ir.loc(g), i, m_.group(1), col, role))
    ck.anchor("R-MB-READ", "row.get calls under constant SELECTs", n_get, 7)
    ck.check(not bad, "R-MB-READ", "cols", "every row.get(i) reads the column it is used as (%d reads)" % n_get, "MBTiles rows are read from the wrong column: %s" % bad[:3])
    # guard
    from . import census
    look = [b for b in bodies if b.get("trait_item", "").endswith("TilesReaderTrait::get_tile_data")]
    if look:
        b = look[0]
        lets = comp.lets_of(b)
        rets = [(n, f) for n, f in census.nodes_with_facts(ir.fn_block(b), lambda y: y.get("k") == "ret") if f]
        okg, shown = False, "no guarded early return"
        for n, fs in rets:
            cm = [f for f in fs if f[0] == "cmp"]
            if cm:
                f = cm[-1]
                shown = " ".join(map(str, f[1:]))
                okg = (f[1].endswith(".y") and f[2] == ">" and not f[3].isdigit()) or (f[3].endswith(".y") and f[2] == "<" and not f[1].isdigit())
                # the bound is 2^z - 1
                bnd = f[3] if f[1].endswith(".y") else f[1]
                bh = [h for h, init in lets.items() if ir.contains(ir.fn_block(b), lambda y: y.get("k") == "path" and y.get("r") == "local" and y.get("hid") == h and y.get("name") == bnd)]
                if okg and bh:
                    from . import affine as A
                    t = A.ev(lets[bh[0]], A.Env())
                    okg = A.as_const(A.add(t, A.const(1))) is None and "pow" in A.show(t) and A.show(A.add(t, A.const(1))).count("+") == 0
        ck.check(okg, "R-MB-READ", b["q"] + "|guard", "a lookup is refused before the query only for y > 2^z - 1 (guard `%s`)" % shown,
                 "the row guard of the MBTiles lookup is `%s`: it must refuse exactly the rows beyond the grid (y > 2^z - 1), a tile on the last row is valid" % shown, ir.loc(b))
    lm = [b for b in bodies if b["q"].endswith("MBTilesReader::load_meta_data")]
    if lm:
        b = lm[0]
        asg = {}
        for y in ir.walk_nodes(b["body"]):
            if y.get("k") == "assign" and ir.place_str(y["l"]).startswith("self.parameters."):
                asg[ir.place_str(y["l"]).rsplit(".", 1)[-1]] = y
        okp = True
        for fld, ty in (("tile_format", "TileFormat"), ("tile_compression", "TileCompression")):
            y = asg.get(fld)
            src = ir.local_hid(ir.strip(y["r"])["e"]) if y is not None and ir.strip(y["r"]).get("k") == "try" else (ir.local_hid(y["r"]) if y is not None else None)
            # that local is the one the format arms assign Ok(<variant of ty>) to
            fed = src is not None and any(z.get("k") == "assign" and ir.local_hid(z["l"]) == src and ty + "::" in str([w.get("q") for w in ir.walk_nodes(z["r"])]) for z in ir.walk_nodes(b["body"]))
            okp = okp and fed
        ck.check(okp, "R-MB-READ", b["q"] + "|parameters", "the format / compression recognised in the metadata table are stored in the reader's parameters",
                 "the tile format or compression found in the metadata table does not reach the reader's parameters", ir.loc(b))
        ss = [y for y in ir.walk_nodes(b["body"]) if y.get("k") == "mcall" and (y.get("q") or "").endswith(("TileJSON::set_string", "TileJSON::set_byte")) and len(y.get("a", ())) == 2]
        kv = {}
        for y in ir.walk_nodes(b["body"]):
            if y.get("k") == "let" and "init" in y and y["pat"].get("k") == "bind":
                fl = [z.get("name") for z in ir.walk_nodes(y["init"]) if z.get("k") == "field"]
                if fl:
                    kv[y["pat"]["hid"]] = fl[0]
        oks = len(ss) >= 2 and all(kv.get(ir.local_hid(y["a"][0])) == "name" and kv.get(next((z["hid"] for z in ir.walk_nodes(y["a"][1]) if z.get("k") == "path" and z.get("r") == "local"), None)) == "value" for y in ss)
        others = all(ir.contains(b["body"], lambda y, nm=nm: y.get("k") == "mcall" and (y.get("q") or "").endswith(nm)) for nm in ("TileJSON::limit_bbox", "TileJSON::set_vector_layers"))
        ck.check(oks and others, "R-MB-READ", b["q"] + "|tilejson", "metadata rows reach the TileJSON as (row.name -> key, row.value -> value); bounds and vector_layers are taken over",
                 "metadata rows are not stored under their own key with their own value, or bounds / vector_layers are dropped", ir.loc(b))


def rules(ck, P):
    mb_reader_rules(ck, P)
    from . import c04 as _c04
    _c04.reader_declares_rule(ck, P, "R-CODE")
    # PMTiles tile ids: Hilbert digit tables, quadrant transform, level base, step order (finite tables and term shapes)
    from . import hilbert as _hilbert
    _hilbert.rules(ck, P)
    # tar / directory: the tile map is written by plain insert(coord, range) only — for a name that occurs twice in an archive (tar -r / -u
    # append a replacement) the later member wins, as tar readers do; and the lookup reads that map with the requested coordinate (shared with C03)
    from . import c03 as _c03
    _c03.pair_rule(ck, P, "::TarTilesReader", "tar")
    _c03.pair_rule(ck, P, "::DirectoryTilesReader", "directory")
    fixed_reads_rule(ck, P)
    scan_skip_rule(ck, P)
    # ---------------- R-SQL-NULL
    n_rows = 0
    for b in P.bodies:
        if b["crate"] != "versatiles_container":
            continue
        gets = [n for n in ir.walk_nodes(b["body"]) if n.get("k") == "mcall" and (n.get("q") or "") == "rusqlite::row::Row::get"]
        if not gets:
            continue
        # SQL text reaching this function: literals and format! fragments in the body, plus string parameters fed by callers
        texts = [n["v"] for n in ir.walk_nodes(b["body"]) if n.get("k") == "lit" and n.get("lk") == "str"]
        texts += [n["src"] for n in ir.walk_nodes(b["body"]) if n.get("src", "").startswith("format!(")]
        str_params = [i for i, t in enumerate(b.get("in_t", ())) if t in ("&str", "&std::string::String", "std::string::String")]
        if str_params:
            for cb in P.bodies:
                for n in ir.walk_nodes(cb["body"]):
                    if n.get("k") in ("mcall", "call") and b["q"] in P.targets_of(n):
                        args = ([n["recv"]] if n["k"] == "mcall" else []) + list(n.get("a", ()))
                        for i in str_params:
                            if i < len(args):
                                s = ir.const_eval_str(args[i])
                                if s:
                                    texts.append(s)
        has_agg = any(AGG.search(t) for t in texts)
        for k, g in enumerate(gets):
            n_rows += 1
            ga = g.get("ga") or ""
            ty = ga.strip("[]").split(", ", 1)[-1] if ", " in ga else ga
            opt = "Option<" in ty
            key = "%s|row.get#%d" % (b["q"], k + 1)
            if has_agg and not opt:
                ck.violation("R-SQL-NULL", key, "row value typed `%s` is read from a statement containing an aggregate (%s): MIN/MAX over an empty set is NULL, so a valid MBTiles "
                             "file whose zoom levels are not contiguous fails to open with 'Invalid column type Null'" % (ty, sorted({m.group(1).upper() for t in texts for m in AGG.finditer(t)})), ir.loc(g))
            else:
                ck.ok("R-SQL-NULL", key, "row value typed `%s`; %s" % (ty, "aggregate results are nullable" if opt else "statement has no aggregate"), ir.loc(g))
    ck.anchor("R-SQL-NULL", "rusqlite row reads", n_rows, 5)
    # level loop: a level without tiles must be skipped, not fail
    mb = [b for b in P.bodies if b["q"].endswith("mbtiles::reader::MBTilesReader::get_bbox_pyramid")]
    if ck.anchor("R-SQL-NULL", "MBTiles get_bbox_pyramid", mb, 1):
        b = mb[0]
        loops = [n for n in ir.walk_nodes(b["body"]) if n.get("k") == "for"]
        skip = False
        for lp in loops:
            skip = skip or ir.contains(lp["body"], lambda y: y.get("k") == "continue") or ir.contains(lp["body"], lambda y: y.get("k") in ("if", "match") and ir.contains(y, lambda z: "None" in (z.get("q") or "") or z.get("k") == "letx"))
        ck.check(skip, "R-SQL-NULL", b["q"] + "|gap", "levels between MIN and MAX zoom that hold no tiles are skipped", "every level between MIN(zoom_level) and MAX(zoom_level) is assumed to hold tiles", ir.loc(b))

        _mb_nonempty(ck, P, b)

    # ---------------- R-SPARSE
    for i in P.impls_of("::TilesReaderTrait"):
        if not i.get("self_adt", "").endswith("::VersaTilesReader"):
            continue
        g = P.impl_method(i, "get_tile_data")
        s = P.impl_method(i, "get_bbox_tile_stream")
        sts = ir.stmts_of(ir.fn_block(g))
        none_block = any(s_.get("k") == "if" and ir.diverges(s_["then"]) and ir.contains(s_["c"], lambda y: y.get("k") == "mcall" and y.get("name") == "is_none") and
                         ir.contains(s_["then"], lambda y: (y.get("q") or "").endswith("Option::None::{Ctor#0}")) for s_ in sts)
        ck.check(none_block, "R-SPARSE", g["q"] + "|missing-block", "lookup: a block that is not in the index means 'no tile'", "lookup does not treat a missing block as 'no tile'", ir.loc(g))
        glets = comp.lets_of(g)
        cpar = [x["name"] for p_ in g["params"] for x in ir.pat_binds(p_) if x["t"].endswith("TileCoord3")]

        def partial_guard(s_):
            if s_.get("k") != "if" or not ir.diverges(s_["then"]) or not ir.contains(s_["then"], lambda y: (y.get("q") or "").endswith("Option::None::{Ctor#0}")):
                return False
            c = ir.unparen(s_["c"])
            if c.get("k") != "un" or c.get("op") != "!":
                return False
            m = ir.unparen(ir.strip(c["e"]))
            return m.get("k") == "mcall" and m.get("name") in ("contains2", "contains3") and comp.deep_place(m["recv"], glets).endswith(".get_global_bbox()") and \
                bool(cpar) and comp.deep_place(m["a"][0], glets).split(".")[0] == cpar[0]
        part = any(partial_guard(s_) for s_ in sts)
        ck.check(part, "R-SPARSE", g["q"] + "|partial-block", "lookup: a coordinate outside a partial block's box means 'no tile'", "lookup does not handle partial blocks", ir.loc(g))
        zero = ir.contains(g["body"], lambda y: y.get("k") == "if" and ir.unparen(y["c"]).get("k") == "bin" and ir.unparen(y["c"]).get("op") == "==" and _is_range_len(ir.unparen(y["c"])["l"]) and ir.const_eval(ir.unparen(y["c"])["r"], {}) == 0)
        ck.check(zero, "R-SPARSE", g["q"] + "|empty-entry", "lookup: an index entry of length 0 means 'no tile'", "zero-length index entries are not treated as absent", ir.loc(g))
        gb = [n for n in ir.walk_nodes(s["body"]) if n.get("k") == "mcall" and n.get("name") == "get_block"]
        okm = False
        for n, parents, _ in ir.walk(s["body"]):
            if gb and n is gb[0]:
                for p in reversed(parents):
                    if p.get("k") == "let" and "els" in p:
                        okm = ir.diverges(p["els"]) and not ir.contains(p["els"], lambda y: y.get("k") == "call" and (y.get("q") or "").startswith(ir.PANIC_FNS))
                    if p.get("k") in ("if", "match") and not okm:
                        okm = not ir.contains(p, lambda y: y.get("k") == "call" and (y.get("q") or "").startswith(ir.PANIC_FNS))
        ck.check(okm, "R-SPARSE", s["q"] + "|missing-block", "stream: a block that is not in the index contributes no tiles", "stream fails on a block that is not in the index", ir.loc(s))
        flt = ir.contains(s["body"], lambda y: y.get("k") == "bin" and y.get("op") == ">" and _is_range_len(y["l"]) and ir.const_eval(y["r"], {}) == 0)
        ck.check(flt, "R-SPARSE", s["q"] + "|empty-entry", "stream: zero-length index entries are skipped", "stream does not skip zero-length entries", ir.loc(s))

    pm_depth_rules(ck, P)
    pl = None
    for i in P.impls_of("::TilesReaderTrait"):
        if i.get("self_adt", "").endswith("::PMTilesReader"):
            pl = P.impl_method(i, "get_tile_data")

    # ---------------- R-PM-RUN
    ft = [b for b in P.bodies if b["q"].endswith("entries_v3::EntriesV3::find_tile")]
    if ck.anchor("R-PM-RUN", "find_tile", ft, 1):
        b = ft[0]
        # the two acceptance tests may be two `if`s or one `if a || b` (each alternative alone accepts); `&&` is not split
        def alts(c):
            c = ir.unparen(c)
            if c.get("k") == "bin" and c.get("op") == "||":
                return alts(c["l"]) + alts(c["r"])
            return [c]
        atoms = [a for n in ir.walk_nodes(b["body"]) if n.get("k") == "if" and n["c"].get("k") != "letx" for a in alts(n["c"])]
        conds = [ir.cmp_norm(a) for a in atoms]
        leaf = any(c and c[0].endswith("run_length") and c[1] == "==" and c[2] == "0" for c in conds)
        run = False
        for c in atoms:
            if True:
                tp = [x["hid"] for p_ in b["params"] for x in ir.pat_binds(p_) if x["t"] == "u64"]
                if c.get("k") == "bin" and c.get("op") == "<" and c["l"].get("k") == "bin" and c["l"].get("op") == "-" and ir.local_hid(c["l"]["l"]) in tp and \
                        ir.strip(c["l"]["r"]).get("k") == "field" and ir.strip(c["l"]["r"]).get("name") == "tile_id" and \
                        ir.contains(c["r"], lambda y: y.get("k") == "field" and y.get("name") == "run_length"):
                    run = True
        exact = ir.contains(b["body"], lambda y: y.get("k") == "match" and any("Equal" in str(a["pat"]) for a in y["arms"]))
        ck.check(leaf and run and exact, "R-PM-RUN", b["q"], "find_tile: exact id, or the preceding entry if it is a leaf pointer (run_length == 0) or tile_id - entry.tile_id < run_length",
                 "find_tile lacks leaf fall-through (%s), run-length containment (%s) or exact match (%s)" % (leaf, run, exact), ir.loc(b))
    if pl:
        okb = ir.contains(pl["body"], lambda y: y.get("k") == "if" and ir.cmp_norm(y["c"]) is not None and ir.cmp_norm(y["c"])[0].endswith(".run_length") and ir.cmp_norm(y["c"])[1:] == (">", "0"))
        ck.check(okb, "R-PM-RUN", pl["q"], "lookup: run_length > 0 is a tile, otherwise the entry is followed as a leaf directory", "lookup does not distinguish tiles from leaf pointers by run_length", ir.loc(pl))

    # ---------------- R-PM-OFFSET0: a stored offset of 0 means "starts where the PREVIOUS entry ends"
    fbl = [b for b in P.bodies if b["q"].endswith("entries_v3::EntriesV3::from_blob")]
    if ck.anchor("R-PM-OFFSET0", "EntriesV3::from_blob", fbl, 1):
        _pm_offset0(ck, fbl[0])
    # ---------------- R-CACHE-KEY: a cached value is a function of its key
    _cache_key_rules(ck, P)
    wire.block_geometry_rules(ck, P)
    wire.pm_directory_codec_rules(ck, P)
    wire.vt_types_rules(ck, P)
    c03.pm_cover_rules(ck, P, "R-PM-COVER")
    # ---------------- R-TAR-PREFIX
    tr = [b for b in P.bodies if b["q"].endswith("tar::reader::TarTilesReader::open_path")]
    if ck.anchor("R-TAR-PREFIX", "tar open_path", tr, 1):
        b = tr[0]
        sts_all = [n for n in ir.walk_nodes(b["body"]) if n.get("k") == "block"]
        okd = False
        for blk in sts_all:
            sts = ir.stmts_of(blk)
            di = next((i for i, s in enumerate(sts) if s.get("k") == "if" and ir.deep_has_lit(s["c"], ".") and ir.contains(s["then"], lambda y: y.get("k") == "mcall" and ((y.get("name") == "remove" and y.get("a") and ir.const_eval(y["a"][0], {}) == 0) or y.get("name") in ("drain", "pop_front")))), None)
            li = next((i for i, s in enumerate(sts) if s.get("k") == "if" and ir.cmp_norm(s["c"]) is not None and ir.cmp_norm(s["c"])[0].endswith("len()") and ir.cmp_norm(s["c"])[2] == "3"), None)
            if di is not None and li is not None and di < li:
                okd = True
        ck.check(okd, "R-TAR-PREFIX", b["q"], "a leading '.' component is dropped before the three-component test", "'./z/x/y' members are not recognised as tiles", ir.loc(b))
        kinds = ir.contains(b["body"], lambda y: y.get("k") == "if" and ir.contains(y["c"], lambda z: "EntryType::Regular" in (z.get("q") or "")) and ir.diverges(y["then"]))
        ck.check(kinds, "R-TAR-PREFIX", b["q"] + "|non-regular", "directory and other non-regular members are skipped", "non-regular members are not skipped", ir.loc(b))

    # ---------------- reader-side layouts / codes (shared with C01)
    for name, rq, skip in (("versatiles.header", "types::file_header::FileHeader::from_blob", 0), ("versatiles.block", "types::block_definition::BlockDefinition::from_blob", 0),
                           ("versatiles.tile_index_entry", "types::tile_index::TileIndex::from_blob", 0), ("pmtiles.header", "types::header_v3::HeaderV3::deserialize", 2)):
        rb = c01.fn(P, rq)
        if not ck.anchor("R-WIRE", name + " reader", [rb] if rb else [], 1):
            continue
        rs, ro = wire.reader_seq(rb, P)
        spec = wire.SPEC_LAYOUT[name]
        st = [p for p, _ in spec["fields"]][skip:]
        ck.check([p for p, _, _ in rs] == st and ro == spec["order"], "R-WIRE", name + "|reader", "reader decodes the published %s layout (%d bytes, %s)" % (name, spec["len"], spec["order"]),
                 "reader layout %s (%s) differs from the published %s" % ([p for p, _, _ in rs], ro, st), ir.loc(rb))
        bad = [(i, nm, sn) for i, ((_, nm, _), (_, sn)) in enumerate(zip(rs, spec["fields"][skip:])) if not rs[i][0].startswith("bytes") and not wire.names_match(nm, sn)]
        ck.check(not bad, "R-WIRE", name + "|reader-fields", "each decoded field lands in the member the specification names at that offset", "fields decoded into the wrong member: %s" % bad[:4], ir.loc(rb))
    hr = c01.fn(P, "types::file_header::FileHeader::from_blob")
    if hr:
        rt = [wire.match_table(n) for n in ir.walk_nodes(hr["body"]) if n.get("k") == "match" and len(n["arms"]) >= 3 and n.get("msrc") == "Normal"]
        for nm in ("versatiles.tile_format", "versatiles.compression"):
            spec = wire.SPEC_CODES[nm]
            r = next((t for t in rt if set(t.values()) - {None} == set(spec)), None)
            inv = {v: k for k, v in (r or {}).items() if v is not None}
            ck.check(inv == spec, "R-CODE", nm + "|reader", "reader accepts exactly the published %s codes" % nm, "reader code table %s differs from %s" % (r, spec), ir.loc(hr))
    for enum, spec_key in (("pmtiles::types::tile_compression::PMTilesCompression", "pmtiles.compression"), ("pmtiles::types::tile_type::PMTilesType", "pmtiles.tile_type")):
        fu = c01.fn(P, enum + "::from_u8")
        if fu:
            t = [wire.match_table(n) for n in ir.walk_nodes(fu["body"]) if n.get("k") == "match"]
            inv = {v: k for k, v in (t[0] if t else {}).items() if v is not None}
            ck.check(inv == wire.SPEC_CODES[spec_key], "R-CODE", spec_key + "|from_u8", "from_u8 accepts exactly the published codes", "from_u8 table %s" % (t[0] if t else None), ir.loc(fu))


def _pm_offset0(ck, b):
    """PMTiles v3 directories store offset+1, and 0 for an entry that starts exactly where the previous entry ends.  The decoder
    must resolve 0 to previous.offset + previous.length — either by indexing entry i-1 or through a cursor that is set to
    offset + length of the entry just decoded (not, e.g., to a running maximum: de-duplicated archives point backwards)."""
    from . import affine as A
    loops = [n for n in ir.walk_nodes(b["body"]) if n.get("k") == "for" and
             ir.contains(n["body"], lambda y: y.get("k") == "assign" and ir.strip(y["l"]).get("k") == "field" and ir.strip(y["l"]).get("name") == "offset")]
    if not ck.check(len(loops) == 1, "R-PM-OFFSET0", "loop", "one loop decodes the offset column", "%d loops assign offsets" % len(loops), ir.loc(b)):
        return
    lp = loops[0]
    body = lp["body"]
    # the value assigned in the `stored == 0` case (statement form or if-expression form)
    cont = None
    for n in ir.walk_nodes(body):
        if n.get("k") == "if" and ir.contains(n["c"], lambda y: y.get("k") == "bin" and y.get("op") == "==" and ir.const_eval(y["r"], {}) == 0):
            asg = [y for y in ir.walk_nodes(n["then"]) if y.get("k") == "assign" and ir.strip(y["l"]).get("name") == "offset"]
            if asg:
                cont = asg[0]["r"]
            else:
                t = ir.unparen(n["then"])
                cont = t.get("tail") if t.get("k") == "block" and not t.get("stmts") else t
    if not ck.check(cont is not None, "R-PM-OFFSET0", "branch", "the stored value 0 has its own branch", "no branch for a stored offset of 0", ir.loc(lp)):
        return
    env = A.Env()
    v = A.ev(cont, env)
    ok = False
    why = "value is `%s`" % A.show(v)
    # form A: entries[i - 1].range.offset + entries[i - 1].range.length
    if v is not A.TOP and len(v) == 2 and all(c_ == 1 for c_ in v.values()):
        atoms = [m[0] for m in v if len(m) == 1]
        if len(atoms) == 2 and all(a[0] == "sym" for a in atoms):
            def split(a):
                pl = a[1]
                return (pl[0], pl[1]) if isinstance(pl, tuple) and len(pl) == 2 and pl[1] in (".offset", ".length") else (None, None)
            (b0, f0), (b1, f1) = split(atoms[0]), split(atoms[1])
            if b0 is not None and b0 == b1 and {f0, f1} == {".offset", ".length"}:
                # b0 = (<entries>[i - 1], ".range"): the index term must be loop index - 1
                idx_ok = False
                base = b0[0] if isinstance(b0, tuple) and b0[1] == ".range" else None
                lv = ir.pat_binds(lp["pat"])
                if base is not None and isinstance(base, tuple) and isinstance(base[1], str) and base[1].startswith("["):
                    want = [A.freeze(A.sub(A.local_sym(x), A.const(1))) for x in lv if x["t"] == "usize"]
                    idx_ok = any(base[1] == "[%s]" % (w,) for w in want)
                ok = idx_ok
                why = "value is %s with index ok=%s" % (A.show(v), idx_ok)
    # form B: a cursor local that is set to offset + length of the entry just decoded at the end of every iteration
    if not ok:
        ch = ir.local_hid(cont)
        if ch is not None:
            sts = ir.stmts_of(body)
            env2 = A.Env()
            A.run(sts, env2)
            fin = env2.m.get(ch)
            ups = [y for y in ir.walk_nodes(body) if y.get("k") in ("assign", "assignop") and ir.local_hid(y["l"]) == ch]
            if fin is not A.TOP and fin is not None and len(ups) == 1 and len(fin) == 2 and all(c_ == 1 for c_ in fin.values()):
                atoms = [m[0] for m in fin if len(m) == 1]
                pls = [a[1] for a in atoms if a[0] == "sym"]
                if len(pls) == 2 and all(isinstance(pl, tuple) and pl[1] in (".offset", ".length") for pl in pls) and pls[0][0] == pls[1][0] and {pls[0][1], pls[1][1]} == {".offset", ".length"}:
                    ok = True
            why = "cursor after one iteration is `%s`" % A.show(fin)
    ck.check(ok, "R-PM-OFFSET0", "contiguous", "a stored offset of 0 resolves to previous.offset + previous.length",
             "a stored offset of 0 does not resolve to the end of the PREVIOUS entry (%s): archives with shared (backward) offsets return another tile's bytes" % why, ir.loc(lp))


def _mb_nonempty(ck, P, b):
    """Queries that turn a NULL aggregate (empty WHERE set) into an error must have a WHERE set that is non-empty for every
    valid file: a row known to exist (found by an earlier query at the same level) has to satisfy the whole WHERE clause."""
    import re
    from . import c03
    frag = {}
    for n in ir.walk_nodes(b["body"]):
        if n.get("k") == "let" and n["pat"].get("k") == "bind" and "init" in n and n["pat"].get("t", "").endswith("String"):
            fl = c03.fmt_literal(n["init"])
            if fl:
                frag[n["pat"]["name"]] = fl[0]

    def expand(lit, depth=0):
        return lit if depth > 3 else re.sub(r"\{(\w+)\}", lambda m: expand(frag[m.group(1)], depth + 1) if m.group(1) in frag else m.group(0), lit)
    wrappers = {}
    for n in ir.walk_nodes(b["body"]):
        if n.get("k") == "let" and n["pat"].get("k") == "bind" and n.get("init", {}).get("k") == "closure" and \
                ir.contains(n["init"]["body"], lambda y: y.get("k") == "mcall" and y.get("name") == "simple_query"):
            errs = ir.contains(n["init"]["body"], lambda y: y.get("k") == "mcall" and y.get("name") in ("ok_or_else", "ok_or", "context", "with_context", "unwrap", "expect"))
            wrappers[n["pat"]["hid"]] = errs
    # variables holding a value that exists at level {z}
    col_wit, row_wit, col_wit_opt = set(), set(), set()
    zl = [x["name"] for lp_ in ir.walk_nodes(b["body"]) if lp_.get("k") == "for" for x in ir.pat_binds(lp_["pat"])]
    zpat = "zoom_level = {%s}" % (zl[0] if zl else "?")
    n_checked = 0
    bad = []
    for n in ir.walk_nodes(b["body"]):
        tgt = val = None
        if n.get("k") == "let" and "init" in n:
            bs = ir.pat_binds(n["pat"])
            tgt, val = [x["name"] for x in bs], n["init"]
        elif n.get("k") == "assign":
            tgt, val = [ir.place_str(n["l"])], n["r"]
        if val is None or val.get("k") == "closure":
            continue
        calls = [y for y in ir.walk_nodes(val) if c03._is_query(y, set(wrappers))]
        if n.get("k") == "let" and "els" in n and not calls:
            # let (Some(x0), Some(x1)) = (x0, x1) else { continue }: the unwrapped names are witnesses if their sources were level queries
            for x in tgt:
                if x in col_wit_opt:
                    col_wit.add(x)
            continue
        if len(calls) != 1:
            continue
        c = calls[0]
        agg = ir.const_eval_str(c["a"][0]) or ""
        fl = c03.fmt_literal(c["a"][1])
        where = expand(fl[0]) if fl else (ir.const_eval_str(c["a"][1]) or "")
        via_err = c.get("k") == "call" and wrappers.get(ir.local_hid(c["f"]), False)
        level = zpat in where
        if not via_err:
            if level and "tile_column" in agg and not ("tile_column" in where or "tile_row" in where):
                col_wit_opt.update(tgt)
            continue
        n_checked += 1
        conj = [x.strip() for x in re.split(r"\s+AND\s+(?![^()]*\))", where) if x.strip()]
        rest = [x for x in conj if x != zpat]
        ok = False
        if not conj:
            ok = True     # whole table: an MBTiles file without any tile holds nothing to return
        elif level and len(rest) == 1:
            r = rest[0]
            dis = [d.strip() for d in r.strip("()").split(" OR ")]
            if any(re.fullmatch(r"tile_column = \{(\w+)\}", d) and re.fullmatch(r"tile_column = \{(\w+)\}", d).group(1) in col_wit for d in dis):
                ok = True
            m = re.fullmatch(r"tile_row (<=|>=) \{(\w+)\}", r)
            if m and m.group(2) in row_wit:
                ok = True
        if ok and level and "tile_row" in agg:
            row_wit.update(tgt)
        if not ok:
            bad.append("%s <- %s WHERE %s" % (tgt, agg, where))
    ck.check(not bad and n_checked >= 4, "R-SQL-NULL", b["q"] + "|non-empty-where", "every query whose NULL result is an error has a WHERE set containing a row already known to exist at that level (%d queries)" % n_checked,
             "a NULL aggregate is turned into an error although its WHERE set can be empty in a valid file (sparse columns / rows): %s" % bad[:2], ir.loc(b))



def _is_range_len(e):
    e = ir.strip(e)
    return e is not None and e.get("k") == "field" and e.get("name") == "length" and "ByteRange" in ((ir.strip(e["e"]).get("t") or "") + (ir.strip(e["e"]).get("ta") or ""))


# accessors that are the identity of the object they are called on (reason reviewed):
IDENTITY_ACCESSORS = {"get_coord3()": "BlockIndex holds at most one BlockDefinition per block coordinate (HashMap keyed by the same coordinate)"}


def _cache_key_rules(ck, P):
    """Index caches (versatiles per-block tile index, PMTiles leaf directories) are keyed so that two different values
    never share a key: for get_or_set(&K, || f(inputs)) every non-self input of f must be K or a part of K; for the
    get(K) … add(K, v) form both keys are the same place and v's inputs belong to the object K identifies."""
    sites = 0
    for b in P.bodies:
        if b.get("target") not in (None, "lib", "bin") or not P.is_workspace(b["q"]) or "::tests::" in b["q"]:
            continue
        lets = comp.lets_of(b)
        for n in ir.walk_nodes(b["body"]):
            if n.get("k") != "mcall" or "limited_cache::LimitedCache::" not in (n.get("q") or ""):
                continue
            if b.get("self_adt", "").endswith("LimitedCache"):
                continue
            nm = n["name"]
            if nm == "get_or_set" and len(n["a"]) == 2 and n["a"][1].get("k") == "closure":
                sites += 1
                keyp = comp.deep_place(n["a"][0], lets)
                clo = n["a"][1]
                inner = set()
                for y in ir.walk_nodes(clo["body"]):
                    if y.get("k") in ("let", "letx"):
                        for bb in ir.pat_binds(y["pat"]):
                            inner.add(bb["hid"])
                for p_ in clo.get("params", ()):
                    for bb in ir.pat_binds(p_):
                        inner.add(bb["hid"])
                inputs = set()
                for y in ir.walk_nodes(clo["body"]):
                    if y.get("k") == "path" and y.get("r") == "local" and y["hid"] not in inner:
                        dp = comp.deep_place(y, lets)
                        if dp != "self" and not dp.startswith("self."):
                            inputs.add(dp)
                bad = sorted(i for i in inputs if not (i == keyp or i.startswith(keyp + ".")))
                ck.check(not bad, "R-CACHE-KEY", "%s|get_or_set(%s)" % (b["q"], keyp), "cached value is computed only from its key `%s` (inputs %s) and reader constants" % (keyp, sorted(inputs)),
                         "the cached value is computed from %s but stored under the key `%s`: two different values can share a key, and the second lookup returns the first one's value" % (bad, keyp), ir.loc(n))
            elif nm == "add" and len(n["a"]) == 2:
                sites += 1
                keyp = comp.deep_place(n["a"][0], lets)
                gets = [g for g in ir.walk_nodes(b["body"]) if g.get("k") == "mcall" and "limited_cache::LimitedCache::get" in (g.get("q") or "") and g["name"] == "get"]
                same = bool(gets) and all(comp.deep_place(g["a"][0], lets) == keyp for g in gets)
                ck.check(same, "R-CACHE-KEY", "%s|get/add(%s)" % (b["q"], keyp), "the value is added under the key it was looked up with (`%s`)" % keyp,
                         "lookup key %s and insertion key `%s` differ" % ([comp.deep_place(g["a"][0], lets) for g in gets], keyp), ir.loc(n))
                # ... and only a value that passed every check of this function is added: an early exit (ensure!, `?`, return) that is
                # evaluated AFTER the add leaves a rejected value in the cache, and the next lookup of the key returns it as a hit
                order = {id(y): i for i, y in enumerate(ir.walk_nodes(ir.fn_block(b)))}
                late = [ir.loc(y) for y in ir.walk_nodes(ir.fn_block(b)) if y.get("k") in ("ret", "try") and id(y) in order and id(n) in order and order[id(y)] > order[id(n)] and
                        not ir.contains(y, lambda z: z is n)]
                ck.check(not late, "R-CACHE-KEY", "%s|add-after-validation(%s)" % (b["q"], keyp), "nothing can reject the value after it was added to the cache",
                         "the value is added to the cache before it is validated (early exits after the add at %s): a value that fails the check stays cached and the next lookup of `%s` returns it without any error" % (late[:3], keyp), ir.loc(n))
                root, _, acc = keyp.partition(".")
                ident = acc in IDENTITY_ACCESSORS
                # inputs of the computation: every ByteRange read in this function is taken from the same object
                reads = [y for y in ir.walk_nodes(b["body"]) if y.get("k") == "mcall" and y.get("name") == "read_range"]
                from_root = all(comp.deep_place(r["a"][0], lets).split(".")[0] == root for r in reads)
                ck.check(ident and from_root and bool(reads), "R-CACHE-KEY", "%s|identity(%s)" % (b["q"], keyp),
                         "key `%s` identifies the object the value is read from (%s)" % (keyp, IDENTITY_ACCESSORS.get(acc, "")),
                         "the key `%s` is not a reviewed identity of the object the cached value is read from (%s)" % (keyp, [comp.deep_place(r["a"][0], lets) for r in reads]), ir.loc(n))
    ck.anchor("R-CACHE-KEY", "index cache fill sites", list(range(sites)), 2)


def mutants(P):
    out = []

    def no_dot(body):
        for n in ir.walk_nodes(body["body"]):
            if n.get("k") == "block":
                for i, s in enumerate(n.get("stmts", [])):
                    if s.get("k") == "if" and ir.contains(s["c"], lambda y: y.get("k") == "lit" and y.get("v") == "."):
                        del n["stmts"][i]
                        return True
        return False
    out.append(("tar reader: './' prefix no longer dropped", "versatiles_container::container::tar::reader::TarTilesReader::open_path", no_dot))

    def no_leaf(body):
        return m_replace(body, lambda n: n.get("k") == "bin" and n.get("op") == "==" and ir.place_str(n["l"]).endswith("run_length"), lambda n: n.__setitem__("op", "!="))
    out.append(("find_tile: leaf-pointer fall-through inverted", "versatiles_container::container::pmtiles::types::entries_v3::EntriesV3::find_tile", no_leaf))

    def hdr_read(body):
        rs = [n for n in ir.walk_nodes(body["body"]) if n.get("k") == "mcall" and n.get("name") == "read_u8"]
        if len(rs) < 2:
            return False
        rs[1]["name"] = "read_u16"
        rs[1]["q"] = rs[1]["q"].replace("read_u8", "read_u16")
        return True
    out.append(("pmtiles header reader: a byte field read as u16", "versatiles_container::container::pmtiles::types::header_v3::HeaderV3::deserialize", hdr_read))

    vt = "<versatiles_container::container::versatiles::reader::VersaTilesReader as versatiles_core::types::tiles_reader::TilesReaderTrait>::get_tile_data"

    def no_contains(body):
        return m_drop_stmt(body, lambda n: n.get("k") == "mcall" and n.get("name") == "contains2")
    out.append(("versatiles lookup: partial-block guard removed", vt, no_contains))
    return out
