"""C18 — every well-formed pipeline text parses to the pipeline it describes (weak, structural part only).

R-CONSUME     every Ok of parse_vpl is dominated by whole-input consumption (all_consuming and the leftover guard); parse errors become Err.
R-TOKENS      the set of literal tokens the nom combinators of the VPL parser match is the documented token alphabet
              ('|' between operations, '=' in properties, '[' ',' ']' for lists and sources, '"' and the escapes \\\\ \\" \\n \\t).
R-NODE        parse_node builds the node from the identifier, *all* parsed properties and the parsed sources it just read.
R-UNKNOWN-OP  an operation name that is not registered is an Err (no default, no panic).
R-REGISTRY    every implementation of the two factory traits is instantiated in its registry function; tag names are unique.
R-REQ         in every derive-generated Args::from_vpl_node each field is read under its own name, non-Option fields through a
              `*_req` accessor, Option fields through the optional accessor, `sources` from node.sources; every accessor result passes `?`.
"""
from . import comp, grammar, ir
from .report import m_drop_stmt, m_replace

META = {
    "level": "other",
    "explanation": (
        "Decides (1) the LANGUAGE of the parser: the nom combinator term reachable from parse_vpl is extracted from the typed HIR into a "
        "regular expression over characters (a nested pipeline is a letter) and compared with the reference VPL syntax by DFA language "
        "equivalence (R-GRAMMAR, engine/rules/grammar.py) - any refactoring of the combinators that keeps the language passes, a changed "
        "language is reported with a shortest text accepted by one side only; and (2) structural necessary conditions for the rest: "
        "whole-input consumption before Ok; the literal token alphabet; the node constructor uses what was just parsed; unknown operation "
        "names are errors; every factory implementation is registered under a unique tag; the derive expansion reads each parameter under "
        "its own name with the accessor that matches its optionality and propagates accessor errors."),
    "not_decided": "that nom's ordered choice / greedy repetition realises every text of the denoted language (the regular reading over-approximates PEG matching, e.g. it does not model maximal munch of adjacent identifiers), and that the VALUES put into the tree are the matched texts beyond what R-NODE / R-ORDER / R-REQ look at.",
    "trusted_base": ["nom combinators (their documented meaning, transcribed in grammar.py)", "reference VPL grammar and token alphabet transcribed in this module"],
}

TOKENS = {"|", "=", "[", "]", ",", '"', "\\", "n", "t", ".-_", "\\\"", "_-"}
NOM_LIT = ("nom::character::complete::char", "nom::bytes::complete::tag", "nom::character::complete::one_of", "nom::character::complete::none_of",
           "nom::bytes::complete::escaped_transform")


def reference_grammar():
    """the VPL syntax as a regular expression over characters with the nested pipeline as a letter (reviewed against help.md and the
    parser tests): what the parser must accept, and all it may accept"""
    from . import grammar as g
    ws0, ws1 = g.star(g.WS), g.plus(g.WS)
    ident = g.seq(g.ALPHA, g.star(g.sym(g.ALNUM[1] | {ord("_"), ord("-")})))
    bare = g.plus(g.sym(g.ALNUM[1] | {ord("."), ord("-"), ord("_")}))
    string = g.seq(g.lit('"'), g.star(g.alt(g.sym(g.UNIVERSE - {ord("\\"), ord('"')}), g.seq(g.lit("\\"), g.cls('\\"nt')))), g.lit('"'))
    elem = g.alt(string, bare)
    array = g.seq(g.lit("["), ws0, g.sep0(g.seq(ws0, g.lit(","), ws0), elem), ws0, g.lit("]"))
    value = g.alt(string, bare, array)
    prop = g.seq(ident, ws0, g.lit("="), ws0, value)
    sources = g.opt(g.seq(g.lit("["), ws0, g.sep0(g.lit(","), g.nt("parse_pipeline")), ws0, g.lit("]")))
    node = g.seq(ws0, ident, ws0, g.sep0(ws1, prop), ws0, sources, ws0)
    return g.seq(ws0, g.sep1(g.lit("|"), node), ws0)


def grammar_rule(ck, P, pv):
    """R-GRAMMAR: the set of texts the combinator term of parse_vpl denotes is the VPL syntax — decided as equality of regular languages
    (the recursive reference to a nested pipeline is a letter), see grammar.py.  Robust to any refactoring of the combinators that keeps
    the language; a changed language comes with a shortest text that is accepted by one side only."""
    from . import grammar as g
    b = pv[0]
    mod = b["q"].rsplit("::", 1)[0]

    def is_parser_fn(q):
        fb = P.fn(q)
        return q.startswith(mod + "::") and fb is not None and "nom::Err" in (fb.get("out_t") or "")
    ac = [n for n in ir.walk_nodes(b["body"]) if n.get("k") == "call" and (n.get("q") or "") == "nom::combinator::all_consuming"]
    if not ck.anchor("R-GRAMMAR", "all_consuming(..) in parse_vpl", ac, 1):
        return
    ex = g.Extractor(P, is_parser_fn)
    try:
        got = ex.term(ac[0])
        ref = reference_grammar()
        res = g.equivalent(got, ref)
    except g.Unextractable as e:
        ck.violation("R-GRAMMAR", mod + "|language", "the grammar of the VPL parser could not be extracted, so its language is not decided: %s" % e, ir.loc(b))
        return
    ck.anchor("R-GRAMMAR", "parser functions read by the extractor", ex.functions, 10)
    ck.anchor("R-GRAMMAR", "combinators translated", ex.combinators, 40)
    if res[0]:
        ck.ok("R-GRAMMAR", mod + "|language", "the combinator term of parse_vpl denotes exactly the VPL syntax: %d parser functions, %d combinators, regex sizes %d / %d, %d character classes, "
              "%d pairs of DFA states compared; recursion through %s" % (len(ex.functions), ex.combinators, g.size(got), g.size(ref), res[1]["alphabet_classes"], res[1]["dfa_pairs"],
                                                                   sorted(x.rsplit("::", 1)[-1] for x in ex.cycles)), ir.loc(b))
    else:
        _, w, by_parser, st = res
        ck.violation("R-GRAMMAR", mod + "|language", "the language of the parser differs from the VPL syntax: the text `%s` is %s (%s = a nested pipeline; shortest such text)" %
                     (w, "accepted by the parser's grammar but is not VPL" if by_parser else "valid VPL but not accepted by the parser's grammar", "<parse_pipeline>"), ir.loc(b))


def rules(ck, P):
    pv = [b for b in P.bodies if b["q"].endswith("vpl::parser::parse_vpl")]
    if not ck.anchor("R-CONSUME", "parse_vpl", pv, 1):
        return
    b = pv[0]
    ac = [n for n in ir.walk_nodes(b["body"]) if n.get("k") == "call" and (n.get("q") or "").endswith("all_consuming")]
    oks = [n for n in ir.walk_nodes(b["body"]) if n.get("k") == "call" and (n.get("q") or "").endswith("Result::Ok::{Ctor#0}") and n.get("t", "").startswith("std::result::Result<versatiles_pipeline::vpl")]
    guard = False
    for n in ir.walk_nodes(b["body"]):
        if n.get("k") == "match":
            for a in n["arms"]:
                if (a["pat"].get("q") or "").endswith("Result::Ok::{Ctor#0}"):
                    sts = ir.stmts_of(ir.unparen(a["body"])) if a["body"].get("k") == "block" else [a["body"]]
                    gi = next((i for i, s in enumerate(sts) if ir.contains(s, lambda y: y.get("k") == "call" and y.get("q") == "anyhow::__private::not") and ir.contains(s, lambda y: y.get("k") == "mcall" and y.get("name") == "is_empty")), None)
                    oi = next((i for i, s in enumerate(sts) if ir.contains(s, lambda y: y in oks)), None)
                    guard = gi is not None and oi is not None and gi < oi
    ck.check(len(ac) == 1 and bool(oks) and guard, "R-CONSUME", b["q"], "Ok(pipeline) is produced only from all_consuming(..) and after the leftover-is-empty guard",
             "Ok is not dominated by whole-input consumption (all_consuming: %d, leftover guard: %s)" % (len(ac), guard), ir.loc(b))
    grammar_rule(ck, P, pv)
    errs = 0
    for n in ir.walk_nodes(b["body"]):
        if n.get("k") == "match":
            for a in n["arms"]:
                pq = str(a["pat"])
                if "Result::Err" in pq:
                    errs += 1 if ir.contains(a["body"], lambda y: y.get("k") == "call" and (y.get("q") or "").endswith("Result::Err::{Ctor#0}")) or ir.contains(a["body"], lambda y: (y.get("q") or "").endswith("Context::context")) else 0
    ck.check(errs >= 2, "R-CONSUME", b["q"] + "|errors", "parser failures are turned into Err", "a parser failure arm does not produce Err", ir.loc(b))

    # ---------------- R-TOKENS over the parser module
    mod = b["q"].rsplit("::", 1)[0]
    seen = [f for f in P.reachable([b["q"]]) if f.startswith(mod + "::")]
    ck.anchor("R-TOKENS", "parser functions reachable from parse_vpl", seen, 10)
    toks = set()
    for fq in seen:
        fb = P.fn(fq)
        for n in ir.walk_nodes(fb["body"]):
            if n.get("k") == "call" and (n.get("q") or "") in NOM_LIT:
                for a in n.get("a", ()):
                    a = grammar._deconst(a)          # a named constant stands for its literal
                    if a.get("k") == "lit" and a.get("lk") in ("char", "str"):
                        toks.add(a["v"])
            if n.get("k") == "mcall" and n.get("name") == "contains" and grammar._deconst(n["recv"]).get("k") == "lit":
                toks.add(grammar._deconst(n["recv"])["v"])
    ck.check(toks == TOKENS, "R-TOKENS", mod, "literal tokens matched by the parser are exactly the documented alphabet %s" % sorted(TOKENS),
             "token alphabet differs: extra %s, missing %s" % (sorted(toks - TOKENS), sorted(TOKENS - toks)), ir.loc(b))
    # character classes: the VPL alphabet is ASCII — every class predicate is an is_ascii_* test, a literal set, or one of nom's ASCII
    # class combinators; a Unicode classifier (char::is_alphanumeric, ..) widens the language of bare values / identifiers
    ASCII_NOM = ("alphanumeric0", "alphanumeric1", "alpha0", "alpha1", "digit0", "digit1", "hex_digit0", "hex_digit1", "multispace0", "multispace1",
                 "space0", "space1", "line_ending", "newline", "tab", "crlf")
    uni, n_cls = [], 0
    for fq in seen:
        fb = P.fn(fq)
        for n in ir.walk_nodes(fb["body"]):
            q = (n.get("q") or "")
            if n.get("k") == "mcall" and q.startswith("char::is_"):
                n_cls += 1
                if not n["name"].startswith("is_ascii_"):
                    uni.append("%s at %s" % (q, ir.loc(n)))
            if n.get("k") in ("call", "path") and q.startswith("nom::character::") and q.rsplit("::", 1)[-1] not in ("char", "one_of", "none_of", "anychar", "satisfy"):
                n_cls += 1
                if q.rsplit("::", 1)[-1] not in ASCII_NOM or "::unicode::" in q:
                    uni.append("%s at %s" % (q, ir.loc(n)))
            if n.get("k") in ("call", "path") and q.endswith(("character::complete::anychar", "character::streaming::anychar")):
                uni.append("%s at %s" % (q, ir.loc(n)))
    ck.anchor("R-TOKENS", "character class tests in the parser", n_cls, 4)
    ck.check(not uni, "R-TOKENS", mod + "|ascii-classes", "every character class of the parser is ASCII (is_ascii_* tests, literal sets, nom's ASCII classes): %d class test(s)" % n_cls,
             "the parser classifies characters with %s: text outside the documented VPL alphabet (non-ASCII letters or digits in bare values / identifiers) is accepted" % uni[:3], ir.loc(b))
    # escape table of quoted strings: value(X, tag(Y)) pairs
    ps = [x for x in P.bodies if x["q"].endswith("vpl::parser::parse_string")]
    if ps:
        pairs = {}
        for n in ir.walk_nodes(ps[0]["body"]):
            if n.get("k") == "call" and (n.get("q") or "").endswith("nom::combinator::value") and len(n["a"]) == 2:
                out_ = ir.const_eval_str(n["a"][0])
                tg = [y for y in ir.walk_nodes(n["a"][1]) if y.get("k") == "lit" and y.get("lk") == "str"]
                if tg:
                    pairs[tg[0]["v"]] = out_
        ck.check(pairs == {"\\": "\\", '"': '"', "n": "\n", "t": "\t"}, "R-TOKENS", ps[0]["q"] + "|escapes", "string escapes: \\\\ -> \\, \\\" -> \", \\n -> newline, \\t -> tab",
                 "string escape table is %s" % pairs, ir.loc(ps[0]))

    # ---------------- R-NODE
    pn = [x for x in P.bodies if x["q"].endswith("vpl::parser::parse_node")]
    if ck.anchor("R-NODE", "parse_node", pn, 1):
        nb = pn[0]
        st = [n for n in ir.walk_nodes(nb["body"]) if n.get("k") == "struct" and (n.get("q") or "").endswith("::VPLNode")]
        okn = False
        why = ""
        if st:
            f = {x["name"]: x["e"] for x in st[0]["fields"]}
            binds = {}
            for n in ir.walk_nodes(nb["body"]):
                if n.get("k") == "let" and "init" in n:
                    for x in ir.pat_binds(n["pat"]):
                        binds[x["hid"]] = n["init"]

            def from_parser(e, suffix):
                h = ir.local_hid(e)
                init = binds.get(h)
                return init is not None and ir.contains(init, lambda y: (y.get("q") or "").endswith(suffix) or (y.get("k") == "path" and (y.get("q") or "").endswith(suffix)))
            n_ok = from_parser(f.get("name"), "parse_identifier")
            s_ok = from_parser(f.get("sources"), "parse_sources")
            # properties: the map is filled in a loop over the parsed property list, every entry inserted or appended
            ph = ir.local_hid(f.get("properties"))
            loops = [n for n in ir.walk_nodes(nb["body"]) if n.get("k") == "for" and from_parser(n["iter"], "parse_property")]
            p_ok = False
            if loops:
                lp = loops[0]
                p_ok = ir.contains(lp["body"], lambda y: y.get("k") == "mcall" and y.get("name") == "entry" and ir.local_hid(y["recv"]) == ph) and \
                    ir.contains(lp["body"], lambda y: y.get("k") == "mcall" and y.get("name") == "or_insert") and not ir.contains(lp["body"], lambda y: y.get("k") in ("if", "continue", "break"))
            okn = n_ok and s_ok and p_ok
            why = "name=%s sources=%s properties=%s" % (n_ok, s_ok, p_ok)
        ck.check(okn, "R-NODE", nb["q"], "the node carries the parsed identifier, every parsed property (repeated keys appended) and the parsed sources",
                 "node construction does not use what was parsed (%s)" % why, ir.loc(nb))
        # R-GRAMMAR: parameters of one operation are separated by MANDATORY whitespace (`a="x"b="y"` is outside the syntax)
        def refs(e, suffix):
            return ir.contains(e, lambda y: y.get("k") in ("path", "call") and (y.get("q") or "").endswith(suffix))

        def is_fn(e, suffix):
            e = ir.strip(e)
            return e is not None and e.get("k") in ("path", "call") and (e.get("q") or "").split("<")[0].endswith(suffix)
        reps = [y for y in ir.walk_nodes(nb["body"]) if y.get("k") == "call" and (y.get("q") or "").rsplit("::", 1)[-1].split("<")[0] in
                ("separated_list0", "separated_list1", "many0", "many1", "many_till", "fold_many0", "fold_many1", "many_m_n") and refs(y, "parse_property")]
        oksep = len(reps) == 1
        whys = "%d repetition combinators over parse_property" % len(reps)
        if oksep:
            r = reps[0]
            nm = (r.get("q") or "").rsplit("::", 1)[-1].split("<")[0]
            if nm.startswith("separated_list"):
                oksep = is_fn(r["a"][0], "multispace1") and refs(r["a"][1], "parse_property")
                whys = "separator is `%s`" % (ir.strip(r["a"][0]).get("q") or ir.place_str(r["a"][0])).rsplit("::", 1)[-1]
            else:
                inner = ir.strip(r["a"][0])
                iq = (inner.get("q") or "").rsplit("::", 1)[-1].split("<")[0] if inner is not None else ""
                oksep = inner is not None and inner.get("k") == "call" and ((iq == "preceded" and is_fn(inner["a"][0], "multispace1")) or (iq == "terminated" and is_fn(inner["a"][1], "multispace1")))
                whys = "%s(%s(..)) without mandatory whitespace" % (nm, iq)
        ck.check(oksep, "R-NODE", nb["q"] + "|parameter-separator", "consecutive parameters are separated by mandatory whitespace (multispace1)",
                 "parameters of a node need no whitespace between them (%s): text such as `min=\"1\"max=\"3\"` outside the syntax is accepted" % whys, ir.loc(nb))
    pp = [x for x in P.bodies if x["q"].endswith("vpl::parser::parse_pipeline")]
    if pp:
        okp = ir.contains(pp[0]["body"], lambda y: (y.get("k") == "path" and (y.get("q") or "").endswith("VPLPipeline::new")) or (y.get("k") == "call" and (y.get("q") or "").endswith("VPLPipeline::new"))) and \
            ir.contains(pp[0]["body"], lambda y: y.get("k") == "call" and (y.get("q") or "").endswith("separated_list1"))
        ck.check(okp, "R-NODE", pp[0]["q"], "a pipeline is the non-empty separated list of parsed nodes, in order", "pipeline is not built from separated_list1 of nodes", ir.loc(pp[0]))

    # ---------------- R-ORDER: the operations are built in the order of the text
    sp = [x for x in P.bodies if x["q"].endswith("vpl::vpl_pipeline::VPLPipeline::split")]
    bp = [x for x in P.bodies if x["q"].endswith("factory::PipelineFactory::build_pipeline")]
    if ck.anchor("R-ORDER", "VPLPipeline::split + PipelineFactory::build_pipeline", sp + bp, 2):
        b = sp[0]
        muts = [y for y in ir.walk_nodes(b["body"]) if y.get("k") == "mcall" and y["recv"].get("ta", "").startswith("&mut") and ir.contains(y["recv"], lambda z: z.get("k") == "field" and z.get("name") == "pipeline")]
        okm = len(muts) == 1 and muts[0]["name"] == "remove" and ir.const_eval(muts[0]["a"][0], {}) == 0
        tup = [y for y in ir.walk_nodes(b["body"]) if y.get("k") == "tup" and len(y["es"]) == 2]
        okt = False
        if tup and okm:
            first, rest = tup[0]["es"]
            lets = comp.lets_of(b) if hasattr(comp, "lets_of") else {}
            fh = ir.local_hid(first)
            okt = fh in lets and ir.contains(lets[fh], lambda z: z is muts[0]) and ir.strip(rest).get("k") == "field" and ir.strip(rest).get("name") == "pipeline"
        ck.check(okm and okt, "R-ORDER", b["q"], "split() takes the first node with remove(0) (order-preserving) and returns the remaining nodes as they are",
                 "split() does not keep the order of the remaining operations (%s on the node list)" % [y["name"] for y in muts], ir.loc(b))
        b2 = bp[0]
        sc = [y for y in ir.walk_nodes(b2["body"]) if y.get("k") == "mcall" and (y.get("q") or "").endswith("VPLPipeline::split")]
        loops = [y for y in ir.walk_nodes(b2["body"]) if y.get("k") == "for"]
        oko = False
        why = "no split()/loop"
        if len(sc) == 1 and len(loops) == 1:
            dl = [y for y in ir.walk_nodes(b2["body"]) if y.get("k") == "let" and "init" in y and ir.contains(y["init"], lambda z: z is sc[0])]
            bs = ir.pat_binds(dl[0]["pat"]) if dl else []
            it = ir.strip(loops[0]["iter"])
            while it is not None and it.get("k") == "mcall" and it.get("name") in ("into_iter", "iter") and not it.get("a"):
                it = ir.strip(it["recv"])
            rd = [y for y in ir.walk_nodes(b2["body"]) if y.get("k") == "mcall" and (y.get("q") or "").endswith("read_operation_from_node")]
            tr = [y for y in ir.walk_nodes(loops[0]["body"]) if y.get("k") == "mcall" and (y.get("q") or "").endswith("tran_operation_from_node")]
            lv = ir.pat_binds(loops[0]["pat"])
            oko = len(bs) == 2 and ir.local_hid(it) == bs[1]["hid"] and len(rd) == 1 and ir.local_hid(rd[0]["a"][0]) == bs[0]["hid"] and len(tr) == 1 and len(lv) == 1 and \
                ir.local_hid(tr[0]["a"][0]) == lv[0]["hid"] and not ir.contains(loops[0]["body"], lambda z: z.get("k") in ("break", "continue", "if", "match"))
            why = "head/tail wiring"
        ck.check(oko, "R-ORDER", b2["q"], "the head becomes the read operation, every following node wraps the previous operation, in list order, unconditionally",
                 "build_pipeline does not apply the transforms in the order of the text (%s)" % why, ir.loc(b2))
    # ---------------- R-REQ (accessors): a typed accessor rejects a value of the wrong type
    ba = [x for x in P.bodies if x["q"].endswith("vpl::vpl_node::VPLNode::get_property_bool_req")]
    if ck.anchor("R-REQ", "VPLNode::get_property_bool_req", ba, 1):
        b = ba[0]
        # accepted spellings are string literals of match / matches! patterns; a value outside them must reach an Err (bail!/ensure!/Err(..)),
        # not silently become `false`
        lits = sorted({y["e"]["v"] for y in ir.walk_nodes(b["body"]) if y.get("k") == "expr" and y.get("e", {}).get("k") == "lit" and y["e"].get("lk") == "str"} |
                      {p_["e"]["v"] for m_ in ir.walk_nodes(b["body"]) if m_.get("k") == "match" for a_ in m_["arms"] for p_ in (a_["pat"].get("ps") or [a_["pat"]]) if p_.get("k") == "expr" and p_["e"].get("lk") == "str"})
        errs = [y for y in ir.walk_nodes(b["body"]) if (y.get("k") == "call" and (y.get("q") or "").endswith("Result::Err::{Ctor#0}")) or (y.get("k") == "ret" and ir.contains(y, lambda z: "Err" in (z.get("q") or "")))
                or (y.get("k") == "call" and (y.get("q") or "").startswith("anyhow::__private::format_err"))]
        has_false = any(v in ("false", "0", "no") for v in lits)
        has_true = any(v in ("true", "1", "yes") for v in lits)
        ck.check(has_true and has_false and bool(errs), "R-REQ", b["q"] + "|mistyped", "boolean parameters accept spellings of true and of false (%s) and reject everything else with an error" % lits,
                 "a boolean parameter with a value that is neither a spelling of true nor of false (accepted literals: %s) is not rejected: `fast=maybe` silently means false" % lits, ir.loc(b))
        # the documented spellings, case-insensitively: the value is decided by ONE match over the lower-cased (trimmed) text whose literal
        # arms are exactly these; a case-sensitive pre-test (str::parse::<bool>) in front of it makes `True` / `FALSE` invalid
        BOOL_TRUE, BOOL_FALSE = {"1", "true", "yes", "ok"}, {"0", "false", "no"}
        ms = [m_ for m_ in ir.walk_nodes(b["body"]) if m_.get("k") == "match" and any(p_.get("k") == "expr" and p_["e"].get("lk") == "str"
                                                                                  for a_ in m_["arms"] for p_ in (a_["pat"].get("ps") or [a_["pat"]]))]
        okb, why = False, "%d matches over string literals" % len(ms)
        if len(ms) == 1:
            m_ = ms[0]
            tr, fa = set(), set()
            for a_ in m_["arms"]:
                vals = {p_["e"]["v"] for p_ in (a_["pat"].get("ps") or [a_["pat"]]) if p_.get("k") == "expr" and p_["e"].get("lk") == "str"}
                if not vals:
                    continue
                res = [z.get("v") for z in ir.walk_nodes(a_["body"]) if z.get("k") == "lit" and z.get("lk") == "bool"]
                if res == [True]:
                    tr |= vals
                elif res == [False]:
                    fa |= vals
            chain = [z["name"] for z in ir.walk_nodes(m_["e"]) if z.get("k") == "mcall"]
            pre = [z for z in ir.walk_nodes(b["body"]) if z.get("k") == "mcall" and (z.get("q") or "") == "str::parse"]
            okb = tr == BOOL_TRUE and fa == BOOL_FALSE and "to_lowercase" in chain + ["to_ascii_lowercase"] * ("to_ascii_lowercase" in chain) and not pre
            why = "true spellings %s, false spellings %s, scrutinee adaptors %s, case-sensitive pre-tests %d" % (sorted(tr), sorted(fa), chain, len(pre))
        ck.check(okb, "R-REQ", b["q"] + "|bool-spellings", "a boolean is one of 1/true/yes/ok or 0/false/no, compared case-insensitively (one match over the lower-cased text)",
                 "the accepted boolean spellings are not exactly {1,true,yes,ok} / {0,false,no} compared case-insensitively (%s): a documented spelling such as `True` is rejected, or another text is accepted" % why, ir.loc(b))
    gp = [x for x in P.bodies if x["q"].endswith("vpl::vpl_node::VPLNode::get_property")]
    if ck.anchor("R-REQ", "VPLNode::get_property", gp, 1):
        b = gp[0]
        oks = False
        for y in ir.walk_nodes(b["body"]):
            if y.get("k") == "if" and ir.diverges(y["then"]):
                c = ir.cmp_norm(y["c"])
                # ensure!(list.len() == 1) expands to `if !(len == 1) { return Err }`
                if c is not None and "len()" in c[0] + c[2] and ((c[1] == "!=" and "1" in (c[0], c[2])) or (c[1] in ("<", ">") and False)):
                    oks = True
        users = [x["q"] for x in P.bodies if x.get("self_adt") == b.get("self_adt") and x["q"] != b["q"] and
                 ir.contains(x["body"], lambda y: y.get("k") == "mcall" and (y.get("q") or "") == b["q"])]
        ck.check(oks and len(users) >= 3, "R-REQ", b["q"] + "|scalar", "a scalar parameter must have exactly one entry (a list where a scalar is expected is an error); %d typed accessors go through it" % len(users),
                 "scalar access does not insist on exactly one entry: `min=[1,2]` or a repeated key is silently reduced to one value", ir.loc(b))
    # ---------------- R-UNKNOWN-OP
    for fn, reg in (("read_operation_from_node", "read_ops"), ("tran_operation_from_node", "tran_ops")):
        fb = [x for x in P.bodies if x["q"].endswith("PipelineFactory::" + fn)]
        if not ck.anchor("R-UNKNOWN-OP", fn, fb, 1):
            continue
        fb = fb[0]
        gets = [n for n in ir.walk_nodes(fb["body"]) if n.get("k") == "mcall" and n.get("name") == "get" and ir.place_str(n["recv"]).endswith("self." + reg)]
        oku = False
        if len(gets) == 1:
            for n, parents, _ in ir.walk(fb["body"]):
                if n is gets[0]:
                    chain = [p for p in parents[-3:]]
                    oku = any(p.get("k") == "mcall" and p.get("name") in ("ok_or_else", "ok_or", "context", "with_context") for p in chain) and any(p.get("k") == "try" for p in chain)
                    # the same decision spelled as a match / if let / let-else whose `None` side leaves with Err
                    def leaves_err(x):
                        return x is not None and ir.diverges(x) and ir.contains(x, lambda y: y.get("k") == "ret" and y.get("e") is not None and
                                                                                ir.contains(y["e"], lambda z: z.get("k") == "call" and (z.get("q") or "").endswith("Result::Err::{Ctor#0}")))
                    par = parents[-1] if parents else {}
                    if par.get("k") == "match" and par.get("e") is n:
                        none_arms = [a for a in par["arms"] if a["pat"].get("k") == "wild" or "Option::None" in (a["pat"].get("q") or (a["pat"].get("e") or {}).get("q") or "")]
                        some_arms = [a for a in par["arms"] if "Option::Some" in (a["pat"].get("q") or "")]
                        oku = oku or (len(par["arms"]) == 2 and len(none_arms) == 1 and len(some_arms) == 1 and leaves_err(none_arms[0]["body"]))
                    if par.get("k") == "let" and par.get("init") is n and "els" in par and "Option::Some" in (par["pat"].get("q") or ""):
                        oku = oku or leaves_err(par["els"])
                    if par.get("k") == "letx" and par.get("init") is n and "Option::Some" in (par["pat"].get("q") or "") and len(parents) >= 2 and parents[-2].get("k") == "if":
                        oku = oku or leaves_err(parents[-2].get("else"))
            a0_ = ir.strip(gets[0]["a"][0])
            while a0_ is not None and a0_.get("k") in ("ref", "mcall") and a0_.get("k") != "field":
                a0_ = ir.strip(a0_.get("e") or a0_.get("recv"))
            key_ok = a0_ is not None and a0_.get("k") == "field" and a0_.get("name") == "name" and "VPLNode" in ((ir.strip(a0_["e"]).get("t") or "") + (ir.strip(a0_["e"]).get("ta") or ""))
            oku = oku and key_ok
        bad = [n["name"] for n in ir.walk_nodes(fb["body"]) if n.get("k") == "mcall" and n.get("name") in ("unwrap", "expect", "unwrap_or", "unwrap_or_default", "unwrap_or_else")]
        ck.check(oku and not bad, "R-UNKNOWN-OP", fb["q"], "lookup of node.name in %s; a missing name becomes Err through ok_or_else + `?`" % reg,
                 "unknown operation names are not turned into Err (%s)" % bad, ir.loc(fb))

    # ---------------- R-REGISTRY
    tags = {}
    for trait, regfn in (("::ReadOperationFactoryTrait", "get_read_operation_factories"), ("::TransformOperationFactoryTrait", "get_transform_operation_factories")):
        impls = P.impls_of(trait)
        rf = [x for x in P.bodies if x["q"].endswith("::" + regfn)]
        if not ck.anchor("R-REGISTRY", regfn, rf, 1) or not ck.anchor("R-REGISTRY", "impls of " + trait, impls, 3):
            continue
        made = {n.get("q") for n in ir.walk_nodes(rf[0]["body"]) if n.get("k") in ("struct", "path", "call") and n.get("q")}
        for i in impls:
            adt = i.get("self_adt")
            ck.check(adt in made, "R-REGISTRY", adt, "factory is instantiated in %s" % regfn, "factory %s implements %s but is not registered in %s" % (adt, trait, regfn), ir.loc(rf[0]))
            tn = None
            for oi in P.impls:
                if oi.get("self_adt") == adt and oi.get("trait", "").endswith("::OperationFactoryTrait"):
                    m = P.impl_method(oi, "get_tag_name")
                    if m:
                        tn = ir.const_eval_str(ir.unparen(ir.fn_block(m)))
            if tn is None:
                ck.violation("R-REGISTRY", adt + "|tag", "factory has no literal tag name")
            else:
                tags.setdefault(tn, []).append(adt)
    # the factories returned by the registry functions all end up in the name maps the lookup reads: PipelineFactory::default loops over each
    # registry function without adaptor or exit and hands every element to the add function, which inserts it under its own tag name
    from . import mvt as _mvt
    df = [x for x in P.bodies if x["q"].endswith("factory::PipelineFactory::default")]
    if ck.anchor("R-REGISTRY", "PipelineFactory::default", df, 1):
        for regfn, addfn, mp in (("get_read_operation_factories", "add_read_factory", "read_ops"), ("get_transform_operation_factories", "add_tran_factory", "tran_ops")):
            lps = [n for n in ir.walk_nodes(df[0]["body"]) if n.get("k") == "for" and ir.contains(n["iter"], lambda y: y.get("k") == "call" and (y.get("q") or "").endswith("::" + regfn))]
            okl = False
            if len(lps) == 1:
                lv = ir.pat_binds(lps[0]["pat"])
                adapt = [y["name"] for y in ir.walk_nodes(lps[0]["iter"]) if y.get("k") == "mcall" and y.get("name") not in ("into_iter", "iter")]
                cnt = _mvt.exit_counts(P, {"body": lps[0]["body"]}, lambda y: 1 if (y.get("k") == "mcall" and (ir.callee(y) or "").endswith("PipelineFactory::" + addfn) and y.get("a") and len(lv) == 1 and ir.local_hid(y["a"][0]) == lv[0]["hid"]) else None)
                esc = [y["k"] for y in ir.walk_nodes(lps[0]["body"]) if y.get("k") in ("break", "continue")]
                okl = not adapt and cnt == {1} and not esc
            ab = [x for x in P.bodies if x["q"].endswith("factory::PipelineFactory::" + addfn)]
            oka = False
            if ab:
                fp = [x for p_ in ab[0]["params"] for x in ir.pat_binds(p_) if x["name"] != "self"]
                ins = [y for y in ir.walk_nodes(ab[0]["body"]) if y.get("k") == "mcall" and y.get("name") == "insert" and ir.place_str(y["recv"]) == "self." + mp and len(y.get("a", ())) == 2]
                oka = len(ins) == 1 and bool(fp) and ir.local_hid(ins[0]["a"][1]) == fp[0]["hid"] and ir.contains(ins[0]["a"][0], lambda z: z.get("k") == "mcall" and z.get("name") == "get_tag_name" and ir.local_hid(z["recv"]) == fp[0]["hid"]) and \
                    _mvt.exit_counts(P, ab[0], lambda y: 1 if (y.get("k") == "mcall" and y.get("name") == "insert") else None) == {1}
            ck.check(okl and oka, "R-REGISTRY", regfn + "|installed", "every factory returned by %s is inserted into self.%s under its own tag name" % (regfn, mp),
                     "factories of %s are not all installed in self.%s (loop ok=%s, %s ok=%s): their operations are unknown to the parser's lookup" % (regfn, mp, okl, addfn, oka), ir.loc(df[0]))
    dup = {t: a for t, a in tags.items() if len(a) > 1}
    ck.check(not dup and len(tags) >= 7, "R-REGISTRY", "tags-unique", "%d operation tags, all distinct: %s" % (len(tags), sorted(tags)), "duplicate tags %s (a later registration replaces an earlier one in the name map)" % dup)

    # array parameters keep their element order: get_property_number_array4 returns [v[0], v[1], v[2], v[3]] of a 4-element list
    a4 = [x for x in P.bodies if x["q"].endswith("vpl_node::VPLNode::get_property_number_array4")]
    if ck.anchor("R-ORDER", "VPLNode::get_property_number_array4", a4, 1):
        arr = [y for y in ir.walk_nodes(a4[0]["body"]) if y.get("k") == "array" and len(y.get("es", ())) == 4]
        idx = [[ir.const_eval(z["i"], {}) for z in ir.walk_nodes(e_) if z.get("k") == "index"] for e_ in (arr[0]["es"] if arr else ())]
        lens = [ir.cmp_norm(y) for y in ir.walk_nodes(a4[0]["body"]) if y.get("k") == "bin" and y.get("op") in ("==", "!=") and ir.cmp_norm(y) is not None and ir.cmp_norm(y)[0].endswith(".len()")]
        ck.check(idx == [[0], [1], [2], [3]] and any(c[2] == "4" for c in lens), "R-ORDER", a4[0]["q"], "a 4-number parameter is returned as [v[0], v[1], v[2], v[3]] and must have exactly 4 elements",
                 "array parameters are reordered or mis-sized: indices %s, length tests %s" % (idx, lens), ir.loc(a4[0]))
    # ---------------- R-REQ on the derive expansion
    fns = [x for x in P.bodies if x["q"].endswith("::Args::from_vpl_node")]
    ck.anchor("R-REQ", "derive-generated from_vpl_node", fns, 7)
    for fb in fns:
        st = [n for n in ir.walk_nodes(fb["body"]) if n.get("k") == "struct"]
        adt = P.adts.get(fb.get("self_adt"))
        if not st or not adt:
            ck.violation("R-REQ", fb["q"], "no struct literal in from_vpl_node")
            continue
        ftypes = {f["name"]: f["t"] for f in adt["variants"][0]["fields"]}
        for f in st[0]["fields"]:
            nm = f["name"]
            key = "%s.%s" % (fb["q"].split("::operations::")[-1].rsplit("::Args", 1)[0], nm)
            e = ir.strip(f["e"])
            if nm == "sources":
                e_ = ir.strip(e)
                while e_ is not None and e_.get("k") == "mcall" and e_.get("name") in ("clone", "to_owned", "to_vec"):
                    e_ = ir.strip(e_["recv"])
                from_node = e_ is not None and e_.get("k") == "field" and e_.get("name") == "sources" and "VPLNode" in ((ir.strip(e_["e"]).get("t") or "") + (ir.strip(e_["e"]).get("ta") or ""))
                ck.check(from_node, "R-REQ", key, "sources come from node.sources", "sources do not come from node.sources", ir.loc(fb))
                continue
            has_try = e.get("k") == "try"
            call = ir.strip(e["e"]) if has_try else e
            acc = call.get("name") or ""
            lit = ir.const_eval_str(call["a"][0]) if call.get("k") == "mcall" and call.get("a") else None
            opt = ftypes.get(nm, "").startswith("std::option::Option<")
            want_req = not opt
            ok = has_try and lit == nm and acc.startswith("get_property_") and (acc.endswith("_req") == want_req) and "VPLNode" in ((ir.strip(call.get("recv", {})) or {}).get("t", "") + (ir.strip(call.get("recv", {})) or {}).get("ta", ""))
            ck.check(ok, "R-REQ", key, "field `%s` (%s) is read with %s(\"%s\")?" % (nm, "optional" if opt else "required", acc, lit),
                     "field `%s` (%s) is read with %s(%r)%s" % (nm, "optional" if opt else "required", acc, lit, "" if has_try else " without `?`"), ir.loc(fb))
    rq = [x for x in P.bodies if x["q"].endswith("vpl::vpl_node::VPLNode::required")]
    if rq:
        okr = ir.contains(rq[0]["body"], lambda y: y.get("k") == "mcall" and y.get("name") in ("ok_or_else", "ok_or")) and ir.contains(rq[0]["body"], lambda y: y.get("k") == "try")
        ck.check(okr, "R-REQ", rq[0]["q"], "a missing required parameter is an Err", "`required` does not turn None into Err", ir.loc(rq[0]))


def mutants(P):
    out = []
    pm = "versatiles_pipeline::vpl::parser::"

    def sep(body):
        return m_replace(body, lambda n: n.get("k") == "lit" and n.get("lk") == "char" and n.get("v") == "|", lambda n: n.__setitem__("v", ";"))
    out.append(("pipeline separator changed to ';'", pm + "parse_pipeline", sep))

    def no_leftover(body):
        return m_drop_stmt(body, lambda n: n.get("k") == "call" and n.get("q") == "anyhow::__private::not")
    out.append(("parse_vpl: leftover guard removed", pm + "parse_vpl", no_leftover))

    def drop_props(body):
        for n in ir.walk_nodes(body["body"]):
            if n.get("k") == "block":
                for i, st in enumerate(n.get("stmts", [])):
                    if st.get("k") == "for":
                        del n["stmts"][i]
                        return True
        return False
    out.append(("parse_node: properties not stored", pm + "parse_node", drop_props))

    def default_op(body):
        return m_replace(body, lambda n: n.get("k") == "mcall" and n.get("name") == "ok_or_else", lambda n: n.__setitem__("name", "unwrap_or_else"))
    out.append(("factory: unknown read operation falls back", "versatiles_pipeline::factory::PipelineFactory::read_operation_from_node", default_op))

    for b in P.bodies:
        if b["q"].endswith("filter_zoom::Args::from_vpl_node"):
            def wrong_key(body):
                return m_replace(body, lambda n: n.get("k") == "lit" and n.get("v") == "min", lambda n: n.__setitem__("v", "max"))
            out.append(("filter_zoom args: `min` read from key 'max'", b["q"], wrong_key))
    return out
