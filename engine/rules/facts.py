"""Facts acquisition: run the vt-facts driver over /repo's current working tree
(content-addressed cache), load TSIR, fail closed on anything missing."""
import fcntl
import glob
import hashlib
import json
import os
import shutil
import subprocess
import sys
import time

VERIF = os.path.dirname(os.path.dirname(os.path.dirname(os.path.abspath(__file__))))
REPO = os.environ.get("VT_REPO", "/repo")
CACHE = os.path.join(VERIF, ".cache")
DRIVER_DIR = os.path.join(VERIF, "engine", "vt-facts")
DRIVER = os.path.join(DRIVER_DIR, "target", "release", "vt-facts")

HASH_EXT = (".rs", ".toml", ".lock", ".md", ".json")
SKIP_DIRS = {"target", ".git", "testdata", "tmp", "docker", "helpers", ".github", "node_modules"}

# crate targets the default-feature workspace check must produce
EXPECTED = [
    ("versatiles_core", "lib"),
    ("versatiles_container", "lib"),
    ("versatiles_geometry", "lib"),
    ("versatiles_image", "lib"),
    ("versatiles_pipeline", "lib"),
    ("versatiles_derive", "lib"),
    ("versatiles", "bin"),
]

# floors counted on the pinned tree (bodies = fn-like body owners, closures inlined)
FLOORS = {
    ("versatiles_core", "lib"): 500,
    ("versatiles_container", "lib"): 200,
    ("versatiles_geometry", "lib"): 230,
    ("versatiles_pipeline", "lib"): 170,
    ("versatiles", "bin"): 100,
}


class BrokenBuild(Exception):
    pass


def tree_hash(repo=REPO):
    h = hashlib.sha256()
    files = []
    for root, dirs, fnames in os.walk(repo):
        dirs[:] = sorted(d for d in dirs if d not in SKIP_DIRS)
        for f in sorted(fnames):
            if f.endswith(HASH_EXT):
                files.append(os.path.join(root, f))
    for p in files:
        h.update(os.path.relpath(p, repo).encode())
        h.update(b"\0")
        try:
            with open(p, "rb") as fh:
                h.update(fh.read())
        except OSError:
            pass
        h.update(b"\0")
    # the driver itself is part of the key
    for p in (os.path.join(DRIVER_DIR, "src", "main.rs"),):
        with open(p, "rb") as fh:
            h.update(fh.read())
    return h.hexdigest()[:24]


def nightly_sysroot():
    return subprocess.check_output(["rustc", "+nightly", "--print", "sysroot"], text=True).strip()


def ensure_driver():
    src = os.path.join(DRIVER_DIR, "src", "main.rs")
    if os.path.exists(DRIVER) and os.path.getmtime(DRIVER) >= os.path.getmtime(src):
        return
    env = dict(os.environ, CARGO_NET_OFFLINE="true")
    r = subprocess.run(["cargo", "build", "--release", "--offline"], cwd=DRIVER_DIR, env=env,
                       stdout=subprocess.PIPE, stderr=subprocess.STDOUT, text=True)
    if r.returncode != 0:
        sys.stderr.write(r.stdout)
        raise BrokenBuild("vt-facts driver failed to build")


def _run_driver(repo, outdir, config):
    """config: 'default' (workspace, default features)"""
    ensure_driver()
    target = os.path.join(CACHE, "target-" + config)
    os.makedirs(target, exist_ok=True)
    # cargo's freshness cache would skip the wrapper and replay old output
    for fp in glob.glob(os.path.join(target, "debug", ".fingerprint", "versatiles*")):
        shutil.rmtree(fp, ignore_errors=True)
    env = dict(os.environ)
    env.update({
        "LD_LIBRARY_PATH": nightly_sysroot() + "/lib",
        "CARGO_INCREMENTAL": "0",
        "RUSTFLAGS": "-Awarnings",
        "VT_FACTS_DIR": outdir,
        "RUSTC_WORKSPACE_WRAPPER": DRIVER,
        "CARGO_TARGET_DIR": target,
        "CARGO_NET_OFFLINE": "true",
    })
    cmd = ["cargo", "+nightly", "check", "--offline", "--workspace"]
    if config == "nodefault":
        cmd = ["cargo", "+nightly", "check", "--offline", "-p", "versatiles_core", "-p", "versatiles_container",
               "-p", "versatiles_pipeline", "-p", "versatiles_geometry", "--no-default-features", "--lib"]
    r = subprocess.run(cmd, cwd=repo, env=env, stdout=subprocess.PIPE, stderr=subprocess.STDOUT, text=True)
    if r.returncode != 0:
        sys.stderr.write(r.stdout[-6000:])
        raise BrokenBuild("cargo check failed on the working tree (not a verdict)")


def facts_dir(repo=REPO, config="default"):
    """Return the directory with fact files for the current tree, building if needed."""
    os.makedirs(CACHE, exist_ok=True)
    th = tree_hash(repo)
    key = th if config == "default" else th + "-" + config
    d = os.path.join(CACHE, "facts", key)
    lock = open(os.path.join(CACHE, "lock"), "w")
    fcntl.flock(lock, fcntl.LOCK_EX)
    try:
        if not os.path.exists(os.path.join(d, "DONE")):
            shutil.rmtree(d, ignore_errors=True)
            os.makedirs(d)
            t0 = time.time()
            _run_driver(repo, d, config)
            with open(os.path.join(d, "DONE"), "w") as fh:
                fh.write(json.dumps({"tree": th, "wall_s": round(time.time() - t0, 1)}))
            # keep the cache small: drop all but the 6 most recent fact dirs
            alld = sorted(glob.glob(os.path.join(CACHE, "facts", "*")), key=os.path.getmtime)
            for old in alld[:-6]:
                shutil.rmtree(old, ignore_errors=True)
    finally:
        fcntl.flock(lock, fcntl.LOCK_UN)
        lock.close()
    return d, th


STR_KEYS = {"q", "d", "t", "ta", "ga", "m", "rvq", "rvd", "self_t", "out_t"}


def _expand(node, strs):
    """replace interned indices by strings, in place"""
    stack = [node]
    while stack:
        n = stack.pop()
        if isinstance(n, dict):
            for k, v in n.items():
                if k in STR_KEYS and isinstance(v, int):
                    n[k] = strs[v]
                elif k == "in_t":
                    n[k] = [strs[i] for i in v]
                elif k == "s" and isinstance(v, list) and len(v) == 3 and isinstance(v[0], int):
                    n[k] = (strs[v[0]], v[1], v[2])
                elif isinstance(v, (dict, list)):
                    stack.append(v)
        elif isinstance(n, list):
            stack.extend(x for x in n if isinstance(x, (dict, list)))


def load(repo=REPO, config="default"):
    d, th = facts_dir(repo, config)
    crates = {}
    for f in sorted(glob.glob(os.path.join(d, "*.json"))):
        with open(f) as fh:
            data = json.load(fh)
        if data.get("test"):
            continue
        key = (data["crate"], data["target"])
        if key in crates:
            continue  # proc-macro crates are compiled for host and target
        strs = data.pop("strs")
        _expand(data, strs)
        crates[key] = data
    if config == "default":
        missing = [k for k in EXPECTED if k not in crates]
        if missing:
            raise BrokenBuild("fact files missing for %s" % missing)
        for k, floor in FLOORS.items():
            n = len(crates[k]["bodies"])
            if n < floor:
                raise BrokenBuild("fact floor: %s has %d bodies < %d" % (k, n, floor))
    return crates, th
