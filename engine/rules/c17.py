"""C17 — JSON round trips and containers hand back the TileJSON they were given.

R-ESC-INVERSE  the escape table of the serialiser and the unescape table of the parser are extracted; unescape∘escape is the
               identity on the table, every code point below 0x20 is covered (explicit arm or the is_control arm with a
               4-hex-digit \\u form the parser's \\u arm accepts), '"' and '\\' are escaped, only RFC 8259 escape letters are emitted.
R-NUM          numbers are serialised by f64's Display; float->integer casts in the serialiser are bounded by what the integer type holds.
R-TJ-KEYS      TileJSON::from_object and as_object treat the same structured keys and route every other key through `values`
               in both directions.
R-NARROW       update_from_pyramid only narrows: bounds by intersection, minzoom by max, maxzoom by min.
E-COMP-META    the four containers compress metadata with the compression they record and decompress with the recorded one
               (shared with C04); writers store reader.get_tilejson() and readers parse the decompressed bytes.
R-MERGE        tar and directory readers hand back `TileJSON::default().merge(stored document)`: merge lets every key of the
               merged-in document win — the pass-through values of `other` are visited completely and written with an
               overwriting map insert (never entry().or_insert / a contains_key guard); only keys merge treats separately are skipped.
R-TILESJSON    the served tiles.json starts from the reader's TileJSON, is narrowed by the coverage and gets tiles = prefix + {z}/{x}/{y}.
"""
from . import comp, ir
from .report import m_drop_stmt, m_replace

META = {
    "level": "other",
    "explanation": (
        "Decides the table and routing part of C17: the char->escape arms of escape_json_string and the letter->byte arms of "
        "parse_quoted_json_string are extracted from the match tables and composed: parsing an emitted escape gives the "
        "original character for every table row, the mandatory escapes of RFC 8259 §7 (quote, backslash, U+0000–U+001F) are "
        "all produced, and only letters of the JSON escape alphabet are used; TileJSON's reader and writer agree on which keys "
        "are structured and pass all others through `values`; narrowing uses intersect/max/min; every container stores the "
        "TileJSON it is given under the compression it records (E-COMP-META); the served tiles.json is built from the "
        "reader's document, the coverage and the URL prefix."),
    "not_decided": "number formatting/parsing; Unicode beyond the escape tables (non-BMP characters are emitted raw and parsed as UTF-8 bytes); full value equality of the JSON model; surrogate-pair \\u escapes in foreign JSON.",
    "trusted_base": ["RFC 8259 §7 escape alphabet transcribed in this module", "char::is_control is the Cc category (covers U+0000–U+001F)", "codec leaf summaries (C04)"],
}

JSON_ESCAPE_LETTERS = {'"': 0x22, "\\": 0x5C, "/": 0x2F, "b": 0x08, "f": 0x0C, "n": 0x0A, "r": 0x0D, "t": 0x09}


MAP_OVERWRITE = ("BTreeMap::insert", "HashMap::insert", "hash::map::HashMap::insert", "btree::map::BTreeMap::insert")
MAP_KEEP = ("entry", "or_insert", "or_insert_with", "or_insert_with_key", "or_default", "try_insert")


def merge_rule(ck, P):
    mg = [b for b in P.bodies if b["q"].endswith("tilejson::TileJSON::merge")]
    if not ck.anchor("R-MERGE", "TileJSON::merge", mg, 1):
        return
    b = mg[0]
    users = [x["q"] for x in P.bodies if ("::tar::reader::" in x["q"] or "::directory::reader::" in x["q"]) and
             ir.contains(x["body"], lambda y: y.get("k") == "mcall" and (y.get("q") or "").endswith("TileJSON::merge"))]
    ck.anchor("R-MERGE", "container readers that build their TileJSON with merge", users, 2)
    params = [x for p_ in b["params"] for x in ir.pat_binds(p_)]
    other = [x for x in params if x["name"] != "self" and x["t"].endswith("TileJSON")]
    if not ck.check(len(other) == 1, "R-MERGE", "merge|params", "merge(&mut self, other)", "unexpected parameters", ir.loc(b)):
        return
    oh = other[0]["hid"]

    # the structured parts: bounds are extended (or taken over), a present center wins, minzoom = min, maxzoom = max, vector layers merged
    def other_rooted(e):
        return any(z.get("k") == "path" and z.get("r") == "local" and z.get("hid") == oh for z in ir.walk_nodes(e))
    ab = [y for y in ir.walk_nodes(b["body"]) if y.get("k") == "assign" and ir.place_str(y["l"]) == "self.bounds"]
    okb = len(ab) == 1 and ir.contains(ab[0]["r"], lambda z: z.get("k") == "mcall" and z.get("name") in ("extended", "extend"))
    if okb:
        for n, parents, _ in ir.walk(b["body"]):
            if n is ab[0]:
                guard = [p_ for p_ in parents if p_.get("k") == "if"]
                okb = bool(guard) and ir.unparen(guard[-1]["c"]).get("k") == "letx" and other_rooted(ir.unparen(guard[-1]["c"])["init"]) and ir.contains(guard[-1]["then"], lambda z: z is n)
    ac = [y for y in ir.walk_nodes(b["body"]) if y.get("k") == "assign" and ir.place_str(y["l"]) == "self.center"]
    okc = len(ac) == 1 and other_rooted(ac[0]["r"])
    if okc:
        from . import census
        fs = [f for n_, f_ in census.nodes_with_facts(ir.fn_block(b), lambda y: y is ac[0]) for f in f_]
        okc = any((f[0] == "pred" and f[2] == "is_some" and f[4] is True and f[1].endswith(".center")) or (f[0] == "letpat" and f[1].endswith(".center")) for f in fs)
    if not okc and len(ac) == 1:
        # the same decision as one expression: `self.center = other.center.or(self.center)` (a present center of `other` wins, else kept)
        r_ = ir.unparen(ir.strip(ac[0]["r"]))
        okc = r_.get("k") == "mcall" and r_.get("name") == "or" and (r_.get("q") or "").startswith("core::option::Option::") and len(r_.get("a", ())) == 1 and \
            other_rooted(r_["recv"]) and ir.place_str(r_["recv"]).endswith(".center") and ir.place_str(r_["a"][0]) == "self.center"
    zz = {}
    for y in ir.walk_nodes(b["body"]):
        if y.get("k") == "mcall" and y.get("name") in ("min", "max") and len(y.get("a", ())) == 1:
            for n, parents, _ in ir.walk(b["body"]):
                if n is y:
                    gl = [p_ for p_ in parents if p_.get("k") == "if" and ir.unparen(p_["c"]).get("k") == "letx"]
                    key = next((ir.const_eval_str(z) for g_ in gl[-1:] for z in ir.walk_nodes(ir.unparen(g_["c"])["init"]) if z.get("k") == "lit"), None)
                    if key:
                        zz[key] = y["name"]
    ins = {ir.const_eval_str(y["a"][0]) for y in ir.walk_nodes(b["body"]) if y.get("k") == "mcall" and (ir.callee(y) or "").endswith("TileJsonValues::insert") and y.get("a") and ir.const_eval_str(y["a"][0])}
    vl = [y for y in ir.walk_nodes(b["body"]) if y.get("k") == "mcall" and (ir.callee(y) or "").endswith("VectorLayers::merge") and y.get("a") and other_rooted(y["a"][0])]
    from . import mvt as _mvt
    vcount = _mvt.exit_counts(P, b, lambda y: 1 if (y.get("k") == "mcall" and (ir.callee(y) or "").endswith("VectorLayers::merge")) else None)
    ck.check(okb and okc and zz == {"minzoom": "min", "maxzoom": "max"} and {"minzoom", "maxzoom"} <= ins and len(vl) == 1 and vcount == {1}, "R-MERGE", "merge|structured",
             "bounds extended by other's, other's center wins when present, minzoom = min / maxzoom = max of both (stored back), vector layers merged on every path",
             "structured parts of merge: bounds ok=%s, center ok=%s, zoom combinators %s stored %s, vector layer merges %s" % (okb, okc, zz, sorted(ins), sorted(vcount)), ir.loc(b))
    # functions through which the pass-through values travel: merge itself and the TileJsonValues methods it calls (transitively)
    def values_callees(body, depth=0):
        out = []
        for y in ir.walk_nodes(body["body"]):
            if y.get("k") in ("mcall", "call"):
                q = ir.callee(y) or ""
                if "tilejson::value::TileJsonValues::" in q and P.fn(q) is not None and depth < 3:
                    out.append(P.fn(q))
                    out += values_callees(P.fn(q), depth + 1)
        return out
    fns = [b] + values_callees(b)
    # (1) the visit of other's pass-through values: a `for` whose iterator is rooted in other.values / the values parameter
    visits = []
    for f in fns:
        fparams = [x for p_ in f["params"] for x in ir.pat_binds(p_)]
        roots = {oh} if f is b else {x["hid"] for x in fparams if x["name"] != "self" and "TileJsonValues" in x["t"]}
        for n in ir.walk_nodes(f["body"]):
            if n.get("k") == "for" and any(y.get("k") == "path" and y.get("r") == "local" and y.get("hid") in roots for y in ir.walk_nodes(n["iter"])):
                if f is b and not ir.contains(n["iter"], lambda y: y.get("k") == "field" and y.get("name") == "values"):
                    continue
                visits.append((f, n))
    if not ck.check(len(visits) == 1, "R-MERGE", "merge|visit", "one loop visits the pass-through values of the merged-in document",
                    "%d loops visit other.values" % len(visits), ir.loc(b)):
        return
    f, lp = visits[0]
    adapt = [y["name"] for y in ir.walk_nodes(lp["iter"]) if y.get("k") == "mcall" and y["name"] not in ("iter", "iter_json_values", "into_iter", "clone", "keys", "values")]
    esc = [y["k"] for y in ir.walk_nodes(lp["body"]) if y.get("k") in ("break", "ret")]
    ck.check(not adapt and not esc, "R-MERGE", "merge|visit-complete", "the loop visits every value (no filter/skip/take adaptor, no early exit)",
             "the visit of other.values is cut short (%s)" % (adapt + esc), ir.loc(lp))
    # (2) skipped keys: only string literals that merge handles in a step of their own (it reads them with get_byte/get_str ... on other.values)
    own = set()
    for y in ir.walk_nodes(b["body"]):
        if y.get("k") == "mcall" and y.get("name", "").startswith("get") and y.get("a") and ir.contains(y["recv"], lambda z: z.get("k") == "path" and z.get("hid") == oh):
            v = ir.const_eval_str(y["a"][0])
            if v:
                own.add(v)
    skipped = set()
    odd = []
    for y in ir.walk_nodes(lp["body"]):
        if y.get("k") == "if":
            lits = [ir.const_eval_str(z) for z in ir.walk_nodes(y["c"]) if z.get("k") == "lit" and z.get("lk") == "str"]
            lits = [v for v in lits if v]
            if lits:
                # polarity: the store sits in the branch where the key DIFFERS from every listed literal
                conj = []

                def split_(c):
                    c = ir.unparen(c)
                    if c.get("k") == "bin" and c.get("op") == "&&":
                        split_(c["l"])
                        split_(c["r"])
                    else:
                        conj.append(c)
                split_(y["c"])
                all_ne = all(ir.unparen(c).get("k") == "bin" and ir.unparen(c).get("op") == "!=" for c in conj) and len(conj) == len(lits)
                store_in_then = ir.contains(y["then"], lambda z: z.get("k") == "mcall" and (z.get("name") in ("insert",) or (ir.callee(z) or "").endswith("TileJsonValues::insert")))
                if not (all_ne and store_in_then):
                    odd.append("%s (keys are copied when they EQUAL a listed key, or the condition is not `k != a && k != b`)" % ir.loc(y))
            if not lits:
                # a helper that takes the keys to skip as a parameter: the literals are at its call site (collected below)
                fph = {x["hid"] for p_ in f["params"] for x in ir.pat_binds(p_) if x["name"] != "self" and "TileJsonValues" not in x["t"]}
                by_param = f is not b and ir.contains(y["c"], lambda z: z.get("k") == "mcall" and z.get("name") == "contains" and ir.local_hid(z["recv"]) in fph)
                if not by_param:
                    odd.append(ir.loc(y))
            skipped |= set(lits)
    # literals handed to a helper as the skip list
    for y in ir.walk_nodes(b["body"]):
        if y.get("k") in ("mcall", "call") and P.fn(ir.callee(y) or "") is f and f is not b:
            skipped |= {ir.const_eval_str(z) for z in ir.walk_nodes(y) if z.get("k") == "lit" and z.get("lk") == "str" and ir.const_eval_str(z)}
    ck.check(skipped <= own and not odd, "R-MERGE", "merge|skipped-keys", "the only keys not copied are those merge combines itself (%s)" % sorted(skipped),
             "keys %s are skipped although merge has no step of its own for them%s" % (sorted(skipped - own), " / value-dependent condition at %s" % odd if odd else ""), ir.loc(lp))
    # (3) the store: reachable from the loop body, every write into the map is an overwriting insert
    def stores(node, depth=0):
        w, keep = [], []
        for y in ir.walk_nodes(node):
            if y.get("k") != "mcall":
                continue
            q = ir.callee(y) or y.get("q") or ""
            if q.endswith(MAP_OVERWRITE):
                w.append(y)
            elif ("BTreeMap::" in q or "HashMap::" in q or "map::Entry" in q or "map::entry::Entry" in q) and y["name"] in MAP_KEEP:
                keep.append(y)
            elif "tilejson::value::TileJsonValues::" in q and P.fn(q) is not None and depth < 3:
                w2, k2 = stores(P.fn(q)["body"], depth + 1)
                w += w2
                keep += k2
        return w, keep
    w, keep = stores(lp["body"])
    guards = [y for y in ir.walk_nodes(lp["body"]) if y.get("k") == "mcall" and y.get("name") in ("contains_key", "is_none", "is_some", "get")
              and ir.contains(y, lambda z: z.get("k") == "path" and z.get("name") == "self")]
    ck.check(bool(w) and not keep and not guards, "R-MERGE", "merge|overwrite", "each visited value is written with an overwriting map insert (%d insert site(s)): the merged-in document wins" % len(w),
             "values of the merged-in document are stored with %s: a key that is already present (TileJSON::default() carries \"tilejson\":\"3.0.0\") keeps its old value, so a stored document "
             "does not come back unchanged from a tar/directory container" % (sorted({y["name"] for y in keep + guards}) or "no insert at all"), ir.loc(lp))


def mbtiles_meta_rule(ck, P):
    """R-MB-META: the MBTiles writer stores metadata rows as (name, value): set_metadata binds its two parameters to the columns
    (name, value) of one INSERT in that order, and every call site passes the key first — a constant key with its value, or the
    loop key of the pass-through keys together with tilejson.get_str(that key)."""
    sm = [b for b in P.bodies if b["q"].endswith("mbtiles::writer::MBTilesWriter::set_metadata")]
    wp = None
    for i in P.impls_of("::TilesWriterTrait"):
        if i.get("self_adt", "").endswith("::MBTilesWriter"):
            wp = P.impl_method(i, "write_to_path", inline=False)
    if not ck.anchor("R-MB-META", "MBTilesWriter::set_metadata + write_to_path", sm + ([wp] if wp else []), 2):
        return
    b = sm[0]
    params = [x for p_ in b["params"] for x in ir.pat_binds(p_) if x["name"] != "self"]
    ex = [y for y in ir.walk_nodes(b["body"]) if y.get("k") == "mcall" and (y.get("q") or "").endswith("Connection::execute")]
    oks = False
    why = "%d execute calls" % len(ex)
    if len(ex) == 1 and len(params) == 2 and len(ex[0].get("a", ())) == 2:
        sql = ir.const_eval_str(ex[0]["a"][0]) or ""
        import re as _re
        m_ = _re.search(r"INTO\s+metadata\s*\(\s*(\w+)\s*,\s*(\w+)\s*\)\s*VALUES\s*\(\s*\?1\s*,\s*\?2\s*\)", sql, _re.I)
        arr = [y for y in ir.walk_nodes(ex[0]["a"][1]) if y.get("k") == "array"]
        binds = [ir.local_hid(e_) if ir.local_hid(e_) is not None else next((z["hid"] for z in ir.walk_nodes(e_) if z.get("k") == "path" and z.get("r") == "local"), None) for e_ in (arr[0]["es"] if arr else ())]
        oks = bool(m_) and (m_.group(1).lower(), m_.group(2).lower()) == ("name", "value") and binds == [params[0]["hid"], params[1]["hid"]] and "REPLACE" in sql.upper()
        why = "SQL %r, bound parameters %s" % (sql, binds)
    ck.check(oks, "R-MB-META", b["q"], "set_metadata(name, value) executes one INSERT OR REPLACE INTO metadata (name, value) VALUES (?1, ?2) with (name, value) bound in that order",
             "set_metadata does not store (name, value) as given (%s)" % why, ir.loc(b))
    calls = [y for y in ir.walk_nodes(wp["body"]) if y.get("k") == "mcall" and (ir.callee(y) or "").endswith("MBTilesWriter::set_metadata") and len(y.get("a", ())) == 2]
    bad = []
    keys = set()
    lets = comp.lets_of(wp)
    for y in calls:
        k0 = ir.const_eval_str(y["a"][0])
        if k0:
            keys.add(k0)
            if k0 not in ("name", "format", "bounds", "center", "minzoom", "maxzoom", "attribution", "description", "type", "version", "json", "author", "license"):
                bad.append("%r is not an MBTiles metadata key" % k0)
            if ir.const_eval_str(y["a"][1]) == k0:
                bad.append("value of %r is the key itself" % k0)
            continue
        # pass-through loop: for key in [..] { if let Some(value) = tilejson.get_str(key) { set_metadata(key, value) } }
        kh = ir.local_hid(y["a"][0])
        vh = ir.local_hid(y["a"][1])
        okp = False
        for n in ir.walk_nodes(wp["body"]):
            if n.get("k") == "for" and kh in {x["hid"] for x in ir.pat_binds(n["pat"])} and ir.contains(n["body"], lambda z: z is y):
                for c in ir.walk_nodes(n["body"]):
                    if c.get("k") == "if" and ir.unparen(c["c"]).get("k") == "letx" and vh in {x["hid"] for x in ir.pat_binds(ir.unparen(c["c"])["pat"])} and ir.contains(c["then"], lambda z: z is y):
                        init = ir.unparen(c["c"])["init"]
                        okp = ir.contains(init, lambda z: z.get("k") == "mcall" and z.get("name", "").startswith("get") and z.get("a") and ir.local_hid(z["a"][0]) == kh)
                keys |= {v for v in (ir.const_eval_str(z) for z in ir.walk_nodes(n["iter"]) if z.get("k") == "lit") if v}
        if not okp:
            bad.append("call at %s does not pass (key, value looked up under that key)" % ir.loc(y))
    need = {"format", "bounds", "minzoom", "maxzoom", "name", "json"}
    ck.check(not bad and need <= keys and len(calls) >= 8, "R-MB-META", wp["q"], "every set_metadata call passes the key first and its own value second (%d calls; keys %s)" % (len(calls), sorted(keys)),
             "metadata rows are not written as (key, its value): %s%s" % (bad[:2], "" if need <= keys else "; missing keys %s" % sorted(need - keys)), ir.loc(wp))


def meta_read_rule(ck, P):
    """R-META-READ: the tar and directory readers take their TileJSON from the stored metadata member: each arm of the name table
    (meta.json / tiles.json / metadata.json, plain, .gz, .br) merges TileJSON::try_from_blob_or_default(<the member's bytes, decoded
    with the arm's compression>) into the reader's document; the tar reader's helper really reads the member."""
    ENC = {"": None, ".gz": "Gzip", ".br": "Brotli"}
    for suffix in ("tar::reader::TarTilesReader::open_path", "directory::reader::DirectoryTilesReader::open_path"):
        bs = [b for b in P.bodies if b["q"].endswith(suffix)]
        if not ck.anchor("R-META-READ", suffix, bs, 1):
            continue
        b = bs[0]
        arms_seen = {}
        for n in ir.walk_nodes(b["body"]):
            if n.get("k") != "match":
                continue
            for a in n.get("arms", ()):
                lits = []

                def coll(x):
                    if isinstance(x, dict):
                        if x.get("k") == "lit" and x.get("lk") == "str":
                            lits.append(x["v"])
                        for v in x.values():
                            coll(v)
                    elif isinstance(x, (list, tuple)):
                        for v in x:
                            coll(v)
                coll(a.get("pat"))
                names = [v for v in lits if v.startswith(("meta.json", "tiles.json", "metadata.json"))]
                if not names:
                    continue
                ext = {v[v.index(".json") + 5:] for v in names}
                mg = [y for y in ir.walk_nodes(a["body"]) if y.get("k") == "mcall" and (y.get("q") or "").endswith("TileJSON::merge")]
                parsed = [y for y in ir.walk_nodes(a["body"]) if y.get("k") == "call" and (y.get("q") or "").endswith("TileJSON::try_from_blob_or_default")]
                dec = [y for y in ir.walk_nodes(a["body"]) if y.get("k") == "call" and (y.get("q") or "").endswith("compression::decompress")]
                enc = None
                if dec:
                    v = [z.get("q") for z in ir.walk_nodes(dec[0]["a"][1]) if z.get("k") == "path" and "TileCompression::" in (z.get("q") or "")]
                    enc = v[0].split("TileCompression::")[1].split("::")[0] if v else "?"
                ok = len(ext) == 1 and len(mg) == 1 and len(parsed) == 1 and ir.contains(mg[0], lambda y: y is parsed[0]) and ENC.get(next(iter(ext)), "?") == enc and \
                    (not dec or ir.contains(parsed[0], lambda y: y is dec[0]))
                for e_ in ext:
                    arms_seen[e_] = arms_seen.get(e_, True) and ok
        ck.check(set(arms_seen) == set(ENC) and all(arms_seen.values()), "R-META-READ", b["q"] + "|arms",
                 "each metadata name arm (plain / .gz / .br) merges the parsed member, decoded with the arm's own compression",
                 "metadata arms %s: a stored TileJSON is dropped or decoded with the wrong compression" % {k_: ("ok" if v else "BROKEN") for k_, v in arms_seen.items()}, ir.loc(b))
        if "tar::" in suffix:
            # the reading unit: a closure of open_path, or a (nested / private) function it calls, that contains the read_to_end call
            def has_rte(x):
                return ir.contains(x, lambda z: z.get("k") == "mcall" and z.get("name") == "read_to_end")
            rd = [y["body"] for y in ir.walk_nodes(b["body"]) if y.get("k") == "closure" and "Coroutine" not in y.get("ck", "") and has_rte(y["body"])]
            rd = [y for y in rd if not any(o is not y and ir.contains(o, lambda z: z is y) for o in rd)]      # innermost closures only
            seen_q = set()
            for y in ir.walk_nodes(b["body"]):
                if y.get("k") in ("call", "mcall"):
                    q_ = y.get("rvq") or y.get("q")
                    cb = P.fn(q_) if q_ and P.is_workspace(q_) and q_ not in seen_q else None
                    seen_q.add(q_)
                    if cb is not None and cb is not b and has_rte(cb["body"]):
                        rd.append(cb["body"])
            if not rd and has_rte(b["body"]):
                rd = [b["body"]]
            okr = bool(rd)
            for unit in rd:
                call = [z for z in ir.walk_nodes(unit) if z.get("k") == "mcall" and z.get("name") == "read_to_end"][0]
                bh = next((z["hid"] for z in ir.walk_nodes(call["a"][0]) if z.get("k") == "path" and z.get("r") == "local"), None)
                tail = [z for z in ir.walk_nodes(unit) if z.get("k") == "call" and (z.get("q") or "").endswith(("Blob::from", "From::from")) and z.get("a") and ir.local_hid(z["a"][0]) == bh]
                okr = okr and bh is not None and bool(tail)
            ck.check(okr, "R-META-READ", b["q"] + "|read", "the member's bytes are read to the end into the buffer that becomes the blob", "the tar metadata helper does not read the member into the blob it returns", ir.loc(b))


def json_guard_rule(ck, P):
    """R-JSON-GUARD: the JSON parser reports an error when a structural byte DIFFERS from the expected one ('{', ':', '[', ',', '}' …),
    never when it equals it; and every element that is parsed is kept (arrays push each value, objects hand each value to the callback)."""
    from . import wire, mvt
    fns = [b for b in P.bodies if b["q"].startswith("versatiles_core::byte_iterator::basics::parse_") or b["q"].startswith("versatiles_core::json::parse::")]
    if not ck.anchor("R-JSON-GUARD", "JSON parser functions", fns, 6):
        return
    n_err, bad = wire.error_guard_polarity(fns)
    ck.check(not bad and n_err >= 6, "R-JSON-GUARD", "parser|guards", "no parser function fails because a byte EQUALS the expected delimiter (%d error exits)" % n_err,
             "the JSON parser rejects well-formed input: %s" % bad[:3])
    # delimiter alphabet of the two container parsers (RFC 8259 §2)
    for nm, want in (("parse_object_entries", {ord("{"), ord("}"), ord(":"), ord(","), ord('"')}), ("parse_array_entries", {ord("["), ord("]"), ord(",")})):
        fb = [b for b in fns if b["q"].endswith("basics::" + nm)]
        if not fb:
            continue
        got = set()

        def coll(x):
            if isinstance(x, dict):
                if x.get("k") == "lit" and x.get("lk") in ("int", "byte", "char") and isinstance(x.get("v"), int) and 32 < x["v"] < 127:
                    got.add(x["v"])
                elif x.get("k") == "lit" and x.get("lk") in ("byte", "char") and isinstance(x.get("v"), str) and len(x["v"]) == 1:
                    got.add(ord(x["v"]))
                for v in x.values():
                    coll(v)
            elif isinstance(x, (list, tuple)):
                for v in x:
                    coll(v)
        coll(fb[0]["body"])
        ck.check(got == want, "R-JSON-GUARD", fb[0]["q"] + "|delimiters", "%s tests exactly the delimiters %s" % (nm, sorted(chr(c) for c in want)),
                 "%s tests the bytes %s, RFC 8259 has %s" % (nm, sorted(chr(c) for c in got), sorted(chr(c) for c in want)), ir.loc(fb[0]))
    po = [b for b in fns if b["q"].endswith("basics::parse_object_entries")]
    if po:
        cb = [y for y in ir.walk_nodes(po[0]["body"]) if y.get("k") == "call" and "f" in y]
        from . import mvt as _m
        lp = [n for n in ir.walk_nodes(po[0]["body"]) if n.get("k") in ("loop", "while")]
        cnt = _m.exit_counts(P, {"body": lp[0]["body"]}, lambda y: 1 if (y.get("k") == "call" and "f" in y) else None) if lp else set()
        ck.check(len(cb) == 1 and (cnt <= {0, 1} and 1 in cnt), "R-JSON-GUARD", po[0]["q"] + "|kept", "every member that is parsed is handed to the value callback once", "object members are not handed to the callback once per member (%s)" % sorted(cnt), ir.loc(po[0]))
    pa = [b for b in fns if b["q"].endswith("basics::parse_array_entries")]
    if pa:
        b = pa[0]
        pv = [y for y in ir.walk_nodes(b["body"]) if y.get("k") in ("call", "mcall") and y.get("f") is not None or (y.get("k") == "call" and "f" in y)]
        calls = [y for y in ir.walk_nodes(b["body"]) if y.get("k") == "call" and "f" in y]       # calls of the parse_value callback parameter
        pushed = [y for y in ir.walk_nodes(b["body"]) if y.get("k") == "mcall" and y.get("name") == "push" and y.get("a") and ir.contains(y["a"][0], lambda z: z.get("k") == "call" and "f" in z)]
        ck.check(len(calls) >= 2 and len(pushed) == len(calls), "R-JSON-GUARD", b["q"] + "|kept", "every array element that is parsed is pushed to the result (%d parse site(s))" % len(calls),
                 "an array element is parsed but not kept (%d parsed, %d pushed)" % (len(calls), len(pushed)), ir.loc(b))


def vt_meta_guard_rule(ck, P):
    """the versatiles reader parses the stored metadata exactly when the header declares a non-empty metadata range (and falls back to
    the default document only for an empty one)"""
    from . import census
    ob = [b for b in P.bodies if b["q"].endswith("versatiles::reader::VersaTilesReader::open_reader")]
    if not ck.anchor("E-COMP-META", "VersaTilesReader::open_reader", ob, 1):
        return
    b = ob[0]
    parse = census.nodes_with_facts(ir.fn_block(b), lambda y: y.get("k") == "call" and (y.get("q") or "").endswith("TileJSON::try_from_blob_or_default"))
    dflt = census.nodes_with_facts(ir.fn_block(b), lambda y: y.get("k") == "call" and (y.get("q") or "").endswith("TileJSON as core::default::Default>::default") or
                                   (y.get("k") == "call" and (y.get("rvq") or "").endswith("TileJSON as core::default::Default>::default")))
    ok = False
    why = "%d parse site(s)" % len(parse)
    if len(parse) == 1:
        cm = [f for f in parse[0][1] if f[0] == "cmp" and f[1].endswith("meta_range.length")]
        ok = bool(cm) and cm[-1][2:] in ((">", "0"), ("!=", "0"), (">=", "1"))
        why = "parsed under %s" % [" ".join(map(str, f[1:])) for f in parse[0][1]]
        # what is parsed is the meta range, decompressed with the header's compression
        rr = [y for y in ir.walk_nodes(b["body"]) if y.get("k") == "mcall" and (y.get("q") or "").endswith("DataReaderTrait::read_range") and ir.place_str(y["a"][0]).endswith("meta_range")]
        ok = ok and len(rr) == 1
    ck.check(ok, "E-COMP-META", b["q"] + "|meta-guard", "stored metadata is read and parsed exactly when header.meta_range.length > 0", "the versatiles reader does not parse its metadata when it is present (%s)" % why, ir.loc(b))


def vector_layer_merge_rule(ck, P):
    """R-MERGE|vector-layers: VectorLayers::merge visits every layer of the merged-in document and either merges it into the layer of
    the same id or stores it; VectorLayer::merge combines the optional zoom limits as documented — the smaller minzoom / larger maxzoom
    when both are present, otherwise whichever is present (decided by evaluating the method for the four None/Some cases, optmerge.py)."""
    from . import mvt, optmerge
    vm = [b for b in P.bodies if b["q"].endswith("tilejson::vector_layer::VectorLayer::merge")]
    vs = [b for b in P.bodies if b["q"].endswith("tilejson::vector_layer::VectorLayers::merge")]
    if not ck.anchor("R-MERGE", "VectorLayer::merge + VectorLayers::merge", vm + vs, 2):
        return
    b = vm[0]
    for fld, kind in (("minzoom", "min"), ("maxzoom", "max")):
        got = optmerge.merged(b, fld)
        want = optmerge.expected(kind)
        bad = ["self=%s, other=%s gives %s instead of %s" % (k[0], k[1], optmerge.show(got[k]), optmerge.show(want[k])) for k in sorted(want) if got[k] != want[k]]
        ck.check(not bad, "R-MERGE", "VectorLayer::merge|" + fld, "%s after merge = %s of both when both are present, otherwise whichever is present (4 cases evaluated)" % (fld, kind),
                 "VectorLayer::merge combines %s wrongly: %s" % (fld, "; ".join(bad)), ir.loc(b))
    # fields: every field of other is inserted; description: other's wins when present
    oth = [x["hid"] for p_ in b["params"] for x in ir.pat_binds(p_) if x["name"] not in ("self", "self_")][:1]
    lp = [n for n in ir.walk_nodes(b["body"]) if n.get("k") == "for" and ir.contains(n["iter"], lambda y: y.get("k") == "field" and y.get("name") == "fields" and oth and ir.local_hid(ir.strip(y["e"])) == oth[0])]
    okf = len(lp) == 1 and mvt.exit_counts(P, {"body": lp[0]["body"]}, lambda y: 1 if (y.get("k") == "mcall" and y.get("name") == "insert" and ir.place_str(y["recv"]) == "self.fields") else None) == {1}
    ck.check(okf, "R-MERGE", "VectorLayer::merge|fields", "every field of the merged-in layer is inserted into self.fields", "not every field of the merged-in layer is inserted", ir.loc(b))
    b = vs[0]
    lp = [n for n in ir.walk_nodes(b["body"]) if n.get("k") == "for"]
    ok, why = False, "%d loops" % len(lp)
    if len(lp) == 1:
        it = ir.strip(lp[0]["iter"])
        while it.get("k") in ("ref", "mcall") and (it.get("k") == "ref" or it.get("name") in ("iter", "into_iter")):
            it = ir.strip(it["e"] if it.get("k") == "ref" else it["recv"])
        oth2 = [x["hid"] for p_ in b["params"] for x in ir.pat_binds(p_) if x["name"] not in ("self", "self_")][:1]
        root_ = it
        while root_.get("k") in ("field", "ref", "deref"):
            root_ = ir.strip(root_["e"])
        over = bool(oth2) and ir.local_hid(root_) == oth2[0]
        binds = {x["name"]: x["hid"] for x in ir.pat_binds(lp[0]["pat"])}
        ev = lambda y: 1 if ((y.get("k") == "mcall" and (ir.callee(y) or "").endswith("VectorLayer::merge")) or
                             (y.get("k") == "mcall" and y.get("name") == "insert" and ir.place_str(y["recv"]).startswith("self.0"))) else None
        cnt = mvt.exit_counts(P, {"body": lp[0]["body"]}, ev)
        esc = [y["k"] for y in ir.walk_nodes(lp[0]["body"]) if y.get("k") in ("break", "continue", "ret")]
        # what is merged / stored is the visited layer, under the visited id
        uses = [y for y in ir.walk_nodes(lp[0]["body"]) if ev(y)]
        args_ok = all(any(z.get("k") == "path" and z.get("r") == "local" and z.get("hid") in binds.values() for z in ir.walk_nodes(a)) for y in uses for a in y.get("a", ()))
        ok = over and cnt == {1} and not esc and args_ok and len(binds) == 2
        why = "iterates other's layers=%s, merges-or-stores per layer %s, early exits %s, arguments from the visited entry=%s" % (over, sorted(cnt), esc, args_ok)
    ck.check(ok, "R-MERGE", "VectorLayers::merge", "every layer of the merged-in document is merged into the layer with its id or stored under its id, exactly once",
             "VectorLayers::merge does not merge-or-store every layer exactly once (%s)" % why, ir.loc(b))


def rules(ck, P):
    merge_rule(ck, P)
    # the PMTiles writer stores the (compressed) TileJSON at a fixed position behind the root directory: the root directory must end
    # before it, or the document's first bytes are overwritten and the container no longer hands it back (shared with C01 / C04)
    from . import wire as _wire
    _wire.pm_layout_rules(ck, P)
    vector_layer_merge_rule(ck, P)
    vt_meta_guard_rule(ck, P)
    json_guard_rule(ck, P)
    meta_read_rule(ck, P)
    mbtiles_meta_rule(ck, P)
    esc = [b for b in P.bodies if b["q"].endswith("json::stringify::escape_json_string")]
    par = [b for b in P.bodies if b["q"].endswith("byte_iterator::basics::parse_quoted_json_string")]
    if ck.anchor("R-ESC-INVERSE", "escape_json_string + parse_quoted_json_string", esc + par, 2):
        eb, pb = esc[0], par[0]
        # ---- escape table: char literal arms -> emitted string
        etab = {}
        ctrl_fmt = None
        passthrough = False
        for n in ir.walk_nodes(eb["body"]):
            if n.get("k") == "match":
                for a in n["arms"]:
                    p = a["pat"]
                    if p.get("k") == "expr" and p["e"].get("lk") == "char":
                        # what the arm emits: the arm's value (`=> "\\n".to_string()`) or what it appends (`=> out.push_str("\\n")`)
                        ab = ir.unparen(a["body"])
                        while ab.get("k") == "block" and not ab.get("stmts") and ab.get("tail") is not None:
                            ab = ir.unparen(ab["tail"])
                        if ab.get("k") == "mcall" and ab.get("name") in ("push_str", "write_str") and len(ab.get("a", ())) == 1:
                            etab[p["e"]["cp"]] = ir.const_eval_str(ab["a"][0])
                        else:
                            etab[p["e"]["cp"]] = ir.const_eval_str(a["body"])
                    elif p.get("k") == "bind" and "guard" in a:
                        g = ir.unparen(a["guard"])
                        if g.get("k") == "mcall" and g.get("name") == "is_control":
                            for x in ir.walk_nodes(a["body"]):
                                src = x.get("src", "")
                                if src.startswith("format!("):
                                    ctrl_fmt = src
                    elif p.get("k") == "bind":
                        passthrough = True
        ck.anchor("R-ESC-INVERSE", "escape arms", etab, 5)
        # ---- unescape table: after a backslash, byte literal -> pushed byte
        utab = {}
        has_u = False
        for n in ir.walk_nodes(pb["body"]):
            if n.get("k") == "match":
                for a in n["arms"]:
                    p = a["pat"]
                    if p.get("k") == "expr" and p["e"].get("lk") == "int" and isinstance(p["e"].get("v"), int):
                        key = p["e"]["v"]
                        pushes = [y for y in ir.walk_nodes(a["body"]) if y.get("k") == "mcall" and y.get("name") == "push" and y["a"] and y["a"][0].get("k") == "lit"]
                        if pushes:
                            utab[chr(key)] = pushes[0]["a"][0]["v"]
                        if chr(key) == "u" and ir.contains(a["body"], lambda y: (y.get("q") or "").endswith("from_str_radix")) and ir.contains(a["body"], lambda y: (y.get("q") or "").endswith("String::from_utf16")):
                            has_u = True
        ck.anchor("R-ESC-INVERSE", "unescape arms", utab, 6)
        # inverse on the table
        for cp, s in sorted(etab.items()):
            ok = isinstance(s, str) and len(s) == 2 and s[0] == "\\" and utab.get(s[1]) == cp and JSON_ESCAPE_LETTERS.get(s[1]) == cp
            ck.check(ok, "R-ESC-INVERSE", "escape|U+%04X" % cp, "U+%04X is written as %r, which the parser maps back to U+%04X (RFC 8259 short form)" % (cp, s, cp),
                     "U+%04X is written as %r; the parser maps the letter to %s, RFC 8259 to %s" % (cp, s, utab.get(s[1]) if isinstance(s, str) and len(s) == 2 else None,
                                                                                              JSON_ESCAPE_LETTERS.get(s[1]) if isinstance(s, str) and len(s) == 2 else None), ir.loc(eb))
        ck.check(0x22 in etab and 0x5C in etab, "R-ESC-INVERSE", "mandatory|quote-backslash", "'\"' and '\\' are escaped", "quote or backslash is not escaped", ir.loc(eb))
        ctrl_ok = ctrl_fmt is not None and "\\\\u{:04x}" in ctrl_fmt and "as u32" in ctrl_fmt
        missing = [cp for cp in range(0x20) if cp not in etab and not ctrl_ok]
        ck.check(not missing, "R-ESC-INVERSE", "mandatory|controls", "every code point below U+0020 is escaped (explicit arms %s, others as \\\\uXXXX with four hex digits)" % sorted("U+%04X" % c for c in etab if c < 0x20),
                 "control characters %s are emitted raw" % ["U+%04X" % c for c in missing[:6]], ir.loc(eb))
        ck.check(has_u, "R-ESC-INVERSE", "parser|u-arm", "the parser decodes \\uXXXX (4 hex digits, BMP) — the form the serialiser emits for other control characters", "parser has no \\u arm", ir.loc(pb))
        ck.check(passthrough, "R-ESC-INVERSE", "passthrough", "all other characters are emitted unchanged (as UTF-8)", "no pass-through arm", ir.loc(eb))
        # parser: all unescape letters agree with RFC 8259
        bad = {k: v for k, v in utab.items() if k in JSON_ESCAPE_LETTERS and JSON_ESCAPE_LETTERS[k] != v}
        ck.check(not bad and all(k in utab for k in JSON_ESCAPE_LETTERS), "R-ESC-INVERSE", "parser|table", "the parser's escape table equals RFC 8259 §7 (%d letters)" % len(JSON_ESCAPE_LETTERS),
                 "parser escape table deviates from RFC 8259: %s" % (bad or sorted(set(JSON_ESCAPE_LETTERS) - set(utab))), ir.loc(pb))
        # stringify wraps strings in quotes around the escaped text
        sf = [b for b in P.bodies if b["q"].endswith("json::stringify::stringify")]
        if sf:
            oks = ir.contains(sf[0]["body"], lambda y: y.get("src", "").startswith('format!("\\"{}\\""') and ir.contains(y, lambda z: (z.get("q") or "").endswith("escape_json_string")))
            ck.check(oks, "R-ESC-INVERSE", "stringify|string", "string values are emitted as '\"' + escape(s) + '\"'", "string values are not emitted through escape_json_string", ir.loc(sf[0]))
        # object keys are escaped the same way
        # numbers: formatted by f64's shortest round-trip Display; an integer fast path through `as iN/uN` saturates silently, so every
        # float -> integer cast in the serialiser must sit under a bound that the target type can hold
        js = [b for b in P.bodies if b["q"].startswith("versatiles_core::json::stringify::") or b["q"].startswith("versatiles_core::json::types::") and b["q"].endswith("::stringify")]
        if ck.anchor("R-NUM", "JSON serialiser functions", js, 2):
            LIM = {"i64": 2.0 ** 63, "u64": 2.0 ** 64, "i32": 2.0 ** 31, "u32": 2.0 ** 32, "i128": 2.0 ** 127, "u128": 2.0 ** 128, "isize": 2.0 ** 63, "usize": 2.0 ** 64, "i16": 2.0 ** 15, "u16": 2.0 ** 16, "i8": 128.0, "u8": 256.0}
            n_cast = 0
            for b in js:
                for n, parents, _ in ir.walk(b["body"]):
                    if n.get("k") == "cast" and n.get("t") in LIM and ir.strip(n["e"]).get("t") in ("f64", "f32"):
                        n_cast += 1
                        bound = None
                        for p_ in parents:
                            if p_.get("k") != "if" or not ir.contains(p_["then"], lambda y: y is n):
                                continue
                            for c in ir.walk_nodes(p_["c"]):
                                if c.get("k") == "bin" and c.get("op") in ("<", "<=") and ir.strip(c["r"]).get("lk") == "float" and \
                                        ir.contains(c["l"], lambda y: y.get("k") == "mcall" and y.get("name") == "abs"):
                                    try:
                                        v = float(ir.strip(c["r"])["v"])
                                    except ValueError:
                                        continue
                                    bound = v if bound is None else min(bound, v)
                        okb = bound is not None and bound <= LIM[n["t"]] and (bound <= 2.0 ** 53 or True)
                        ck.check(okb, "R-NUM", "%s|cast#%d" % (b["q"], n_cast), "float -> %s cast is bounded by |n| < %s <= %s" % (n["t"], bound, LIM[n["t"]]),
                                 "a number is serialised through `as %s` under the bound |n| < %s, but %s holds only |n| < %.19g: values in between are written as the saturated integer" %
                                 (n["t"], bound, n["t"], LIM[n["t"]]), ir.loc(n))
            nm = [y for b in js for y in ir.walk_nodes(b["body"]) if y.get("k") == "mcall" and y.get("name") == "to_string" and "f64" in (y.get("ga") or "") + (ir.strip(y["recv"]).get("t") or "")]
            ck.check(len(nm) >= 1, "R-NUM", "stringify|number", "numbers are written with f64's Display (shortest text that parses back to the same f64); %d integer fast path cast(s)" % n_cast,
                     "numbers are not written with f64::to_string", ir.loc(js[0]))
        ob = [b for b in P.bodies if b["q"].endswith("json::types::object::JsonObject::stringify")]
        if ob:
            okk = ir.contains(ob[0]["body"], lambda y: (y.get("q") or "").endswith("escape_json_string"))
            ck.check(okk, "R-ESC-INVERSE", "stringify|keys", "object keys are escaped with the same function", "object keys are not escaped", ir.loc(ob[0]))

    # ---------------- R-TJ-KEYS
    fo = [b for b in P.bodies if b["q"].endswith("tilejson::TileJSON::from_object")]
    ao = [b for b in P.bodies if b["q"].endswith("tilejson::TileJSON::as_object")]
    if ck.anchor("R-TJ-KEYS", "from_object + as_object", fo + ao, 2):
        rk = {}
        default_to_values = False
        for n in ir.walk_nodes(fo[0]["body"]):
            if n.get("k") == "match":
                for a in n["arms"]:
                    p = a["pat"]
                    if p.get("k") == "expr" and p["e"].get("lk") == "str":
                        asg = [ir.place_str(y["l"]) for y in ir.walk_nodes(a["body"]) if y.get("k") == "assign"]
                        rk[p["e"]["v"]] = asg[0] if asg else None
                    elif p.get("k") == "wild":
                        default_to_values = ir.contains(a["body"], lambda y: y.get("k") == "mcall" and y.get("name") == "insert" and ir.place_str(y["recv"]).endswith(".values"))
        wk = {}
        for n in ir.walk_nodes(ao[0]["body"]):
            if n.get("k") == "mcall" and n.get("name") in ("set_optional", "set") and ir.const_eval_str(n["a"][0]):
                fields = [ir.place_str(y) for y in ir.walk_nodes(n["a"][1]) if y.get("k") == "field" and ir.place_str(y).startswith("self.")]
                wk[ir.const_eval_str(n["a"][0])] = fields[0] if fields else None
        copies_values = ir.contains(ao[0]["body"], lambda y: y.get("k") == "for" and "self.values" in ir.place_str(y["iter"]) and ir.contains(y["body"], lambda z: z.get("k") == "mcall" and z.get("name") == "set"))
        same = set(rk) == set(wk) and all(rk[k].split(".")[-1] == wk[k].split(".")[-1] for k in rk if rk[k] and wk[k])
        ck.check(same and len(rk) >= 3, "R-TJ-KEYS", "structured-keys", "reader and writer agree on the structured keys %s and their fields" % sorted(rk),
                 "structured keys differ: read %s, written %s" % (rk, wk), ir.loc(fo[0]))
        ck.check(default_to_values and copies_values, "R-TJ-KEYS", "pass-through", "every other key is stored in `values` and written back from `values`",
                 "other keys are not passed through `values` in both directions", ir.loc(fo[0]))
        # order: values first, structured keys overwrite afterwards
        sts = ir.stmts_of(ir.fn_block(ao[0]))
        li = next((i for i, s in enumerate(sts) if s.get("k") == "for"), None)
        si = [i for i, s in enumerate(sts) if ir.contains(s, lambda y: y.get("k") == "mcall" and y.get("name") == "set_optional")]
        ck.check(li is not None and si and min(si) > li, "R-TJ-KEYS", "order", "structured keys are written after the pass-through values (they win on a clash)", "structured keys may be overwritten by pass-through values", ir.loc(ao[0]))

    # ---------------- R-NARROW
    up = [b for b in P.bodies if b["q"].endswith("tilejson::TileJSON::update_from_pyramid")]
    if ck.anchor("R-NARROW", "update_from_pyramid", up, 1):
        calls = [n["name"] for n in ir.walk_nodes(up[0]["body"]) if n.get("k") == "mcall" and ir.place_str(n["recv"]) == "self"]
        ck.check(sorted(calls) == ["limit_bbox", "limit_max_zoom", "limit_min_zoom"], "R-NARROW", up[0]["q"], "update_from_pyramid only calls limit_bbox / limit_min_zoom / limit_max_zoom",
                 "update_from_pyramid calls %s" % calls, ir.loc(up[0]))
        # argument sources
        okarg = True
        for n in ir.walk_nodes(up[0]["body"]):
            if n.get("k") == "if" and n["c"].get("k") == "letx":
                src = ir.place_str(n["c"]["init"])
                inner = [y["name"] for y in ir.walk_nodes(n["then"]) if y.get("k") == "mcall" and ir.place_str(y["recv"]) == "self"]
                want = {"limit_bbox": "get_geo_bbox", "limit_min_zoom": "get_zoom_min", "limit_max_zoom": "get_zoom_max"}
                for c in inner:
                    if want.get(c) not in src:
                        okarg = False
        ck.check(okarg, "R-NARROW", up[0]["q"] + "|args", "bounds come from get_geo_bbox, minzoom from get_zoom_min, maxzoom from get_zoom_max", "limit functions receive the wrong pyramid value", ir.loc(up[0]))
    lb = [b for b in P.bodies if b["q"].endswith("tilejson::TileJSON::limit_bbox")]
    if lb:
        okb = ir.contains(lb[0]["body"], lambda y: y.get("k") == "mcall" and (y.get("q") or "").endswith("GeoBBox::intersect")) and \
            not ir.contains(lb[0]["body"], lambda y: y.get("k") == "mcall" and y.get("name") in ("extend", "extended"))
        ck.check(okb, "R-NARROW", lb[0]["q"], "existing bounds are intersected with the coverage", "bounds are not narrowed by intersection", ir.loc(lb[0]))
    for fn, op in (("limit_min_zoom", "max"), ("limit_max_zoom", "min")):
        b = [x for x in P.bodies if x["q"].endswith("tilejson::TileJSON::" + fn)]
        if b:
            key = "minzoom" if "min_zoom" in fn else "maxzoom"
            ops = [y["name"] for y in ir.walk_nodes(b[0]["body"]) if y.get("k") == "mcall" and y.get("name") in ("min", "max")]
            lits = [y.get("v") for y in ir.walk_nodes(b[0]["body"]) if y.get("k") == "lit" and y.get("lk") == "str"]
            ck.check(ops == [op] and key in lits, "R-NARROW", b[0]["q"], "%s keeps the %s of the stored and the coverage value under key %s" % (fn, op, key),
                     "%s uses %s on key %s" % (fn, ops, lits), ir.loc(b[0]))

    # ---------------- E-COMP-META + store/load of the document
    comp.meta_pair_rules(ck, P, "E-COMP-META")
    for suffix in ("::VersaTilesWriter", "::PMTilesWriter", "::TarTilesWriter", "::DirectoryTilesWriter"):
        for i in P.impls_of("::TilesWriterTrait"):
            if not i.get("self_adt", "").endswith(suffix):
                continue
            found = False
            for nm in ("write_to_writer", "write_to_path"):
                m = P.impl_method(i, nm)
                if m is None:
                    continue
                fns = [m] + [P.fn(t) for t in P.callgraph().get(m["q"], ()) if t.startswith(i["self_adt"])]
                for f in fns:
                    if f and ir.contains(f["body"], lambda y: y.get("k") == "mcall" and (y.get("q") or "").endswith("TilesReaderTrait::get_tilejson")):
                        found = True
            ck.check(found, "E-COMP-META", suffix.strip(":") + "|stores-tilejson", "the writer stores reader.get_tilejson()", "the writer does not store the reader's TileJSON", None)

    # ---------------- R-TILESJSON
    bt = [b for b in P.bodies if b["q"].endswith("tile_source::TileSource::build_tile_json")]
    if ck.anchor("R-TILESJSON", "build_tile_json", bt, 1):
        b = bt[0]
        lets = comp.lets_of(b)
        # the document is the local that is serialised at the end (Ok(<doc>.into())) — identified by type and use, not by name
        start = [n for n in ir.walk_nodes(b["body"]) if n.get("k") == "let" and n["pat"].get("k") == "bind" and n["pat"].get("t", "").endswith("TileJSON") and "init" in n]
        ok1 = len(start) == 1 and ir.contains(start[0]["init"], lambda y: y.get("k") == "mcall" and y.get("name") == "get_tilejson")
        dh = start[0]["pat"]["hid"] if start else None
        up2 = [n for n in ir.walk_nodes(b["body"]) if n.get("k") == "mcall" and n.get("name") == "update_from_pyramid" and ir.local_hid(n["recv"]) == dh]
        ok2 = len(up2) == 1 and comp.deep_place(up2[0]["a"][0], lets).endswith("get_parameters().bbox_pyramid")
        tl = [n for n in ir.walk_nodes(b["body"]) if n.get("k") == "mcall" and n.get("name") == "set_list" and ir.const_eval_str(n["a"][0]) == "tiles" and ir.local_hid(n["recv"]) == dh]
        ok3 = False
        if tl:
            for y in ir.walk_nodes(b["body"]):
                if y.get("src", "").startswith("format!(") and "{{z}}/{{x}}/{{y}}" in y["src"] and "self.prefix" in y["src"]:
                    ok3 = True
        ss = [y for y in ir.walk_nodes(b["body"]) if y.get("k") == "mcall" and (ir.callee(y) or "").endswith("TileJSON::set_string") and len(y.get("a", ())) == 2]
        keys_first = all(ir.const_eval_str(y["a"][0]) in ("type", "name", "format") and ir.const_eval_str(y["a"][1]) is None for y in ss)
        ck.check(len(ss) == 3 and keys_first and {ir.const_eval_str(y["a"][0]) for y in ss} == {"type", "name", "format"}, "R-TILESJSON", b["q"] + "|strings",
                 "type / name / format are set under their own key (constant key first, computed value second)", "tiles.json string members are not set as (key, value): %s" % [(ir.const_eval_str(y["a"][0]), ir.const_eval_str(y["a"][1])) for y in ss], ir.loc(b))
        ck.check(ok1 and ok2 and ok3, "R-TILESJSON", b["q"], "tiles.json = reader's TileJSON clone, narrowed by the reader's coverage, tiles = [prefix + \"{z}/{x}/{y}\"]",
                 "tiles.json assembly: starts from reader doc=%s, narrowed=%s, tiles template=%s" % (ok1, ok2, ok3), ir.loc(b))


def mutants(P):
    out = []
    e = "versatiles_core::json::stringify::escape_json_string"

    def swap_nr(body):
        lits = [n for n in ir.walk_nodes(body["body"]) if n.get("k") == "lit" and n.get("lk") == "str" and n.get("v") in ("\\n", "\\r")]
        if len(lits) < 2:
            return False
        lits[0]["v"], lits[1]["v"] = lits[1]["v"], lits[0]["v"]
        return True
    out.append(("escape: \\n and \\r exchanged", e, swap_nr))

    def drop_quote(body):
        for n in ir.walk_nodes(body["body"]):
            if n.get("k") == "match":
                for i, a in enumerate(n["arms"]):
                    if a["pat"].get("k") == "expr" and a["pat"]["e"].get("cp") == 0x22:
                        del n["arms"][i]
                        return True
        return False
    out.append(("escape: quote no longer escaped", e, drop_quote))

    def no_ctrl(body):
        for n in ir.walk_nodes(body["body"]):
            if n.get("k") == "match":
                for i, a in enumerate(n["arms"]):
                    if "guard" in a:
                        del n["arms"][i]
                        return True
        return False
    out.append(("escape: control characters emitted raw", e, no_ctrl))

    def parser_b(body):
        def fn(n):
            n["a"][0]["v"] = 0x07
        return m_replace(body, lambda n: n.get("k") == "mcall" and n.get("name") == "push" and n["a"] and n["a"][0].get("k") == "lit" and n["a"][0].get("v") == 0x08, fn)
    out.append(("parser: \\b decoded as U+0007", "versatiles_core::byte_iterator::basics::parse_quoted_json_string", parser_b))

    def tj_key(body):
        return m_replace(body, lambda n: n.get("k") == "lit" and n.get("v") == "center", lambda n: n.__setitem__("v", "centre"))
    out.append(("TileJSON writer: key 'center' misspelt", "versatiles_core::tilejson::TileJSON::as_object", tj_key))

    def widen(body):
        return m_replace(body, lambda n: n.get("k") == "mcall" and n.get("name") == "max", lambda n: n.__setitem__("name", "min"))
    out.append(("limit_min_zoom: max replaced by min", "versatiles_core::tilejson::TileJSON::limit_min_zoom", widen))
    return out
