"""Case evaluation of `merge(&mut self, other)` methods over Option<number> fields.

For a field F the method body is evaluated once per case of (self.F, other.F) in {None, Some(a)} x {None, Some(b)} with a and b as symbols;
the result is the term stored in self.F at the end.  Terms: ("none",), ("some", t), ("sym", name), ("int", v), ("min", {..}), ("max", {..}).
min/max are commutative/idempotent and know the neutral elements of unsigned integers (max(0, x) = x, min(0, x) = 0).

The evaluator understands the shapes merges are written in: `if let Some(x) = e {..} else {..}`, `match e { Some(x) => .., None => .. }`,
`if e.is_some() / is_none()`, Option::{map, map_or, unwrap_or, unwrap_or_default, or, min/max on Options are NOT assumed}, Ord::{min, max},
std::cmp::{min, max}, assignments to self.F, statements that do not mention F (skipped).  Anything else that touches F raises Undecided.
"""
from . import ir


class Undecided(Exception):
    pass


NONE = ("none",)


def some(t):
    return ("some", t)


def _mm(kind, a, b):
    items = set()
    for x in (a, b):
        if x[0] == kind:
            items |= set(x[1])
        else:
            items.add(x)
    ints = [x for x in items if x[0] == "int"]
    rest = {x for x in items if x[0] != "int"}
    if ints:
        v = (min if kind == "min" else max)(x[1] for x in ints)
        if kind == "min" and v == 0:
            return ("int", 0)           # unsigned: nothing is below 0
        if kind == "max" and v == 0:
            ints = []                   # 0 is neutral for max
        else:
            rest.add(("int", v))
    if not rest:
        return ("int", 0)
    if len(rest) == 1:
        return next(iter(rest))
    return (kind, frozenset(rest))


class Eval:
    def __init__(self, field, self_val, other_val, self_hid, other_hid):
        self.field = field
        self.store = self_val
        self.other = other_val
        self.sh, self.oh = self_hid, other_hid
        self.env = {}

    # ---- places
    def _is_field_of(self, n, hid):
        n = ir.strip(n)
        if n.get("k") != "field" or n.get("name") != self.field:
            return False
        e = ir.strip(n["e"])
        while e.get("k") in ("deref", "ref"):
            e = ir.strip(e["e"])
        return ir.local_hid(e) == hid

    def mentions(self, n):
        return ir.contains(n, lambda y: y.get("k") == "field" and y.get("name") == self.field)

    # ---- expressions
    def ev(self, n):
        n = ir.unparen(ir.strip(n))
        k = n.get("k")
        if k in ("ref", "deref"):
            return self.ev(n["e"])
        if k == "cast":
            return self.ev(n["e"])
        if self._is_field_of(n, self.sh):
            return self.store
        if self._is_field_of(n, self.oh):
            return self.other
        if k == "path":
            if n.get("r") == "local":
                if n["hid"] in self.env:
                    return self.env[n["hid"]]
                return ("sym", "local:%s" % n["name"])
            q = n.get("q") or ""
            if q.endswith("Option::None::{Ctor#0}"):
                return NONE
            c = ir.const_eval(n, {})
            if c is not None:
                return ("int", c)
            return ("sym", q)
        if k == "lit":
            c = ir.const_eval(n, {})
            if c is None:
                raise Undecided("literal %r" % n.get("v"))
            return ("int", c)
        if k == "call":
            q = n.get("q") or ""
            if q.endswith("Option::Some::{Ctor#0}"):
                return some(self.ev(n["a"][0]))
            if q in ("core::cmp::min", "std::cmp::min", "core::cmp::max", "std::cmp::max"):
                a, b = self.ev(n["a"][0]), self.ev(n["a"][1])
                self._num(a), self._num(b)
                return _mm(q.rsplit("::", 1)[-1], a, b)
            raise Undecided("call of %s" % q)
        if k == "mcall":
            nm = n.get("name")
            q = n.get("q") or ""
            r = self.ev(n["recv"])
            if nm in ("clone", "to_owned", "copied", "cloned", "as_ref", "as_mut"):
                return r
            if nm in ("min", "max") and q.startswith("core::cmp::Ord::"):
                a = self.ev(n["a"][0])
                if r[0] in ("none", "some") or a[0] in ("none", "some"):
                    raise Undecided("min/max over Option values (None sorts first)")
                return _mm(nm, r, a)
            if r[0] in ("none", "some"):
                if nm == "unwrap_or_default":
                    return r[1] if r[0] == "some" else ("int", 0)
                if nm == "unwrap_or":
                    return r[1] if r[0] == "some" else self.ev(n["a"][0])
                if nm in ("unwrap", "expect"):
                    if r[0] == "none":
                        raise Undecided("unwrap of None")
                    return r[1]
                if nm == "is_some":
                    return ("bool", r[0] == "some")
                if nm == "is_none":
                    return ("bool", r[0] == "none")
                if nm == "or":
                    return r if r[0] == "some" else self.ev(n["a"][0])
                if nm in ("map", "map_or", "map_or_else", "and_then", "unwrap_or_else", "or_else"):
                    clo = ir.strip(n["a"][-1])
                    if clo.get("k") != "closure":
                        raise Undecided("%s with a non-closure" % nm)
                    ps = [x for p_ in clo.get("params", ()) for x in ir.pat_binds(p_)]
                    if nm in ("unwrap_or_else", "or_else"):
                        return (r[1] if nm == "unwrap_or_else" else r) if r[0] == "some" else self.ev(clo["body"])
                    if r[0] == "none":
                        if nm == "map_or":
                            return self.ev(n["a"][0])
                        if nm == "map_or_else":
                            d = ir.strip(n["a"][0])
                            return self.ev(d["body"]) if d.get("k") == "closure" else self._undec("map_or_else default")
                        return NONE
                    if len(ps) != 1:
                        raise Undecided("closure parameters")
                    self.env[ps[0]["hid"]] = r[1]
                    v = self.ev(clo["body"])
                    return some(v) if nm == "map" else v
            raise Undecided("method %s on %s" % (nm, r[0]))
        if k == "match":
            v = self.ev(n["e"])
            for a in n["arms"]:
                if self._bind(a["pat"], v):
                    return self.ev(a["body"])
            raise Undecided("no match arm applies")
        if k == "if":
            c = ir.unparen(n["c"])
            if c.get("k") == "letx":
                took = self._bind(c["pat"], self.ev(c["init"]))
            else:
                b = self.ev(c)
                if b[0] != "bool":
                    raise Undecided("condition that is not about the Option's variant")
                took = b[1]
            if took:
                return self.ev(n["then"])
            return self.ev(n["else"]) if "else" in n else ("unit",)
        if k == "block":
            for st in n.get("stmts", ()):
                self.stmt(st)
            return self.ev(n["tail"]) if "tail" in n else ("unit",)
        if k == "un" and n.get("op") == "!":
            b = self.ev(n["e"])
            if b[0] == "bool":
                return ("bool", not b[1])
        if k == "bin" and n.get("op") in ("&&", "||"):
            a, b = self.ev(n["l"]), self.ev(n["r"])
            if a[0] == "bool" and b[0] == "bool":
                return ("bool", (a[1] and b[1]) if n["op"] == "&&" else (a[1] or b[1]))
        raise Undecided("expression of kind %s" % k)

    def _undec(self, what):
        raise Undecided(what)

    def _num(self, t):
        if t[0] in ("none", "some", "bool", "unit"):
            raise Undecided("number expected")

    def _bind(self, pat, v):
        k = pat.get("k")
        if k == "wild":
            return True
        if k == "bind":
            self.env[pat["hid"]] = v
            return True
        if k == "ref":
            return self._bind(pat["p"], v)
        if k == "tstruct" and (pat.get("q") or "").endswith("Option::Some::{Ctor#0}"):
            return v[0] == "some" and self._bind(pat["ps"][0], v[1])
        if k == "expr" and (ir.strip(pat["e"]).get("q") or "").endswith("Option::None::{Ctor#0}"):
            return v[0] == "none"
        if k == "path" and (pat.get("q") or "").endswith("Option::None::{Ctor#0}"):
            return v[0] == "none"
        raise Undecided("pattern %s" % k)

    # ---- statements
    def stmt(self, st):
        k = st.get("k")
        if k == "semi":
            return self.stmt(st["e"])
        if not self.mentions(st):
            return
        if k == "let":
            if "init" in st and st["pat"].get("k") == "bind":
                self.env[st["pat"]["hid"]] = self.ev(st["init"])
                return
            raise Undecided("let with a pattern over the field")
        if k == "assign" and self._is_field_of(st["l"], self.sh):
            v = self.ev(st["r"])
            if v[0] not in ("none", "some"):
                raise Undecided("non-Option value stored")
            self.store = v
            return
        if k in ("if", "match", "block"):
            self.ev(st)
            return
        raise Undecided("statement of kind %s touches the field" % k)


def merged(b, field):
    """{(self_case, other_case): term or Undecided message} for the four cases of an `fn merge(&mut self, other: &T)` body"""
    ps = [x for p_ in b["params"] for x in ir.pat_binds(p_)]
    sh = next((x["hid"] for x in ps if x["name"] == "self"), None)
    oh = next((x["hid"] for x in ps if x["name"] != "self"), None)
    out = {}
    blk = ir.fn_block(b)
    for sc, sv in (("None", NONE), ("Some(a)", some(("sym", "a")))):
        for oc, ov in (("None", NONE), ("Some(b)", some(("sym", "b")))):
            e = Eval(field, sv, ov, sh, oh)
            try:
                for st in blk.get("stmts", ()):
                    e.stmt(st)
                if "tail" in blk and e.mentions(blk["tail"]):
                    e.stmt(blk["tail"])
                out[(sc, oc)] = e.store
            except Undecided as u:
                out[(sc, oc)] = "undecided: %s" % u
    return out


def expected(kind):
    a, b = ("sym", "a"), ("sym", "b")
    return {("None", "None"): NONE, ("Some(a)", "None"): some(a), ("None", "Some(b)"): some(b), ("Some(a)", "Some(b)"): some((kind, frozenset({a, b})))}


def show(t):
    if isinstance(t, str):
        return t
    if t[0] == "none":
        return "None"
    if t[0] == "some":
        return "Some(%s)" % show(t[1])
    if t[0] == "sym":
        return t[1]
    if t[0] == "int":
        return str(t[1])
    if t[0] in ("min", "max"):
        return "%s(%s)" % (t[0], ", ".join(sorted(show(x) for x in t[1])))
    return str(t)
