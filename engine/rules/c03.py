"""C03 — advertised coverage pyramid contains every tile a source can return.

R-COVER-PAIR  tar / directory: every insertion into the tile map is paired with include_coord of the same coordinate binding,
              the map has no other writer, lookups read only the map.
R-COVER-VT    versatiles: the advertised pyramid is the union of the boxes of the same block map the lookup reads; the
              lookup returns None unless the block's box contains the coordinate.
R-COVER-PM    pmtiles: coverage and lookup walk the same directory bytes with the same decoding steps; every addressed id
              of a run is included.
R-COVER-MB    mbtiles: estimate-then-refine queries have the direction of their aggregate (MIN refined with <=, MAX with >=),
              every fragment is restricted to the level, x/y min/max reach TileBBox::new in the right order, rows are flipped once.
R-COVER-OPS   union operations include the pyramid of every source; filters only narrow (C09); converter (C06).
"""
import re

from . import comp, ir
from .report import m_drop_stmt, m_replace

META = {
    "level": "other",
    "explanation": (
        "Decides the structural part of C03 per source kind: (tar, directory) the only writer of the tile map is paired, in the "
        "same block and with the same coordinate binding, with include_coord, and lookups read only that map, so returnable ⊆ "
        "advertised and the advertised box is the bounding box of the inserted keys; (versatiles) coverage and lookup read one "
        "block map and the lookup is guarded by contains2 on the block box; (pmtiles) the coverage scan decodes directories "
        "with the steps of the lookup and includes tile_id+i for every i below run_length; (mbtiles) the SQL fragments of the "
        "estimate/refine queries are parsed from the format! literals: MIN is refined with <= of its own estimate, MAX with >=, "
        "all fragments carry zoom_level = {z}, and the four values reach TileBBox::new as (x_min,y_min,x_max,y_max) before a "
        "single flip_y; (operations) unions include every source, filters narrow only."),
    "not_decided": "that MIN/MAX in SQLite return what is documented; exactness of the pmtiles box beyond 'same walk'; TileBBox::include_coord arithmetic (C15).",
    "trusted_base": ["TileBBoxPyramid::include_coord/include_bbox are min/max accumulations (C15)", "SQLite aggregate semantics", "rustc name resolution"],
}


def fmt_literal(n):
    """(literal, [inline names]) of the first format!-like macro below n"""
    for x in ir.walk_nodes(n):
        src = x.get("src")
        if src and src.startswith(("format!(", "&format!(")):
            m = re.search(r'format!\(\s*"((?:[^"\\]|\\.)*)"', src)
            if m:
                lit = m.group(1)
                return lit, re.findall(r"\{(\w+)\}", lit)
    return None


def _is_query(y, wrappers):
    if y.get("k") == "mcall" and y.get("name") == "simple_query":
        return True
    return y.get("k") == "call" and "f" in y and ir.local_hid(y["f"]) in wrappers and len(y.get("a", ())) == 2


def pair_rule(ck, P, reader_suffix, name):
    opens = [b for b in P.bodies if b["q"].endswith(reader_suffix + "::open_path")]
    impl = [i for i in P.impls_of("::TilesReaderTrait") if i.get("self_adt", "").endswith(reader_suffix)]
    if not ck.anchor("R-COVER-PAIR", name + " open_path + impl", opens + impl, 2):
        return
    b = opens[0]
    # the map and the pyramid are identified by where they end up: the reader's `tile_map` field and the coverage argument of
    # TilesReaderParameters::new — not by the names of the locals
    map_h = pyr_h = None
    for n in ir.walk_nodes(b["body"]):
        if n.get("k") == "struct" and (n.get("q") or "").endswith(reader_suffix):
            for f in n["fields"]:
                if f["name"] == "tile_map":
                    map_h = ir.local_hid(f["e"])
        if n.get("k") == "call" and (n.get("q") or "").endswith("TilesReaderParameters::new") and len(n["a"]) == 3:
            x = ir.strip(n["a"][2])
            while x is not None and x.get("k") == "mcall" and x.get("name") in ("clone", "to_owned"):
                x = ir.strip(x["recv"])
            pyr_h = ir.local_hid(x)
    ins = [n for n in ir.walk_nodes(b["body"]) if n.get("k") == "mcall" and n.get("name") == "insert" and map_h is not None and ir.local_hid(n["recv"]) == map_h]
    ck.anchor("R-COVER-PAIR", name + " tile_map.insert sites", ins, 1)
    for k, n in enumerate(ins):
        ch = ir.local_hid(n["a"][0])
        # same block: a preceding include_coord(&coord) with the same binding
        okp = False
        for blk in ir.walk_nodes(b["body"]):
            if blk.get("k") != "block":
                continue
            sts = ir.stmts_of(blk)
            pos_i = next((i for i, s in enumerate(sts) if ir.contains(s, lambda y: y is n) and not any(z.get("k") == "block" and ir.contains(z, lambda y: y is n) for z in ir.children(s) if z is not s)), None)
            if pos_i is None:
                continue
            for i, s in enumerate(sts):
                inc = [y for y in _unconditional_nodes(s) if y.get("k") == "mcall" and y.get("name") == "include_coord" and pyr_h is not None and ir.local_hid(y["recv"]) == pyr_h]
                if inc and ir.local_hid(inc[0]["a"][0]) == ch and ch is not None and abs(i - pos_i) <= 2:
                    okp = True
        ck.check(okp, "R-COVER-PAIR", "%s|insert#%d" % (b["q"], k + 1), "tile_map.insert(coord, ..) is paired with bbox_pyramid.include_coord(&coord) of the same binding",
                 "a tile is registered for lookup without being included in the advertised coverage", ir.loc(n))
    writers = [n for n in ir.walk_nodes(b["body"]) if n.get("k") == "mcall" and map_h is not None and ir.local_hid(n["recv"]) == map_h and n["recv"].get("ta", "").startswith("&mut") and n["name"] != "insert"]
    ck.check(not writers, "R-COVER-PAIR", b["q"] + "|single-writer", "the map is only written by insert", "other writers: %s" % [w["name"] for w in writers], ir.loc(b))
    # the pyramid that was accumulated is the one stored
    st = [n for n in ir.walk_nodes(b["body"]) if n.get("k") == "call" and (n.get("q") or "").endswith("TilesReaderParameters::new")]
    okst = bool(st) and pyr_h is not None and any(ir.contains(bb_, lambda y: y.get("k") == "mcall" and y.get("name") == "include_coord" and ir.local_hid(y["recv"]) == pyr_h) for bb_ in [b["body"]])
    ck.check(okst, "R-COVER-PAIR", b["q"] + "|stored", "the accumulated pyramid is what the reader advertises", "advertised pyramid is not the accumulated one", ir.loc(b))
    gtd = P.impl_method(impl[0], "get_tile_data")
    reads = [n for n in ir.walk_nodes(gtd["body"]) if n.get("k") == "mcall" and ir.place_str(n["recv"]) == "self.tile_map"]
    cp = [x for p in gtd["params"] for x in ir.pat_binds(p) if x["t"].endswith("TileCoord3")]
    al = ir.Aliases(gtd)
    ck.check(len(reads) == 1 and reads[0]["name"] == "get" and al.hid(reads[0]["a"][0]) == cp[0]["hid"], "R-COVER-PAIR", gtd["q"], "lookup consults only the tile map, with the requested coordinate",
             "lookup does not read exclusively from the tile map", ir.loc(gtd))
    # mutation of the map after open: no &mut access in any other method of the reader
    adt = impl[0]["self_adt"]
    later = [(bb["q"], n["name"]) for bb in P.bodies if bb.get("self_adt") == adt and bb is not b for n in ir.walk_nodes(bb["body"])
             if n.get("k") == "mcall" and ir.place_str(n["recv"]) == "self.tile_map" and n["recv"].get("ta", "").startswith("&mut")]
    ck.check(not later, "R-COVER-PAIR", adt + "|frozen", "the map is not modified after opening", "map modified after open: %s" % later)


def _unconditional_nodes(s):
    """nodes evaluated whenever statement s is (no descent into if / match / loops / closures / nested blocks)"""
    out = []

    def go(n):
        if n is None or n.get("k") in ("if", "match", "for", "while", "loop", "closure"):
            return
        out.append(n)
        for c in ir.children(n):
            go(c)
    go(s)
    return out


def pm_cover_rules(ck, P, rule="R-COVER-PM"):
    """PMTiles: the coverage scan and the lookup walk the same directory bytes with the same decoding steps and the same
    two branch conditions, and the scan includes every id of a run (tile_id + i for 0 <= i < run_length)."""
    pd = [b for b in P.bodies if b["q"].endswith("calc_bbox_pyramid::parse_directories")]
    pimpl = [i for i in P.impls_of("::TilesReaderTrait") if i.get("self_adt", "").endswith("::PMTilesReader")]
    if ck.anchor(rule, "parse_directories + reader", pd + pimpl, 2):
        b = pd[0]
        gtd = P.impl_method(pimpl[0], "get_tile_data")

        def steps(body):
            out = []
            for n in ir.walk_nodes(body["body"]):
                if n.get("k") in ("call", "mcall"):
                    q = n.get("q") or ""
                    for s in ("EntriesV3::from_blob", "Blob::read_range", "compression::decompress"):
                        if q.endswith(s):
                            out.append(s)
            return out
        s1, s2 = steps(b), steps(gtd)
        ck.check(set(s1) == set(s2) == {"EntriesV3::from_blob", "Blob::read_range", "compression::decompress"}, rule, "same-walk",
                 "coverage scan and lookup decode directories with the same steps (from_blob, leaves.read_range, decompress)", "decoding steps differ: %s vs %s" % (s1, s2), ir.loc(b))
        # run lengths: for i in 0..run_length include tile_id + i
        loops = [n for n in ir.walk_nodes(b["body"]) if n.get("k") == "for" and "run_length" in ir.place_str(n["iter"]) + str(n["iter"])]
        okr = False
        for lp in loops:
            it = ir.unparen(lp["iter"])
            fl = {f["name"]: f["e"] for f in it.get("fields", [])} if it.get("k") == "struct" else {}
            start_ok = ir.const_eval(fl.get("start"), {}) == 0 if "start" in fl else False
            end_ok = "end" in fl and ir.place_str(fl["end"]).endswith("run_length") and "RangeInclusive" not in (it.get("q") or "")
            iv = ir.pat_binds(lp["pat"])
            inc = [y for y in ir.walk_nodes(lp["body"]) if y.get("k") == "mcall" and y.get("name") == "include_coord"]
            idc = [y for y in ir.walk_nodes(lp["body"]) if y.get("k") == "call" and (y.get("q") or "").endswith("tile_id_to_coord")]
            sum_ok = False
            if idc and iv:
                a = ir.unparen(idc[0]["a"][0])
                if a.get("k") == "bin" and a.get("op") == "+":
                    sides = [ir.strip(a["l"]), ir.strip(a["r"])]
                    sum_ok = any(ir.local_hid(x) == iv[0]["hid"] for x in sides) and any(x.get("k") == "field" and x.get("name") == "tile_id" for x in sides)
            okr = start_ok and end_ok and bool(inc) and sum_ok
        ck.check(okr, rule, b["q"] + "|runs", "every id tile_id + i, 0 <= i < run_length, is included", "run-length expansion does not include every addressed id", ir.loc(b))
        def has(cs, suffix):
            # the decision is "zero or not" on an unsigned quantity: `x > 0`, `x != 0`, and the complementary guard `x == 0` split alike
            return any(c is not None and c[0].endswith(suffix) and c[1] in (">", "!=", "==", "<=") and c[2] == "0" for c in cs)
        conds = [ir.cmp_norm(n["c"]) for n in ir.walk_nodes(b["body"]) if n.get("k") == "if"]
        ck.check(has(conds, ".range.length") and has(conds, ".run_length"), rule, b["q"] + "|branches",
                 "entries with length > 0 are visited; run_length > 0 means tiles, otherwise a leaf directory (as in the lookup)", "branch conditions are %s" % conds, ir.loc(b))
        lk = [ir.cmp_norm(n["c"]) for n in ir.walk_nodes(gtd["body"]) if n.get("k") == "if"]
        ck.check(has(lk, ".range.length") and has(lk, ".run_length"), rule, gtd["q"] + "|branches", "the lookup uses the same two conditions", "lookup conditions are %s" % lk, ir.loc(gtd))



PYRAMID_WRITERS = {
    # module (file) -> the only ways it may modify a coverage pyramid, each confirmed by reading: accumulating stored tiles / blocks
    "versatiles_container/src/container/tar/reader.rs": {"include_coord"},
    "versatiles_container/src/container/directory/reader.rs": {"include_coord"},
    "versatiles_container/src/container/pmtiles/reader.rs": {"include_coord", "&mut:parse_directories"},
    "versatiles_container/src/container/mbtiles/reader.rs": {"set_level_bbox", "flip_y", "assign:parameters.bbox_pyramid"},
    "versatiles_container/src/container/versatiles/types/block_index.rs": {"include_bbox"},
    "versatiles_container/src/container/versatiles/reader.rs": set(),
}


def pyramid_writers_rule(ck, P, rule="R-COVER-WRITERS", table=None, what_="accumulation of stored tiles", floor=8, consequence="the advertised coverage is no longer the bounding boxes of the stored tiles"):
    """who may modify the coverage a container reader advertises: only the accumulation of stored tiles (include_coord / include_bbox /
    set_level_bbox + the one TMS flip).  Any other `&mut` use of a TileBBoxPyramid in the reader modules (an intersection with a
    declared bounding box, a zoom limit, a clear) makes the advertised coverage differ from the stored tiles."""
    table = PYRAMID_WRITERS if table is None else table
    seen = 0
    files = set()
    for b in P.bodies:
        f = b["s"][0]
        if f not in table or "::tests::" in b["q"]:
            continue
        files.add(f)
        allowed = table[f]

        def is_pyr(n):
            t = (n.get("t") or "")
            return t.replace("&mut ", "").replace("&", "").strip().endswith("TileBBoxPyramid")
        for n in ir.walk_nodes(b["body"]):
            what = None
            if n.get("k") == "mcall" and "recv" in n and is_pyr(ir.strip(n["recv"])):
                cal = P.fn(n.get("q") or "")
                r = ir.strip(n["recv"])
                if cal is not None and cal.get("in_t"):
                    mut = cal["in_t"][0].startswith("&mut")
                else:
                    # callee outside the workspace (Clone, PartialEq, Debug ...): the receiver's adjusted type says how it is borrowed
                    mut = (r.get("ta") or r.get("t") or "").startswith("&mut") and n.get("name") not in ("clone", "eq", "ne", "fmt", "to_string")
                if mut:
                    what = n.get("name")
            elif n.get("k") == "call":
                for a in n.get("a", ()):
                    a = ir.strip(a)
                    if (a.get("t") or "").startswith("&mut") and is_pyr(a) and a.get("k") in ("ref", "path", "field"):
                        what = "&mut:" + (n.get("q") or "?").rsplit("::", 1)[-1]
            elif n.get("k") in ("assign", "assignop") and is_pyr(ir.strip(n["l"])):
                what = "assign:" + ".".join(ir.place_str(n["l"]).split(".")[-2:])
            if what is None:
                continue
            seen += 1
            ck.check(what in allowed, rule, "%s|%s" % (b["q"], what), "%s: the pyramid is modified by %s (%s)" % (f.rsplit("container/", 1)[-1], what, what_),
                     "%s modifies a pyramid with `%s`, which is not one of the steps %s allowed here (%s): %s" %
                     (b["q"], what, sorted(allowed), what_, consequence), ir.loc(n))
    ck.anchor(rule, "modules", sorted(files), len(table))
    ck.anchor(rule, "pyramid modifications in these modules", list(range(seen)), floor)


def rules(ck, P):
    from . import boxalg as _boxalg
    _boxalg.box_core_rules(ck, P)
    pair_rule(ck, P, "::TarTilesReader", "tar")
    pair_rule(ck, P, "::DirectoryTilesReader", "directory")

    # ---------------- versatiles
    gbp = [b for b in P.bodies if b["q"].endswith("block_index::BlockIndex::get_bbox_pyramid")]
    gb = [b for b in P.bodies if b["q"].endswith("block_index::BlockIndex::get_block")]
    vimpl = [i for i in P.impls_of("::TilesReaderTrait") if i.get("self_adt", "").endswith("::VersaTilesReader")]
    if ck.anchor("R-COVER-VT", "BlockIndex::get_bbox_pyramid/get_block + reader", gbp + gb + vimpl, 3):
        b = gbp[0]
        loops = [n for n in ir.walk_nodes(b["body"]) if n.get("k") == "for"]
        okv = len(loops) == 1 and ir.place_str(loops[0]["iter"]).startswith("self.lookup") and \
            ir.contains(loops[0]["body"], lambda y: y.get("k") == "mcall" and y.get("name") == "include_bbox" and ir.contains(y["a"][0], lambda z: z.get("k") == "mcall" and z.get("name") == "get_global_bbox"))
        conds = [n for n in ir.walk_nodes(loops[0]["body"]) if n.get("k") in ("if", "match")] if loops else [1]
        ck.check(okv and not conds, "R-COVER-VT", b["q"], "coverage includes get_global_bbox() of every entry of self.lookup, unconditionally",
                 "coverage does not include every block of the lookup map", ir.loc(b))
        okg = ir.contains(gb[0]["body"], lambda y: y.get("k") == "mcall" and y.get("name") == "get" and ir.place_str(y["recv"]) == "self.lookup")
        ck.check(okg, "R-COVER-VT", gb[0]["q"], "block lookup reads the same map", "get_block does not read self.lookup", ir.loc(gb[0]))
        gtd = P.impl_method(vimpl[0], "get_tile_data")
        sts = ir.stmts_of(ir.fn_block(gtd))
        guard_i = next((i for i, s in enumerate(sts) if s.get("k") == "if" and ir.diverges(s["then"]) and ir.contains(s["c"], lambda y: y.get("k") == "mcall" and y.get("name") == "contains2")), None)
        idx_i = next((i for i, s in enumerate(sts) if ir.contains(s, lambda y: y.get("k") == "mcall" and y.get("name") in ("get_block_tile_index", "read_range"))), None)
        ck.check(guard_i is not None and idx_i is not None and guard_i < idx_i, "R-COVER-VT", gtd["q"], "the lookup returns None unless the block's global box contains the coordinate, before any index access",
                 "lookup is not guarded by containment in the block's box", ir.loc(gtd))
        # the reader's parameters use block_index.get_bbox_pyramid()
        opn = [b2 for b2 in P.bodies if b2["q"].endswith("versatiles::reader::VersaTilesReader::open_reader")]
        if opn:
            okp = ir.contains(opn[0]["body"], lambda y: y.get("k") == "mcall" and (y.get("q") or "").endswith("BlockIndex::get_bbox_pyramid"))
            ck.check(okp, "R-COVER-VT", opn[0]["q"], "the advertised pyramid comes from the block index", "advertised pyramid does not come from the block index", ir.loc(opn[0]))

    pm_cover_rules(ck, P)
    pyramid_writers_rule(ck, P)
    # the converting reader advertises the TRANSFORMED source pyramid: what it returns lies inside it only if the lookup and the stream map
    # coordinates back with the inverse of exactly that transform (the R-D4 obligations of C06, evaluated there on the D4 group, shared here)
    from . import c06 as _c06
    from .report import Check as _Check
    tmp = _Check("C06", silent=True)
    _c06.rules(tmp, P)
    d4 = [o for o in tmp.obligations if o["rule"] == "R-D4"]
    ck.obligations.extend(d4)
    ck.anchor("R-D4", "converter transform obligations (shared with C06)", d4, 10)
    from . import c16 as _c16
    _c16.pm_depth_rules(ck, P)
    comp.pyramid_union_rule(ck, P, "R-COVER-OPS")
    from . import boxalg
    boxalg.union_rule(ck, P, "R-UNION")

    # ---------------- mbtiles
    mb = [b for b in P.bodies if b["q"].endswith("mbtiles::reader::MBTilesReader::get_bbox_pyramid")]
    if ck.anchor("R-COVER-MB", "MBTilesReader::get_bbox_pyramid", mb, 1):
        b = mb[0]
        lets = comp.lets_of(b)
        # resolve nested format fragments: sql_prefix / columns
        frag = {}
        for n in ir.walk_nodes(b["body"]):
            if n.get("k") == "let" and n["pat"].get("k") == "bind" and "init" in n and n["pat"].get("t", "").endswith("String"):
                fl = fmt_literal(n["init"])
                if fl:
                    frag[n["pat"]["name"]] = fl[0]

        def expand(lit, depth=0):
            if depth > 3:
                return lit
            return re.sub(r"\{(\w+)\}", lambda m: expand(frag[m.group(1)], depth + 1) if m.group(1) in frag else m.group(0), lit)
        # local closures that wrap simple_query (e.g. to turn a NULL aggregate into an error) count as query calls
        wrappers = set()
        for n in ir.walk_nodes(b["body"]):
            if n.get("k") == "let" and n["pat"].get("k") == "bind" and n.get("init", {}).get("k") == "closure" and \
                    ir.contains(n["init"]["body"], lambda y: y.get("k") == "mcall" and y.get("name") == "simple_query"):
                wrappers.add(n["pat"]["hid"])
        queries = []   # (target var, aggregate, where)
        conditional = []
        for n, parents, _ in ir.walk(b["body"]):
            tgt = None
            val = None
            if n.get("k") == "let" and n["pat"].get("k") == "bind" and "init" in n:
                tgt, val = n["pat"]["name"], n["init"]
            elif n.get("k") == "assign":
                tgt, val = ir.place_str(n["l"]), n["r"]
            if val is None:
                continue
            if val.get("k") == "closure":
                continue
            calls = [y for y in ir.walk_nodes(val) if _is_query(y, wrappers)]
            if len(calls) == 1 and ir.strip(val) is not None:
                agg = ir.const_eval_str(calls[0]["a"][0])
                fl = fmt_literal(calls[0]["a"][1])
                where = expand(fl[0]) if fl else (ir.const_eval_str(calls[0]["a"][1]) or "")
                queries.append((tgt, agg, where))
                inloop = False
                for p_ in parents:
                    if p_.get("k") == "for":
                        inloop = True
                    elif inloop and p_.get("k") in ("if", "match", "while", "loop"):
                        conditional.append("%s <- %s WHERE %s (under `%s` at %s)" % (tgt, agg, where, p_["k"], ir.loc(p_)))
        ck.anchor("R-COVER-MB", "simple_query uses", queries, 8)
        level = [q for q in queries if q[1] and "tile_" in q[1]]
        zl = [x["name"] for lp_ in ir.walk_nodes(b["body"]) if lp_.get("k") == "for" for x in ir.pat_binds(lp_["pat"])]
        zpat = "zoom_level = {%s}" % (zl[0] if zl else "?")
        ck.check(all(zpat in q[2] for q in level), "R-COVER-MB", b["q"] + "|level", "every column/row query is restricted to the loop's zoom level (%s)" % zpat,
                 "a query is not restricted to the level: %s" % [q for q in level if zpat not in q[2]], ir.loc(b))
        ck.check(not conditional, "R-COVER-MB", b["q"] + "|unconditional", "every estimate and refinement query of a level runs unconditionally once the level is known to hold tiles",
                 "a coverage query runs only under a condition, so a bound can keep its three-column estimate: %s" % conditional[:2], ir.loc(b))
        by_t = {}
        for t, a, w in queries:
            by_t.setdefault(t, []).append((a, w))
        okm = True
        why = []
        # roles are taken from the aggregates, not from variable names
        role = {}
        for t, qs in by_t.items():
            aggs = {a for a, _ in qs}
            if len(aggs) == 1:
                role.setdefault(next(iter(aggs)), []).append(t)
        names = {}
        for agg, key_ in (("MIN(tile_column)", "x0"), ("MAX(tile_column)", "x1"), ("MIN(tile_row)", "y0"), ("MAX(tile_row)", "y1")):
            ts = role.get(agg, [])
            if len(ts) != 1:
                okm = False
                why.append("%s is assigned to %s" % (agg, ts))
            else:
                names[key_] = ts[0]
        for key_, agg, op in (("y0", "MIN(tile_row)", "<="), ("y1", "MAX(tile_row)", ">=")):
            var = names.get(key_)
            qs = by_t.get(var, [])
            if var is None or len(qs) != 2:
                okm = False
                why.append("%s queries: %s" % (agg, qs))
                continue
            est, ref = qs
            if "tile_column" not in est[1]:
                okm = False
                why.append("estimate of %s is not restricted to known columns" % var)
            m = re.search(r"tile_row\s*(<=|>=|<|>|=)\s*\{(\w+)\}", ref[1])
            if not m or m.group(1) != op or m.group(2) != var:
                okm = False
                why.append("refinement of %s is `%s`" % (var, ref[1]))
        for key_, agg in (("x0", "MIN(tile_column)"), ("x1", "MAX(tile_column)")):
            var = names.get(key_)
            qs = by_t.get(var, [])
            if var is None or len(qs) != 1 or "tile_column" in qs[0][1] or "tile_row" in qs[0][1]:
                okm = False
                why.append("%s: %s" % (agg, qs))
        ck.check(okm, "R-COVER-MB", b["q"] + "|refine", "MIN(tile_row) is refined with tile_row <= {y0}, MAX(tile_row) with tile_row >= {y1}; column bounds are unrestricted MIN/MAX",
                 "estimate/refine queries are not sound: %s" % why, ir.loc(b))
        nb = [n for n in ir.walk_nodes(b["body"]) if n.get("k") == "call" and (n.get("q") or "").endswith("TileBBox::new")]
        oko = False
        if nb:
            roots = []
            for a in nb[0]["a"][1:]:
                x = ir.strip(a)
                while x is not None and x.get("k") in ("cast", "mcall"):
                    x = ir.strip(x["e"] if x.get("k") == "cast" else x["recv"])
                roots.append(ir.place_str(x))
            oko = roots == [names.get("x0"), names.get("y0"), names.get("x1"), names.get("y1")] and None not in roots
        ck.check(oko, "R-COVER-MB", b["q"] + "|order", "TileBBox::new(z, x0, y0, x1, y1): min/max columns and rows in constructor order", "TileBBox::new arguments are %s" % (roots if nb else None), ir.loc(b))
        flips = [n for n in ir.walk_nodes(b["body"]) if n.get("k") == "mcall" and n.get("name") == "flip_y"]
        in_loop = any(ir.contains(lp, lambda y: y.get("k") == "mcall" and y.get("name") == "flip_y") for lp in ir.walk_nodes(b["body"]) if lp.get("k") == "for")
        sl = [n for n in ir.walk_nodes(b["body"]) if n.get("k") == "mcall" and n.get("name") == "set_level_bbox"]
        same_pyr = bool(sl) and bool(flips) and ir.local_hid(flips[0]["recv"]) is not None and ir.local_hid(flips[0]["recv"]) == ir.local_hid(sl[0]["recv"])
        ck.check(len(flips) == 1 and not in_loop and same_pyr, "R-COVER-MB", b["q"] + "|flip-once", "the pyramid built from TMS rows is flipped exactly once, after the loop",
                 "row flip of the coverage is applied %d times%s" % (len(flips), " inside the loop" if in_loop else ""), ir.loc(b))
        # clamping the queried extremes into the grid must not cut valid columns / rows: clamp(0, 2^z - 1)
        from . import affine as A
        nbx = [n for n in ir.walk_nodes(b["body"]) if n.get("k") == "call" and (n.get("q") or "").endswith("TileBBox::new") and len(n.get("a", ())) == 5]
        if nbx:
            env = A.Env()
            for y in ir.walk_nodes(b["body"]):
                if y.get("k") == "let" and "init" in y and y["pat"].get("k") == "bind":
                    env.m[y["pat"]["hid"]] = A.ev(y["init"], env)
            cl = [y for a_ in nbx[0]["a"][1:] for y in ir.walk_nodes(a_) if y.get("k") == "mcall" and y.get("name") == "clamp" and len(y.get("a", ())) == 2]
            badc = []
            for y in cl:
                lo = ir.const_eval(y["a"][0], {})
                hi = A.ev(y["a"][1], env)
                hs = A.show_stable(hi)
                # 2^z - 1, possibly capped by the integer type: (1 << z) - 1 or 2.pow(z) - 1 inside an optional min(.., MAX)
                core = hs
                m2 = __import__("re").match(r"^min\((.*), (.*)\)$", hs)
                if m2:
                    core = m2.group(1) if ("pow" in m2.group(1) or "<<" in m2.group(1) or "shl" in m2.group(1) or "*" in m2.group(1)) else m2.group(2)
                ok_hi = core.startswith("-1 + ") and ("pow(2" in core or "shl(1" in core or "<<" in core)
                if lo != 0 or not ok_hi:
                    badc.append("clamp(%s, %s)" % (lo, hs))
            ck.check(len(cl) in (0, 4) and not badc, "R-COVER-MB", b["q"] + "|clamp", "the queried extremes are clamped into 0 ..= 2^z - 1 only (%d clamp(s))" % len(cl),
                     "the level box is clamped with %s: columns / rows that hold tiles are cut from the advertised coverage" % badc[:2], ir.loc(nbx[0]))
        ld = [b2 for b2 in P.bodies if b2["q"].endswith("mbtiles::reader::MBTilesReader::load_meta_data")]
        if ld:
            ll = comp.lets_of(ld[0])
            oks = ir.contains(ld[0]["body"], lambda y: y.get("k") == "assign" and ir.place_str(y["l"]).endswith("parameters.bbox_pyramid")
                              and "get_bbox_pyramid()" in comp.deep_place(y["r"], ll))
            ck.check(oks, "R-COVER-MB", ld[0]["q"], "the computed pyramid is stored as the advertised coverage", "computed pyramid is not stored", ir.loc(ld[0]))

    # ---------------- operations
    for i in P.impls_of("::OperationTrait"):
        adt = P.adts.get(i.get("self_adt"))
        if not adt:
            continue
        fields = {f["name"]: f["t"] for f in adt["variants"][0]["fields"]}
        if not any(t.startswith("std::vec::Vec<") and "OperationTrait" in t for t in fields.values()):
            continue
        short = i["self_adt"].split("::operations::")[-1]
        for b in [x for x in P.bodies if x.get("self_adt") == i["self_adt"] and x["q"].endswith("::build")]:
            sh_ = None
            for n in ir.walk_nodes(b["body"]):
                if n.get("k") == "struct" and n.get("q") == i["self_adt"]:
                    for f in n["fields"]:
                        if f["name"] == "sources":
                            sh_ = ir.local_hid(f["e"])

            def over_sources(it):
                it = ir.strip(it)
                if it is not None and it.get("k") == "mcall" and it.get("name") == "iter" and not it.get("a"):
                    it = ir.strip(it["recv"])
                return sh_ is not None and ir.local_hid(it) == sh_
            loops = [n for n in ir.walk_nodes(b["body"]) if n.get("k") == "for" and over_sources(n["iter"])]
            inc = [n for n in ir.walk_nodes(b["body"]) if n.get("k") == "mcall" and n.get("name") == "include_bbox_pyramid"]
            oku = False
            if loops and inc and ir.contains(loops[0]["body"], lambda y: y is inc[0]):
                src = ir.pat_binds(loops[0]["pat"])[0]["name"]
                llets = {}
                for n in ir.walk_nodes(b["body"]):
                    if n.get("k") == "let" and "init" in n and n["pat"].get("k") == "bind":
                        llets[n["pat"]["hid"]] = n["init"]
                full = comp.deep_place(inc[0]["a"][0], llets)
                oku = full.startswith(src + ".get_parameters()") and full.endswith("bbox_pyramid") and not any(x.get("k") == "if" and ir.contains(x, lambda y: y is inc[0]) for x in ir.walk_nodes(loops[0]["body"]))
                newp = [n for n in ir.walk_nodes(b["body"]) if n.get("k") == "call" and (n.get("q") or "").endswith("TilesReaderParameters::new")]
                oku = oku and bool(newp) and ir.local_hid(newp[0]["a"][2]) == ir.local_hid(inc[0]["recv"])
            ck.check(oku, "R-COVER-OPS", short + "|union", "coverage = union of the pyramids of all sources, and that union is advertised", "coverage is not the union over all sources", ir.loc(b))

    # ---------------- operations that synthesise a tile for EVERY coordinate (from_debug): their lookup has no coverage guard, so the only
    # coverage that contains everything they return is the full pyramid over all valid levels (TileCoord3::new accepts z <= 31)
    zmax = None
    tcn = [b for b in P.bodies if b["q"].endswith("tile_coords::TileCoord3::new")]
    for b in tcn:
        for y in ir.walk_nodes(b["body"]):
            cn = ir.cmp_norm(y) if y.get("k") == "bin" else None
            if cn and cn[1] == "<=" and cn[2].isdigit() and (ir.strip(y["l"]).get("t") == "u8"):
                zmax = int(cn[2])
    for i in P.impls_of("::OperationTrait"):
        if not i.get("self_adt", "").endswith("from_debug::Operation"):
            continue
        lk = P.impl_method(i, "get_tile_data", inline=False)
        guarded = lk is not None and ir.contains(lk["body"], lambda y: y.get("k") == "mcall" and y.get("name") in ("contains_coord", "contains3", "contains"))
        full = [y for b in P.bodies if b.get("self_adt") == i["self_adt"] for y in ir.walk_nodes(b["body"]) if y.get("k") == "call" and (y.get("q") or "").endswith("TileBBoxPyramid::new_full")]
        okf = guarded or (len(full) == 1 and zmax is not None and ir.const_eval(full[0]["a"][0], {}) == zmax)
        ck.check(okf, "R-COVER-OPS", "from_debug|full-pyramid", "from_debug answers every coordinate, and advertises the full pyramid up to the highest valid level (%s)" % zmax,
                 "from_debug returns a tile for every coordinate but advertises new_full(%s) while coordinates up to level %s are valid: tiles of the levels above lie outside the advertised coverage" %
                 (ir.const_eval(full[0]["a"][0], {}) if full else "?", zmax), ir.loc(full[0]) if full else None)
    nf = [b for b in P.bodies if b["q"].endswith("tile_bbox_pyramid::TileBBoxPyramid::new_full")]
    if ck.anchor("R-COVER-OPS", "TileBBoxPyramid::new_full", nf, 1):
        b = nf[0]
        c = [ir.cmp_norm(y["c"]) for y in ir.walk_nodes(b["body"]) if y.get("k") == "if" and ir.cmp_norm(y["c"]) is not None]
        okn = len(c) == 1 and c[0][1] == "<=" and ir.contains(b["body"], lambda y: y.get("k") == "call" and (y.get("q") or "").endswith("TileBBox::new_full")) and \
            ir.contains(b["body"], lambda y: y.get("k") == "call" and (y.get("q") or "").endswith("TileBBox::new_empty"))
        if okn:
            iff = [y for y in ir.walk_nodes(b["body"]) if y.get("k") == "if"][0]
            okn = ir.contains(iff["then"], lambda y: (y.get("q") or "").endswith("TileBBox::new_full")) and ir.contains(iff.get("else", {}), lambda y: (y.get("q") or "").endswith("TileBBox::new_empty"))
        ck.check(okn, "R-COVER-OPS", "new_full|levels", "new_full(n) is full on the levels 0..=n and empty above", "new_full(n) does not fill exactly the levels 0..=n", ir.loc(b))


def mutants(P):
    out = []
    tar = "versatiles_container::container::tar::reader::TarTilesReader::open_path"

    def drop_include(body):
        return m_drop_stmt(body, lambda n: n.get("k") == "mcall" and n.get("name") == "include_coord")
    out.append(("tar reader: include_coord dropped", tar, drop_include))
    out.append(("directory reader: include_coord dropped", "versatiles_container::container::directory::reader::DirectoryTilesReader::open_path", drop_include))
    mb = "versatiles_container::container::mbtiles::reader::MBTilesReader::get_bbox_pyramid"

    def wrong_dir(body):
        for n in ir.walk_nodes(body["body"]):
            if n.get("src", "").startswith("format!(") and "tile_row <= {y0}" in n["src"]:
                n["src"] = n["src"].replace("tile_row <= {y0}", "tile_row >= {y0}")
                return True
        return False
    out.append(("mbtiles coverage: MIN refined with >=", mb, wrong_dir))

    def double_flip(body):
        blk = ir.fn_block(body)
        for i, s in enumerate(blk["stmts"]):
            if ir.contains(s, lambda y: y.get("k") == "mcall" and y.get("name") == "flip_y"):
                import copy
                blk["stmts"].insert(i, copy.deepcopy(s))
                return True
        return False
    out.append(("mbtiles coverage: flipped twice", mb, double_flip))

    def incl(body):
        for n in ir.walk_nodes(body["body"]):
            if n.get("k") == "for":
                it = ir.unparen(n["iter"])
                if it.get("k") == "struct" and "Range" in (it.get("q") or "") and any("run_length" in ir.place_str(f["e"]) for f in it["fields"]):
                    for f in it["fields"]:
                        if f["name"] == "start":
                            f["e"] = {"k": "lit", "lk": "int", "v": 1, "t": "u64"}
                            return True
        return False
    out.append(("pmtiles coverage: run expansion starts at 1", "versatiles_container::container::pmtiles::reader::calc_bbox_pyramid::parse_directories", incl))
    return out
