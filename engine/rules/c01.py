"""C01 — container round trip is lossless for every tile set and every format (structural clauses).

R-WIRE      each record's writer and reader use the same primitive sequence, field pairing and byte order, sum to the record
            length, and equal the published layout (versatiles v02 header / block definition / tile index entry, PMTiles v3
            header); the PMTiles directory columns are written and read in the same order.
R-CODE      code tables (tile format / compression <-> byte, PMTiles enums and their maps, file extensions, MBTiles format
            strings) are injective, mutually inverse between writer and reader, and equal the published codes.
R-BLOCK     the versatiles block size appears consistently (iter_bbox_grid(B), * B, >> log2 B, scale_down(B)).
R-BASE      offsets made relative at write time are made absolute with the same base at read time (versatiles block, PMTiles tile data).
R-NAME      tar / directory member names are built from z/x/y + format extension + compression extension, and parsed in that order.
R-DEDUP     the de-duplication map is keyed by the complete payload, stores the range just assigned to that payload, and lives one block.
R-PM-SORT   PMTiles entries are sorted by tile id before they are serialised (delta encoding / binary search).
R-WRITEALL  DataWriterTrait::append writes the whole blob (write_all) — a short write must not be recorded as the tile.
"""
from . import absint, affine, comp, ir, wire
from .report import m_drop_stmt, m_replace

META = {
    "level": "other",
    "explanation": (
        "Decides the structural clauses of C01: the primitive write and read sequences of every fixed-layout record are extracted "
        "from the type-checked bodies and compared with each other (same primitives, i-th written field = i-th read field, "
        "byte order) and with layout tables transcribed from the published formats, so a shared deviation of writer and reader "
        "is caught too; code tables are extracted from match arms and enum discriminants and must be injective, inverse and "
        "equal to the published codes; the block size literal, the relative-offset bases, the member-name scheme, the "
        "de-duplication map's key/scope, the sort before delta encoding and complete writes are checked as def-use relations."),
    "not_decided": "content equality of what is read back; Hilbert id arithmetic; root/leaf split sizes; the 1000-byte threshold (any threshold is correct once R-DEDUP holds); >16384 tiles; SQLite.",
    "trusted_base": ["layout and code tables transcribed in rules/wire.py from the versatiles v02 and PMTiles v3 specifications", "ValueReader/ValueWriter primitives read/write what their names say"],
}

VT = "versatiles_container::container::versatiles::"
PM = "versatiles_container::container::pmtiles::"


def _hdr_field(n, fld, tys=("FileHeader", "HeaderV3")):
    """is n the place `<local of header type>.fld`?"""
    n = ir.strip(n)
    if n is None or n.get("k") != "field" or n.get("name") != fld:
        return False
    base = ir.strip(n["e"])
    return base is not None and any((base.get("t") or "").endswith(t) or (base.get("ta") or "").endswith(t) for t in tys)


def fn(P, suffix):
    r = [b for b in P.bodies if b["q"].endswith(suffix)]
    return r[0] if r else None



def mbtiles_format_rules(ck, P):
    """the (format, compression) <-> MBTiles `format` string tables of writer and reader equal the spec table (MBTiles has no
    compression field: the string implies it) — shared with C04"""
    # MBTiles format strings
    mw, mr = None, fn(P, "mbtiles::reader::MBTilesReader::load_meta_data")
    for i in P.impls_of("::TilesWriterTrait"):
        if i.get("self_adt", "").endswith("::MBTilesWriter"):
            mw = P.impl_method(i, "write_to_path")
    if ck.anchor("R-CODE", "mbtiles format table", [x for x in (mw, mr) if x], 2):
        wtab = {}
        for n in ir.walk_nodes(mw["body"]):
            if n.get("k") == "match" and n["e"].get("k") == "tup":
                for a in n["arms"]:
                    p = a["pat"]
                    if p.get("k") == "tuple" and len(p["ps"]) == 2 and all((x.get("q") or x.get("e", {}).get("q")) for x in p["ps"]):
                        names = tuple(absint.vname(x.get("q") or x["e"]["q"]).rsplit("::", 1)[-1] for x in p["ps"])
                        s = ir.const_eval_str(a["body"])
                        if s:
                            wtab[s] = names
        rtab = {}
        for n in ir.walk_nodes(mr["body"]):
            if n.get("k") == "match":
                for a in n["arms"]:
                    p = a["pat"]
                    if p.get("k") == "expr" and p["e"].get("lk") == "str" and p["e"]["v"] in wire.SPEC_CODES["mbtiles.format"]:
                        asg = {}
                        for y in ir.walk_nodes(a["body"]):
                            if y.get("k") == "assign":
                                v = [absint.vname(z["q"]).rsplit("::", 1)[-1] for z in ir.walk_nodes(y["r"]) if z.get("k") in ("path",) and z.get("dk", "").startswith("Ctor") and "Result" not in z["q"]]
                                lt = ir.strip(y["l"]).get("t", "")
                                role = "tile_format" if "TileFormat" in lt else ("compression" if "TileCompression" in lt else ir.place_str(y["l"]))
                                asg[role] = v[0] if v else None
                        rtab[p["e"]["v"]] = (asg.get("tile_format"), asg.get("compression"))
        spec = wire.SPEC_CODES["mbtiles.format"]
        ck.check(wtab == spec, "R-CODE", "mbtiles.format|writer", "writer maps (format, compression) to the MBTiles format strings %s" % sorted(wtab), "writer table %s differs from %s" % (wtab, spec), ir.loc(mw))
        ck.check(rtab == spec, "R-CODE", "mbtiles.format|reader", "reader maps the format strings back to the same (format, compression)", "reader table %s differs from %s" % (rtab, spec), ir.loc(mr))


def _derived(body, binds):
    """locals initialised from expressions that mention one of `binds` (one step: `let range = writer.append(&blob)`, `let id = coord.get_tile_id()`)"""
    out = set()
    for n in ir.walk_nodes(body):
        if n.get("k") == "let" and "init" in n and any(z.get("k") == "path" and z.get("r") == "local" and z.get("hid") in binds for z in ir.walk_nodes(n["init"])):
            out |= {x["hid"] for x in ir.pat_binds(n["pat"])}
    return out


def _emptiness_fact(f):
    """does the fact say that something is empty / zero / absent?"""
    if f[0] == "pred":
        return (f[2] in ("is_empty", "is_none") and f[4] is True) or (f[2] == "is_some" and f[4] is False)
    if f[0] == "cmp":
        return (f[2] == "==" and (f[3] == "0" or f[1] == "0")) or (f[2] in ("<", "<=") and f[3] in ("1", "0") and f[2] + f[3] != "<0") or (f[2] in (">", ">=") and f[1] in ("1", "0"))
    return False


def write_complete_rules(ck, P):
    """R-WRITE-COMPLETE: a writer leaves nothing out.
    (a) exits: in the top-level flow of the container writers (outside closures) every `return Ok(..)`, `continue` and `break` that ends
        work early is dominated by a fact stating that there is nothing to write (X.is_empty(), len == 0, a + b == 0, is_none());
        an exit under any other condition (or under the negated one) skips tiles, levels or blocks.
    (b) the versatiles block writer records an index entry for every tile it is handed: on every path through the per-tile
        callback `tile_index.set(..)` is evaluated exactly once."""
    from . import census, mvt
    fns = [b for b in P.bodies if "::container::" in b["q"] and "::tests::" not in b["q"] and "riter" in b["q"] and b.get("target") in (None, "lib")]
    if not ck.anchor("R-WRITE-COMPLETE", "container writer functions", fns, 8):
        return
    n_exits, bad = 0, []
    for b in fns:
        blk = ir.fn_block(b)
        closures = [c for c in ir.walk_nodes(blk) if c.get("k") == "closure" and "async fn body" not in (c.get("t") or "") and "Coroutine" not in (c.get("ck") or "")]
        tail = blk.get("tail") if blk.get("k") == "block" else None
        for n, fs in census.nodes_with_facts(blk, lambda y: y.get("k") in ("ret", "continue", "break")):
            if any(ir.contains(c["body"], lambda y: y is n) for c in closures):
                continue
            if "m" in n:
                continue          # `?` / ensure! / bail! expansions
            e = n.get("e")
            if n["k"] == "ret" and e is not None and ir.contains(e, lambda y: y.get("k") == "call" and (y.get("q") or "").endswith(("Err::{Ctor#0}", "anyhow::Error::msg"))):
                continue          # error exit
            if n["k"] == "ret" and tail is not None and (n is tail or ir.contains(tail, lambda y: y is n)):
                continue
            n_exits += 1
            if not any(_emptiness_fact(f) for f in fs):
                bad.append("%s at %s under %s" % (n["k"], ir.loc(n), [" ".join(map(str, f[1:])) for f in fs][-2:] or "no condition"))
    ck.check(not bad, "R-WRITE-COMPLETE", "writers|exits", "every early `return Ok` / `continue` / `break` in the writers' own control flow is taken only when there is nothing to write (%d exit(s))" % n_exits,
             "a writer ends work early although there may be something to write: %s" % bad[:3])
    # (c) per tile, the sink is called exactly once with that tile's payload
    SINKS = (("::TarTilesWriter", "write_to_path", ("tar::builder::Builder::append_data",)),
             ("::DirectoryTilesWriter", "write_to_path", ("DirectoryTilesWriter::write",)),
             ("::PMTilesWriter", "write_to_writer", ("DataWriterTrait::append", "EntriesV3::push")),
             ("::MBTilesWriter", "write_to_path", ("MBTilesWriter::add_tiles",)))
    for suffix, mname, sinks in SINKS:
        impl = [i for i in P.impls_of("::TilesWriterTrait") if i.get("self_adt", "").endswith(suffix)]
        m = P.impl_method(impl[0], mname, inline=False) if impl else None
        if not ck.anchor("R-WRITE-COMPLETE", suffix.strip(":") + "::" + mname, [m] if m else [], 1):
            continue
        # the loop / callback that receives the tiles of a stream: innermost `while let` over stream.next() or closure handed to for_each_*
        bodies = []
        for n in ir.walk_nodes(m["body"]):
            if n.get("k") == "while" and ir.contains(n["c"], lambda y: y.get("k") == "mcall" and y.get("name") == "next"):
                bodies.append((n["body"], {x["hid"] for x in ir.pat_binds(ir.unparen(n["c"]).get("pat") or {})} if ir.unparen(n["c"]).get("k") == "letx" else set()))
            if n.get("k") == "mcall" and n.get("name", "").startswith("for_each") and n.get("a") and n["a"][-1].get("k") == "closure":
                c = n["a"][-1]
                bodies.append((c["body"], {x["hid"] for p_ in c["params"] for x in ir.pat_binds(p_)}))
        if not ck.check(len(bodies) == 1, "R-WRITE-COMPLETE", suffix.strip(":") + "|tile-loop", "one loop / callback consumes the tile stream", "%d tile loops found" % len(bodies), ir.loc(m)):
            continue
        body, binds = bodies[0]
        # locals derived from the bound (coord, blob): `let (coord, blob) = entry;`
        for n in ir.walk_nodes(body):
            if n.get("k") == "let" and "init" in n and ir.local_hid(n["init"]) in binds:
                binds |= {x["hid"] for x in ir.pat_binds(n["pat"])}
        for sk in sinks:
            counts = mvt.exit_counts(P, {"body": body}, lambda y, sk=sk: 1 if (y.get("k") in ("mcall", "call") and (ir.callee(y) or y.get("q") or "").endswith(sk)) else None)
            calls = [y for y in ir.walk_nodes(body) if y.get("k") in ("mcall", "call") and (ir.callee(y) or y.get("q") or "").endswith(sk)]
            fed = bool(calls) and all(any(z.get("k") == "path" and z.get("r") == "local" and z.get("hid") in binds for z in ir.walk_nodes(c_)) or
                                      any(z.get("k") == "path" and z.get("r") == "local" and z.get("hid") in _derived(body, binds) for z in ir.walk_nodes(c_)) for c_ in calls)
            ck.check(counts == {1} and fed, "R-WRITE-COMPLETE", "%s|%s" % (suffix.strip(":"), sk.rsplit("::", 1)[-1]),
                     "per tile (batch) of the stream `%s` is called exactly once on every path, with data of that tile" % sk,
                     "`%s` is called %s time(s) per tile%s: tiles are missing from (or duplicated in) the output" % (sk, sorted(counts), "" if fed else " and not with the tile it received"), ir.loc(m))
    at = [b for b in fns if b["q"].endswith("mbtiles::writer::MBTilesWriter::add_tiles")]
    if ck.anchor("R-WRITE-COMPLETE", "MBTilesWriter::add_tiles", at, 1):
        b = at[0]
        loops = [n for n in ir.walk_nodes(b["body"]) if n.get("k") == "for"]
        okl = False
        if len(loops) == 1:
            params = [x for p_ in b["params"] for x in ir.pat_binds(p_) if x["name"] != "self"]
            over_all = bool(params) and ir.local_hid(loops[0]["iter"]) == params[0]["hid"]
            c1 = mvt.exit_counts(P, {"body": loops[0]["body"]}, lambda y: 1 if (y.get("k") == "mcall" and (y.get("q") or "").endswith("Connection::execute")) else None)
            esc = [y["k"] for y in ir.walk_nodes(loops[0]["body"]) if y.get("k") in ("break", "continue")]
            okl = over_all and c1 == {1} and not esc
        c2 = mvt.exit_counts(P, b, lambda y: 1 if (y.get("k") == "mcall" and (y.get("q") or "").endswith("Transaction::commit")) else None)
        ck.check(okl and c2 == {1}, "R-WRITE-COMPLETE", b["q"], "add_tiles inserts every tile of the batch once and commits the transaction exactly once on every successful path",
                 "add_tiles does not insert every tile of its batch once and commit once (per-tile inserts ok=%s, commits per call %s): a batch is silently not persisted" % (okl, sorted(c2)), ir.loc(b))
    # (d) the values that describe what was written
    from . import affine as A
    pm = [i for i in P.impls_of("::TilesWriterTrait") if i.get("self_adt", "").endswith("::PMTilesWriter")]
    pmw = P.impl_method(pm[0], "write_to_writer", inline=False) if pm else None
    if pmw is not None:
        ne = [y for y in ir.walk_nodes(pmw["body"]) if y.get("k") == "call" and (y.get("q") or "").endswith("EntryV3::new") and len(y.get("a", ())) == 3]
        ck.check(len(ne) == 1 and ir.const_eval(ne[0]["a"][2], {}) == 1, "R-WRITE-COMPLETE", "PMTilesWriter|run-length", "every directory entry written stands for exactly one tile id (run_length 1)",
                 "directory entries are written with run_length %s: the following tile ids resolve to this tile as well" % ([ir.const_eval(y["a"][2], {}) for y in ne]), ir.loc(pmw))
        env = A.Env()
        A.run(ir.stmts_of(ir.fn_block(pmw)), env)
        td = [y for y in ir.walk_nodes(pmw["body"]) if y.get("k") == "assign" and ir.place_str(y["l"]).endswith(".tile_data")]
        okt = False
        shown = "?"
        if len(td) == 1:
            r = ir.strip(td[0]["r"])
            if r.get("k") == "call" and (r.get("q") or "").endswith("ByteRange::new") and len(r["a"]) == 2:
                off, ln = A.ev(r["a"][0], env), A.ev(r["a"][1], env)
                # positions are opaque results of get_position(): compare structurally — length == (second position) - (first position), offset == first
                def direct_pos(e):
                    e = ir.strip(e)
                    while e is not None and e.get("k") in ("try", "await"):
                        e = ir.strip(e["e"])
                    return e is not None and e.get("k") == "mcall" and (e.get("q") or "").endswith("DataWriterTrait::get_position")
                gp = [y for y in ir.walk_nodes(pmw["body"]) if y.get("k") == "let" and "init" in y and y["pat"].get("k") == "bind" and direct_pos(y["init"])]
                if len(gp) == 2:
                    first, second = A.local_sym(gp[0]["pat"]), A.local_sym(gp[1]["pat"])
                    env2 = A.Env()
                    off, ln = A.ev(r["a"][0], env2), A.ev(r["a"][1], env2)
                    okt = A.eq(off, first) and A.eq(ln, A.sub(second, first))
                    shown = "(%s, %s)" % (A.show(off), A.show(ln))
        ck.check(okt, "R-WRITE-COMPLETE", "PMTilesWriter|tile-data-range", "header.tile_data = (position before the tiles, position after - position before)",
                 "header.tile_data is %s, not (start of the tile section, its length)" % shown, ir.loc(pmw))
    tw = [i for i in P.impls_of("::TilesWriterTrait") if i.get("self_adt", "").endswith("::TarTilesWriter")]
    tww = P.impl_method(tw[0], "write_to_path", inline=False) if tw else None
    if tww is not None:
        # every append_data is preceded, in the same block, by set_size(<the appended data>.len()) on the header it passes
        bad_sz = []
        n_app = 0
        for blk in ir.walk_nodes(tww["body"]):
            if blk.get("k") != "block":
                continue
            sts = ir.stmts_of(blk)
            for i_, st in enumerate(sts):
                for y in ir.walk_nodes(st):
                    if y.get("k") == "mcall" and (y.get("q") or "").endswith("Builder::append_data") and len(y.get("a", ())) == 3 and not any(
                            z.get("k") == "block" and z is not st and ir.contains(z, lambda w: w is y) for z in ir.walk_nodes(st)):
                        n_app += 1
                        hh = ir.local_hid(y["a"][0])
                        data = ir.strip(y["a"][2])
                        while data is not None and data.get("k") == "mcall" and data.get("name") in ("as_slice", "as_ref", "as_bytes") and not data.get("a"):
                            data = ir.strip(data["recv"])
                        dh = ir.local_hid(data) if data is not None else None
                        lets_ = comp.lets_of(tww)

                        def is_len_of(e, d=0):
                            if e is None or d > 4:
                                return False
                            if ir.contains(e, lambda w: w.get("k") == "mcall" and w.get("name") == "len" and ir.local_hid(w["recv"]) == dh):
                                return True
                            h_ = ir.local_hid(e) if ir.strip(e).get("k") in ("path", "cast") or ir.local_hid(e) is not None else None
                            if h_ is None:
                                h_ = next((w["hid"] for w in ir.walk_nodes(e) if w.get("k") == "path" and w.get("r") == "local"), None)
                            return h_ in lets_ and is_len_of(lets_[h_], d + 1)
                        okz = any(z.get("k") == "mcall" and z.get("name") == "set_size" and ir.local_hid(z["recv"]) == hh and is_len_of(z["a"][0])
                                  for s2 in sts[:i_] for z in ir.walk_nodes(s2))
                        if not okz:
                            bad_sz.append(ir.loc(y))
        ck.check(n_app >= 2 and not bad_sz, "R-WRITE-COMPLETE", "TarTilesWriter|member-size", "every tar member's header carries the length of the data appended with it (%d append_data call(s))" % n_app,
                 "append_data at %s is not preceded by header.set_size(<that data>.len()): the member is truncated or the archive is corrupt" % bad_sz, ir.loc(tww))
    wb = [b for b in fns if b["q"].endswith("versatiles::writer::VersaTilesWriter::write_block")]
    if ck.anchor("R-WRITE-COMPLETE", "VersaTilesWriter::write_block", wb, 1):
        b = wb[0]
        clo = [c for c in ir.walk_nodes(b["body"]) if c.get("k") == "closure" and "async fn body" not in (c.get("t") or "") and "Coroutine" not in (c.get("ck") or "") and
               ir.contains(c["body"], lambda y: y.get("k") == "mcall" and (y.get("q") or "").endswith("TileIndex::set"))]
        okc = False
        why = "no per-tile callback that sets index entries"
        if len(clo) == 1:
            counts = mvt.exit_counts(P, {"body": clo[0]["body"]}, lambda y: 1 if (y.get("k") == "mcall" and (y.get("q") or "").endswith("TileIndex::set")) else None)
            okc = counts == {1}
            why = "possible numbers of tile_index.set(..) per tile: %s" % sorted(counts)
        ck.check(okc, "R-WRITE-COMPLETE", b["q"] + "|index-entry-per-tile", "every tile handed to the block writer gets exactly one index entry (also a de-duplicated one)",
                 "a tile can pass the block writer without an index entry or with two (%s): the tile is lost from the container" % why, ir.loc(b))


def rules(ck, P):
    write_complete_rules(ck, P)
    # PMTiles tile ids: Hilbert digit tables, quadrant transform, level base, step order (finite tables and term shapes)
    from . import hilbert as _hilbert
    _hilbert.rules(ck, P)
    from . import c17 as _c17
    _c17.mbtiles_meta_rule(ck, P)       # the MBTiles metadata rows also carry the declared format (shared with C17)
    # a written .versatiles container is read back (convert, pipelines) through the reader's bbox stream, which re-derives coordinates from
    # index positions and cuts tiles out of merged chunks: every index entry must come out again (shared with C02)
    from . import c02 as _c02
    scans = [b for b in P.bodies if "get_bbox_tile_stream" in b["q"] and "::tests::" not in b["q"] and
             ir.contains(b["body"], lambda y: y.get("k") == "mcall" and (y.get("q") or "").endswith("::get_block_tile_index"))]
    if ck.anchor("R-INDEX-SCAN", "streams that scan a block's tile index", scans, 1):
        for b in scans:
            _c02._index_scan_rules(ck, P, b)
    # ---------------- R-WIRE
    recs = [
        ("versatiles.header", "types::file_header::FileHeader::to_blob", "types::file_header::FileHeader::from_blob", 0),
        ("versatiles.block", "types::block_definition::BlockDefinition::as_blob", "types::block_definition::BlockDefinition::from_blob", 0),
        ("versatiles.tile_index_entry", "types::tile_index::TileIndex::as_blob", "types::tile_index::TileIndex::from_blob", 0),
        ("pmtiles.header", "types::header_v3::HeaderV3::serialize", "types::header_v3::HeaderV3::deserialize", 2),
    ]
    for name, wq, rq, skip in recs:
        wb, rb = fn(P, wq), fn(P, rq)
        if not ck.anchor("R-WIRE", name, [x for x in (wb, rb) if x], 2):
            continue
        ws, wo = wire.writer_seq(wb)
        rs, ro = wire.reader_seq(rb, P)
        wire.check_record(ck, "R-WIRE", name, ws, wo, rs, ro, wire.SPEC_LAYOUT[name], ir.loc(wb), ir.loc(rb), skip)
        if name in wire.MAGIC:
            mg = [nm for p, nm, _ in ws if p.startswith("bytes")]
            ck.check(mg == [wire.MAGIC[name]], "R-WIRE", name + "|magic", "magic bytes are '%s'" % wire.MAGIC[name], "magic written is %s" % mg, ir.loc(wb))
    # record-length constants used by siblings
    for cq, want in (("types::file_header::HEADER_LENGTH", 66), ("types::block_definition::BLOCK_INDEX_LENGTH", 33), ("types::tile_index::TILE_INDEX_LENGTH", 12)):
        v = [v_ for k, v_ in ir.CONSTS.items() if k.endswith("::" + cq.split("::")[-1]) and "::versatiles::types::" in k]
        ck.check(v == [want], "R-WIRE", "const|" + cq.split("::")[-1], "%s = %d" % (cq.split("::")[-1], want), "%s = %s, layout says %d" % (cq.split("::")[-1], v, want))
    # PMTiles directory columns
    se, fb = fn(P, "entries_v3::EntriesSliceV3::serialize_entries"), fn(P, "entries_v3::EntriesV3::from_blob")
    if ck.anchor("R-WIRE", "pmtiles.directory", [x for x in (se, fb) if x], 2):
        def columns(b, writer):
            cols = []
            for n in ir.walk_nodes(b["body"]):
                if n.get("k") != "for":
                    continue
                has = ir.contains(n["body"], lambda y: y.get("k") == "mcall" and y.get("name") == ("write_varint" if writer else "read_varint"))
                if not has:
                    continue
                fields = [ir.place_str(y) for y in ir.walk_nodes(n["body"]) if y.get("k") == "field" and y["name"] in ("tile_id", "run_length", "length", "offset")]
                if writer:
                    order = [f for f in fields]
                else:
                    order = [ir.place_str(y["l"]) for y in ir.walk_nodes(n["body"]) if y.get("k") == "assign"] or \
                        (["tile_id"] if ir.contains(n["body"], lambda y: y.get("k") == "call" and (y.get("q") or "").endswith("EntryV3::new")) else [])
                col = None
                for cand in ("tile_id", "run_length", "offset", "length"):
                    if any(x.endswith(cand) for x in order):
                        col = cand
                        break
                # `length` appears inside the offset loop as well: the assignment target decides for the reader
                if not writer and order and "." in order[0]:
                    col = order[0].rsplit(".", 1)[-1]
                elif not writer and ir.contains(n["body"], lambda y: y.get("k") == "call" and (y.get("q") or "").endswith("EntryV3::new")):
                    col = "tile_id"
                cols.append(col)
            return cols
        wc, rc = columns(se, True), columns(fb, False)
        ck.check(wc == rc == ["tile_id", "run_length", "length", "offset"], "R-WIRE", "pmtiles.directory|columns", "directory columns are written and read in the order id-delta, run length, length, offset",
                 "column order: writer %s, reader %s, spec [tile_id, run_length, length, offset]" % (wc, rc), ir.loc(se))
        # offset column convention: 0 = contiguous, else offset + 1
        wz = ir.contains(se["body"], lambda y: y.get("k") == "bin" and y.get("op") == "+" and ir.place_str(y["l"]).endswith("range.offset") and ir.const_eval(y["r"], {}) == 1)
        rz = ir.contains(fb["body"], lambda y: y.get("k") == "mcall" and y.get("name") == "checked_sub" and ir.const_eval(y["a"][0], {}) == 1) or \
            ir.contains(fb["body"], lambda y: y.get("k") == "bin" and y.get("op") == "-" and ir.const_eval(y["r"], {}) == 1)
        ck.check(wz and rz, "R-WIRE", "pmtiles.directory|offset+1", "offsets are stored as offset+1 (0 = follows the previous entry) on both sides", "offset+1 convention differs between writer (%s) and reader (%s)" % (wz, rz), ir.loc(se))

    # ---------------- R-CODE
    hw, hr = fn(P, "types::file_header::FileHeader::to_blob"), fn(P, "types::file_header::FileHeader::from_blob")
    if hw and hr:
        wt = [wire.match_table(n) for n in ir.walk_nodes(hw["body"]) if n.get("k") == "match" and len(n["arms"]) >= 3]
        rt = [wire.match_table(n) for n in ir.walk_nodes(hr["body"]) if n.get("k") == "match" and len(n["arms"]) >= 3 and n.get("msrc") == "Normal"]
        for nm, spec in (("versatiles.tile_format", wire.SPEC_CODES["versatiles.tile_format"]), ("versatiles.compression", wire.SPEC_CODES["versatiles.compression"])):
            w = next((t for t in wt if set(t) == set(spec)), None)
            r = next((t for t in rt if set(t.values()) - {None} == set(spec)), None)
            ck.check(w == spec, "R-CODE", nm + "|writer", "%s codes written: %s" % (nm, w), "%s writer table %s differs from the published codes %s" % (nm, w, spec), ir.loc(hw))
            inv = {v: k for k, v in (r or {}).items() if v is not None}
            ck.check(inv == spec, "R-CODE", nm + "|reader", "reader table is the inverse of the published codes", "%s reader table %s is not the inverse of %s" % (nm, r, spec), ir.loc(hr))
            ck.check(w is not None and len(set(w.values())) == len(w), "R-CODE", nm + "|injective", "codes are distinct", "codes collide: %s" % w, ir.loc(hw))
    for enum, spec_key, map_key, src_enum in (("pmtiles::types::tile_compression::PMTilesCompression", "pmtiles.compression", "pmtiles.compression_map", "TileCompression"),
                                              ("pmtiles::types::tile_type::PMTilesType", "pmtiles.tile_type", "pmtiles.type_map", "TileFormat")):
        d = wire.enum_discriminants(P, enum)
        ck.check(d == wire.SPEC_CODES[spec_key], "R-CODE", spec_key + "|discriminants", "enum discriminants equal the PMTiles v3 codes %s" % d, "discriminants %s differ from %s" % (d, wire.SPEC_CODES[spec_key]))
        fu = fn(P, enum + "::from_u8")
        if fu:
            t = [wire.match_table(n) for n in ir.walk_nodes(fu["body"]) if n.get("k") == "match"]
            inv = {v: k for k, v in (t[0] if t else {}).items() if v is not None}
            ck.check(inv == wire.SPEC_CODES[spec_key], "R-CODE", spec_key + "|from_u8", "from_u8 is the inverse of the discriminants", "from_u8 table %s" % (t[0] if t else None), ir.loc(fu))
        fv, av = fn(P, enum + "::from_value"), fn(P, enum + "::as_value")
        if fv and av:
            t1 = [wire.match_table(n) for n in ir.walk_nodes(fv["body"]) if n.get("k") == "match"][0]
            t2 = [wire.match_table(n) for n in ir.walk_nodes(av["body"]) if n.get("k") == "match"][0]
            t1 = {k: v for k, v in t1.items() if v is not None and not str(v).startswith("format")}
            spec = wire.SPEC_CODES[map_key]
            ck.check({k: v for k, v in t1.items() if k in spec} == spec and all(k in spec for k in t1), "R-CODE", map_key + "|from_value", "%s -> PMTiles code map equals the specification (%s)" % (src_enum, t1),
                     "from_value table %s differs from %s" % (t1, spec), ir.loc(fv))
            bad = {k: v for k, v in t1.items() if t2.get(v) != k}
            ck.check(not bad, "R-CODE", map_key + "|inverse", "as_value(from_value(x)) = x for every expressible value", "as_value does not invert from_value for %s" % bad, ir.loc(av))
    # file extensions
    for ty, mod in (("TileFormat", "tile_format"), ("TileCompression", "tile_compression")):
        ex, ff = fn(P, "types::%s::%s::extension" % (mod, ty)), fn(P, "types::%s::%s::from_filename" % (mod, ty))
        if not ck.anchor("R-CODE", ty + " extension tables", [x for x in (ex, ff) if x], 2):
            continue
        t1 = [wire.match_table(n) for n in ir.walk_nodes(ex["body"]) if n.get("k") == "match"][0]
        t2 = [wire.match_table(n) for n in ir.walk_nodes(ff["body"]) if n.get("k") == "match" and any(a["pat"].get("k") in ("expr", "or") for a in n["arms"])][0]
        bad = {k: v for k, v in t1.items() if v != "" and t2.get(v) != k}
        ck.check(not bad and len(set(t1.values())) == len(t1), "R-CODE", ty + "|extension", "from_filename inverts extension() for all %d variants; extensions are distinct" % len(t1),
                 "extension round trip fails for %s (extension table %s, filename table %s)" % (bad, t1, t2), ir.loc(ex))
    mbtiles_format_rules(ck, P)

    # ---------------- R-BLOCK
    lits = {}
    vw = fn(P, "versatiles::writer::VersaTilesWriter::write_blocks")
    if vw:
        lits["writer iter_bbox_grid"] = [ir.const_eval(n["a"][0], {}) for n in ir.walk_nodes(vw["body"]) if n.get("k") == "mcall" and n.get("name") == "iter_bbox_grid"]
    bd = fn(P, "types::block_definition::BlockDefinition::from_blob")
    if bd:
        lits["block_definition *"] = sorted({ir.const_eval(n["r"], {}) for n in ir.walk_nodes(bd["body"]) if n.get("k") == "bin" and n.get("op") == "*" and ir.const_eval(n["r"], {})})
    bn = fn(P, "types::block_definition::BlockDefinition::new")
    if bn:
        lits["block_definition new"] = sorted({ir.const_eval(n["a"][0], {}) for n in ir.walk_nodes(bn["body"]) if n.get("k") == "mcall" and n.get("name") in ("div", "rem", "scale_down", "mul") and n.get("a") and ir.const_eval(n["a"][0], {})} |
                                              {ir.const_eval(n["r"], {}) for n in ir.walk_nodes(bn["body"]) if n.get("k") == "bin" and n.get("op") in ("*", "/", "%") and ir.const_eval(n["r"], {})})
    vr = None
    for i in P.impls_of("::TilesReaderTrait"):
        if i.get("self_adt", "").endswith("::VersaTilesReader"):
            vr = i
    if vr:
        g = P.impl_method(vr, "get_tile_data")
        s_ = P.impl_method(vr, "get_bbox_tile_stream")
        lits["reader shr"] = sorted({ir.const_eval(n["a"][0], {}) for n in ir.walk_nodes(g["body"]) if n.get("k") == "mcall" and n.get("name") == "shr"})
        lits["reader scale_down"] = [ir.const_eval(n["a"][0], {}) for n in ir.walk_nodes(s_["body"]) if n.get("k") == "mcall" and n.get("name") == "scale_down"]
    sizes = set()
    for k, v in lits.items():
        for x in v:
            if x is None:
                continue
            sizes.add(2 ** x if k == "reader shr" else x)
    ck.anchor("R-BLOCK", "block-size literal sites", [k for k, v in lits.items() if v], 4)
    ck.check(len(sizes) == 1 and 256 in sizes, "R-BLOCK", "block-size", "one block size everywhere: %s" % lits, "block size literals disagree: %s" % lits)

    # ---------------- R-BASE
    wb = fn(P, "versatiles::writer::VersaTilesWriter::write_block")
    if ck.anchor("R-BASE", "versatiles write_block", [wb] if wb else [], 1):
        lets = comp.lets_of(wb)
        sb = [n for n in ir.walk_nodes(wb["body"]) if n.get("k") == "mcall" and n.get("name") in ("shift_backward", "get_shifted_backward")]
        base_h = ir.local_hid(sb[0]["a"][0]) if len(sb) == 1 else None
        init = lets.get(base_h)
        from_pos = init is not None and ir.contains(init, lambda y: y.get("k") == "mcall" and y.get("name") == "get_position")
        rets = [n for n in ir.walk_nodes(wb["body"]) if n.get("k") == "call" and (n.get("q") or "").endswith("ByteRange::new") and ir.local_hid(n["a"][0]) == base_h]
        # the base is taken before the first append of the block
        sts = ir.stmts_of(ir.fn_block(wb))
        bi = next((i for i, s in enumerate(sts) if s.get("k") == "let" and any(x["hid"] == base_h for x in ir.pat_binds(s["pat"]))), None)
        ai = next((i for i, s in enumerate(sts) if ir.contains(s, lambda y: y.get("k") == "mcall" and y.get("name") == "append")), None)
        ck.check(len(sb) == 1 and from_pos and len(rets) == 1 and bi is not None and ai is not None and bi < ai, "R-BASE", "versatiles|write", "tile ranges are made relative to the writer position at block start, which is also the block's tiles_range.offset",
                 "relative base and recorded tiles_range.offset are not the same value taken before the block's first append", ir.loc(wb))
    gi = fn(P, "versatiles::reader::VersaTilesReader::get_block_tile_index")
    if ck.anchor("R-BASE", "versatiles get_block_tile_index", [gi] if gi else [], 1):
        ao = [n for n in ir.walk_nodes(gi["body"]) if n.get("k") == "mcall" and n.get("name") == "add_offset"]
        ck.check(len(ao) == 1 and ir.place_str(ao[0]["a"][0]).endswith("get_tiles_range().offset"), "R-BASE", "versatiles|read", "the reader adds block.get_tiles_range().offset exactly once",
                 "reader base is %s" % [ir.place_str(a["a"][0]) for a in ao], ir.loc(gi))
    pw = None
    for i in P.impls_of("::TilesWriterTrait"):
        if i.get("self_adt", "").endswith("::PMTilesWriter"):
            pw = P.impl_method(i, "write_to_writer")
    pr = None
    for i in P.impls_of("::TilesReaderTrait"):
        if i.get("self_adt", "").endswith("::PMTilesReader"):
            pr = P.impl_method(i, "get_tile_data")
    if ck.anchor("R-BASE", "pmtiles writer/reader", [x for x in (pw, pr) if x], 2):
        sb = [n for n in ir.walk_nodes(pw["body"]) if n.get("k") == "mcall" and n.get("name") == "get_shifted_backward"]
        base_h = ir.local_hid(sb[0]["a"][0]) if len(sb) == 1 else None
        hd = [n for n in ir.walk_nodes(pw["body"]) if n.get("k") == "assign" and _hdr_field(n["l"], "tile_data")]
        okw = base_h is not None and len(hd) == 1 and ir.contains(hd[0]["r"], lambda y: y.get("k") == "call" and (y.get("q") or "").endswith("ByteRange::new") and ir.local_hid(y["a"][0]) == base_h)
        ck.check(okw, "R-BASE", "pmtiles|write", "entry offsets are relative to tile_data_start, which is stored as header.tile_data.offset", "entry base and header.tile_data.offset are not the same variable", ir.loc(pw))
        sf = [n for n in ir.walk_nodes(pr["body"]) if n.get("k") == "mcall" and n.get("name") == "get_shifted_forward"]
        ck.check(len(sf) == 1 and ir.place_str(sf[0]["a"][0]).endswith("self.header.tile_data.offset"), "R-BASE", "pmtiles|read", "the reader shifts entry ranges forward by header.tile_data.offset",
                 "reader base is %s" % [ir.place_str(a["a"][0]) for a in sf], ir.loc(pr))

    # ---------------- R-RANGES: every range a reader follows is the range the writer got back from the write it describes
    wbs = fn(P, "versatiles::writer::VersaTilesWriter::write_blocks")
    if ck.anchor("R-RANGES", "versatiles write_blocks/write_block", [x for x in (wbs, wb) if x], 2):
        A = affine
        # write_block returns (ByteRange::new(pos_before, pos_after - pos_before), append(index))
        env = A.Env()
        sts = ir.stmts_of(ir.fn_block(wb))
        A.run(sts, env)
        lets_b = comp.lets_of(wb)
        tail = ir.unparen(sts[-1]) if sts else None
        tup = None
        for y in ir.walk_nodes(tail or {}):
            if y.get("k") == "tup" and len(y["es"]) == 2:
                tup = y
                break
        ok_ret = False
        why = "write_block does not end in Ok((tiles_range, index_range))"
        if tup is not None:
            t0, t1 = tup["es"]
            c0 = ir.strip(t0)
            poss = [st for st in sts if st.get("k") == "let" and "init" in st and ir.contains(st["init"], lambda y: y.get("k") == "mcall" and y.get("name") == "get_position")]
            if c0.get("k") == "call" and (c0.get("q") or "").endswith("ByteRange::new") and len(poss) == 2:
                p0, p1 = (A.local_sym(poss[0]["pat"]), A.local_sym(poss[1]["pat"]))
                envp = A.Env()
                a_off, a_len = A.ev(c0["a"][0], envp), A.ev(c0["a"][1], envp)
                stream_i = next((i for i, st in enumerate(sts) if ir.contains(st, lambda y: y.get("k") == "mcall" and y.get("name") in ("for_each_sync", "for_each_async", "for_each_buffered"))), None)
                i0, i1 = sts.index(poss[0]), sts.index(poss[1])
                idx_let = [st for st in sts if st.get("k") == "let" and "init" in st and ir.contains(st["init"], lambda y: y.get("k") == "mcall" and y.get("name") == "append") and
                           ir.contains(st["init"], lambda y: y.get("k") == "mcall" and y.get("name") in ("as_brotli_blob", "as_blob"))]
                idx_ok = len(idx_let) == 1 and ir.local_hid(t1) == idx_let[0]["pat"].get("hid") and sts.index(idx_let[0]) > i1
                ok_ret = A.eq(a_off, p0) and A.eq(a_len, A.sub(p1, p0)) and stream_i is not None and i0 < stream_i < i1 and idx_ok
                why = "tiles range = (%s, %s), positions taken at statements %s/%s around the tile stream at %s, index range ok=%s" % (A.show(a_off), A.show(a_len), i0, i1, stream_i, idx_ok)
        ck.check(ok_ret, "R-RANGES", "versatiles|block-ranges", "write_block returns (position before the tiles, bytes written by the tiles) and the range of the appended tile index",
                 "write_block's result does not describe what it wrote: %s" % why, ir.loc(wb))
        # write_blocks stores both components in the block before it enters the block index
        call = [n for n in ir.walk_nodes(wbs["body"]) if n.get("k") == "call" and (n.get("q") or "").endswith("VersaTilesWriter::write_block")]
        ok_set = False
        why = "write_block call not found"
        if len(call) == 1:
            dl = [n for n in ir.walk_nodes(wbs["body"]) if n.get("k") == "let" and "init" in n and ir.contains(n["init"], lambda y: y is call[0])]
            binds = ir.pat_binds(dl[0]["pat"]) if dl else []
            if len(binds) == 2:
                st_ = [n for n in ir.walk_nodes(wbs["body"]) if n.get("k") == "mcall" and n.get("name") == "set_tiles_range"]
                si_ = [n for n in ir.walk_nodes(wbs["body"]) if n.get("k") == "mcall" and n.get("name") == "set_index_range"]
                ab = [n for n in ir.walk_nodes(wbs["body"]) if n.get("k") == "mcall" and n.get("name") == "add_block"]
                order = {id(n): i for i, n in enumerate(ir.walk_nodes(wbs["body"]))}
                if len(st_) == 1 and len(si_) == 1 and len(ab) == 1:
                    bh = ir.local_hid(ab[0]["a"][0])
                    ok_set = ir.local_hid(st_[0]["a"][0]) == binds[0]["hid"] and ir.local_hid(si_[0]["a"][0]) == binds[1]["hid"] and \
                        ir.local_hid(st_[0]["recv"]) == bh and ir.local_hid(si_[0]["recv"]) == bh and order[id(st_[0])] < order[id(ab[0])] and order[id(si_[0])] < order[id(ab[0])]
                why = "set_tiles_range x%d, set_index_range x%d, add_block x%d" % (len(st_), len(si_), len(ab))
        ck.check(ok_set, "R-RANGES", "versatiles|block-stored", "both ranges returned by write_block are stored in the block (tiles, index — in that order) before it is added to the block index",
                 "the block entering the block index does not carry both ranges of what was written (%s)" % why, ir.loc(wbs))
        for nm, fld in (("set_tiles_range", "tiles_range"), ("set_index_range", "index_range")):
            sb_ = fn(P, "block_definition::BlockDefinition::" + nm)
            oks = sb_ is not None and any(n.get("k") == "assign" and ir.place_str(n["l"]) == "self." + fld and ir.local_hid(n["r"]) is not None for n in ir.walk_nodes(sb_["body"]))
            ck.check(oks, "R-RANGES", "versatiles|" + nm, "%s stores its argument in self.%s" % (nm, fld), "%s does not assign self.%s" % (nm, fld), ir.loc(sb_) if sb_ else None)
    # header ranges: each is the result of the append that wrote that section
    for wname, impl_suffix, pairs in (("versatiles", "::VersaTilesWriter", (("meta_range", "write_meta"), ("blocks_range", "write_blocks"))),
                                      ("pmtiles", "::PMTilesWriter", (("metadata", "metadata"), ("root_dir", "root_bytes"), ("leaf_dirs", "leaves_bytes")))):
        wfn = None
        for i in P.impls_of("::TilesWriterTrait"):
            if i.get("self_adt", "").endswith(impl_suffix):
                wfn = P.impl_method(i, "write_to_writer", inline=False)    # this rule names the helper calls themselves
        if not ck.anchor("R-RANGES", wname + " write_to_writer", [wfn] if wfn else [], 1):
            continue
        for fld, what in pairs:
            asg = [n for n in ir.walk_nodes(wfn["body"]) if n.get("k") == "assign" and _hdr_field(n["l"], fld)]
            okh = False
            if len(asg) == 1:
                r = asg[0]["r"]
                if wname == "versatiles":
                    okh = ir.contains(r, lambda y: y.get("k") == "call" and (y.get("q") or "").endswith("VersaTilesWriter::" + what))
                else:
                    lets_w = comp.lets_of(wfn)

                    def is_what(a):
                        a = ir.strip(a)
                        if what in ("root_bytes", "leaves_bytes"):      # fields of the Directory returned by as_directory
                            return a is not None and a.get("k") == "field" and a.get("name") == what
                        # metadata: a local whose value derives from the source's TileJSON
                        h_ = ir.local_hid(a)
                        seen_, todo = set(), [h_]
                        while todo:
                            x_ = todo.pop()
                            if x_ is None or x_ in seen_:
                                continue
                            seen_.add(x_)
                            srcs = [lets_w.get(x_)] + [y["r"] for y in ir.walk_nodes(wfn["body"]) if y.get("k") == "assign" and ir.local_hid(y["l"]) == x_]
                            for i_ in srcs:
                                if i_ is None:
                                    continue
                                if ir.contains(i_, lambda y: y.get("k") == "mcall" and y.get("name") == "get_tilejson"):
                                    return True
                                todo += [ir.local_hid(y) for y in ir.walk_nodes(i_) if y.get("k") == "path" and y.get("r") == "local"]
                        return False
                    okh = ir.contains(r, lambda y: y.get("k") == "mcall" and y.get("name") == "append" and is_what(y["a"][0]))
            ck.check(okh, "R-RANGES", "%s|header.%s" % (wname, fld), "header.%s is the range returned by the write of %s" % (fld, what), "header.%s is not assigned from the write of %s" % (fld, what), ir.loc(wfn))
    for q_, what in (("versatiles::writer::VersaTilesWriter::write_meta", "compressed"), ("versatiles::writer::VersaTilesWriter::write_blocks", "block_index")):
        f_ = fn(P, q_)
        if f_ is None:
            continue
        sts = ir.stmts_of(ir.fn_block(f_))
        ap = [n for n in ir.walk_nodes(f_["body"]) if n.get("k") == "mcall" and n.get("name") == "append" and (n.get("q") or "").endswith("DataWriterTrait::append")]
        rets_ok = False
        if len(ap) == 1:
            last = sts[-1]
            if ir.contains(last, lambda y: y is ap[0]):
                rets_ok = True
            else:
                lt = [st for st in sts if st.get("k") == "let" and "init" in st and ir.contains(st["init"], lambda y: y is ap[0])]
                rets_ok = bool(lt) and ir.contains(last, lambda y: ir.local_hid(y) == lt[0]["pat"].get("hid"))
        ck.check(rets_ok, "R-RANGES", q_.rsplit("::", 1)[-1] + "|returns-append", "%s returns the range of its append(%s)" % (q_.rsplit("::", 1)[-1], what), "%s does not return the range of the section it appended" % q_.rsplit("::", 1)[-1], ir.loc(f_))

    wire.block_geometry_rules(ck, P)
    # ---------------- R-ALL-LEVELS: every writer walks the whole advertised coverage
    n_w = 0
    for i in P.impls_of("::TilesWriterTrait"):
        for mname in ("write_to_path", "write_to_writer"):
            m_ = P.impl_method(i, mname, inline=False)
            if m_ is None:
                continue
            bodies_ = [m_] + [x for x in P.bodies if x.get("self_adt") == i.get("self_adt") and not x.get("trait_item") and x["q"] != m_["q"]]
            for bb_ in bodies_:
                for n, parents, _ in ir.walk(bb_["body"]):
                    if not (n.get("k") == "mcall" and (n.get("q") or "").endswith("TileBBoxPyramid::iter_levels")):
                        continue
                    n_w += 1
                    chain = [p_["name"] for p_ in parents if p_.get("k") == "mcall" and ir.contains(p_["recv"], lambda y: y is n)]
                    bad = [c for c in chain if c in ("skip", "take", "step_by", "filter", "skip_while", "take_while", "nth", "last", "next", "find", "take_until", "filter_map", "rev") and c != "rev"]
                    loops_ = [p_ for p_ in parents if p_.get("k") == "for" and ir.contains(p_["iter"], lambda y: y is n)]
                    esc = [y["k"] for lp_ in loops_ for y in ir.walk_nodes(lp_["body"]) if y.get("k") in ("break", "continue")]
                    short_ = i.get("self_adt", "").rsplit("::", 1)[-1]
                    ck.check(not bad and not esc, "R-ALL-LEVELS", "%s|%s#%d" % (short_, bb_["q"].rsplit("::", 1)[-1], n_w), "%s walks every level of the advertised pyramid (iter_levels with %s)" % (short_, chain or "no adaptor"),
                             "%s does not walk every level of the advertised pyramid: iter_levels() is narrowed by %s%s" % (short_, bad, " and the loop has %s" % esc if esc else ""), ir.loc(n))
    ck.anchor("R-ALL-LEVELS", "iter_levels() sites in the writers", list(range(n_w)), 5)
    # ... and iter_levels itself yields every non-empty level (a gap between populated zoom levels is legal): shared with C03 / C08
    comp.pyramid_union_rule(ck, P, "R-ALL-LEVELS")
    # ---------------- R-NAME
    for fmt, adt, rdr in (("tar", "::TarTilesWriter", "tar::reader::TarTilesReader::open_path"), ("directory", "::DirectoryTilesWriter", "directory::reader::DirectoryTilesReader::open_path")):
        w = None
        for i in P.impls_of("::TilesWriterTrait"):
            if i.get("self_adt", "").endswith(adt):
                w = P.impl_method(i, "write_to_path")
        r = fn(P, rdr)
        if not ck.anchor("R-NAME", fmt + " writer/reader", [x for x in (w, r) if x], 2):
            continue
        okw = False
        desc = ""
        for n in ir.walk_nodes(w["body"]):
            src = n.get("src", "")
            if src.startswith("format!(") and "{}/{}/{}{}{}" in src:
                args = src.split('"', 2)[2]
                names = [a.strip() for a in args.strip(" ,)\n\t").split(",") if a.strip()]
                desc = str(names)
                byname = {}
                for y in ir.walk_nodes(w["body"]):
                    if y.get("k") in ("let", "letx", "while", "for") or "pat" in y:
                        for x in ir.pat_binds(y.get("pat") or {}):
                            byname.setdefault(x["name"], x)
                lets_w = comp.lets_of(w)

                def ext_of(nm):
                    x = byname.get(nm)
                    init = lets_w.get(x["hid"]) if x else None
                    if init is None:
                        return None
                    m_ = [z for z in ir.walk_nodes(init) if z.get("k") == "mcall" and z.get("name") == "extension"]
                    return ("format" if "TileFormat" in (m_[0].get("q") or "") else "compression" if "TileCompression" in (m_[0].get("q") or "") else None) if m_ else None
                if len(names) == 5:
                    roots = [nm.split(".")[0] for nm in names[:3]]
                    cb = byname.get(roots[0])
                    okw = len(set(roots)) == 1 and cb is not None and cb["t"].endswith("TileCoord3") and [nm.split(".")[-1] for nm in names[:3]] == ["z", "x", "y"]
                    exts = {"extension_format": ext_of(names[3]), "extension_compression": ext_of(names[4])}
        okx = exts.get("extension_format") == "format" and exts.get("extension_compression") == "compression" if "exts" in dir() else False
        ck.check(okw and okx, "R-NAME", fmt + "|writer", "member name = z/x/y + extension(format) + extension(compression) (%s)" % desc, "member name arguments are %s, extensions %s" % (desc, exts), ir.loc(w))
        # reader: compression stripped first, then format; z,x,y parsed as u8,u32,u32; TileCoord3::new(x,y,z)
        # (private helpers of the reader are looked into: the name may be taken apart in `fn parse_tile_filename`)
        r_inl = ir.inline_helpers(P, r, ir.same_impl_helper(r))
        calls = [absint.vname(n.get("q") or "").rsplit("::", 2)[-2:] for n in _order(r_inl["body"]) if n.get("k") == "call" and (n.get("q") or "").endswith("::from_filename")]
        order_ok = [c[0] for c in calls] == ["TileCompression", "TileFormat"]
        tc = [n for n in ir.walk_nodes(r["body"]) if n.get("k") == "call" and (n.get("q") or "").endswith("TileCoord3::new")]
        # TileCoord3::new(x, y, z): three distinct locals typed (u32, u32, u8) whose definitions appear in path order z, x, y
        args_ok = False
        if tc and len(tc[0]["a"]) == 3:
            hs = [ir.local_hid(a) for a in tc[0]["a"]]
            tys = [ir.strip(a).get("t") for a in tc[0]["a"]]
            order_of = {}
            for i_, y in enumerate(ir.walk_nodes(r["body"])):
                if y.get("k") in ("let", "letx"):
                    for x in ir.pat_binds(y["pat"]):
                        order_of.setdefault(x["hid"], i_)
            args_ok = None not in hs and len(set(hs)) == 3 and tys == ["u32", "u32", "u8"] and all(h in order_of for h in hs) and order_of[hs[2]] < order_of[hs[0]] < order_of[hs[1]]
        types = {}
        for n in ir.walk_nodes(r["body"]):
            if n.get("k") == "let" and n["pat"].get("k") == "bind" and n["pat"]["name"] in ("x", "y", "z", "numeric1", "numeric2", "numeric3") and "init" in n:
                p = [y for y in ir.walk_nodes(n["init"]) if y.get("k") == "mcall" and y.get("name") == "parse"]
                if p:
                    types[n["pat"]["name"]] = (p[0].get("ga") or "")
        ck.check(order_ok and args_ok, "R-NAME", fmt + "|reader", "reader strips the compression extension, then the format extension, and builds TileCoord3::new(x, y, z)",
                 "reader parses names in a different order (from_filename order %s, coordinate args ok=%s)" % (calls, args_ok), ir.loc(r))
    # which path component becomes which coordinate (hid-based): tar z/x/y = components 0/1/2; directory z/x/y = nesting depth 1/2/3
    tr_ = fn(P, "tar::reader::TarTilesReader::open_path")
    dr_ = fn(P, "directory::reader::DirectoryTilesReader::open_path")
    for fmt, r in (("tar", tr_), ("directory", dr_)):
        if r is None:
            continue
        tc = [n for n in ir.walk_nodes(r["body"]) if n.get("k") == "call" and (n.get("q") or "").endswith("TileCoord3::new") and len(n.get("a", ())) == 3]
        lets = comp.lets_of(r)
        depth = {}
        for n, parents, _ in ir.walk(r["body"]):
            if n.get("k") == "let" and n["pat"].get("k") in ("bind", "tstruct"):
                for x in ir.pat_binds(n["pat"]):
                    depth[x["hid"]] = sum(1 for p_ in parents if p_.get("k") == "for")

        def comp_index(e, d=0):
            """constant index into a Vec<&str> of path components this expression is parsed from (through lets), or None"""
            if e is None or d > 6:
                return None
            for y in ir.walk_nodes(e):
                if y.get("k") == "index" and "Vec<&str>" in ((ir.strip(y["e"]).get("t") or "") + (ir.strip(y["e"]).get("ta") or "")):
                    v = ir.const_eval(y["i"], {})
                    if v is not None:
                        return v
            for y in ir.walk_nodes(e):
                if y.get("k") == "path" and y.get("r") == "local" and y["hid"] in lets:
                    v = comp_index(lets[y["hid"]], d + 1)
                    if v is not None:
                        return v
            return None
        okm, shown = False, "?"
        if len(tc) == 1:
            if fmt == "tar":
                idx = [comp_index(a) for a in tc[0]["a"]]       # (x, y, z)
                okm = idx == [1, 2, 0]
                shown = "x,y,z from components %s" % idx
            else:
                def root_depth(e, d=0):
                    h = ir.local_hid(e)
                    if h is None or d > 6:
                        return None
                    init = lets.get(h)
                    cur = depth.get(h)
                    return cur
                dps = [root_depth(a) for a in tc[0]["a"]]
                okm = dps == [2, 3, 1]
                shown = "x,y,z bound at directory depth %s" % dps
        ck.check(okm, "R-NAME", fmt + "|reader-components", "%s reader: path components z/x/y reach TileCoord3::new(x, y, z) in that role (%s)" % (fmt, shown),
                 "%s reader builds the coordinate from the wrong path components (%s, expected z/x/y = 1st/2nd/3rd)" % (fmt, shown), ir.loc(r))
    # tar reader: leading "." component dropped
    tr = fn(P, "tar::reader::TarTilesReader::open_path")
    if tr:
        okd = False
        for n in ir.walk_nodes(tr["body"]):
            if n.get("k") == "if" and ir.deep_has_lit(n["c"], ".") and ir.contains(n["then"], lambda y: y.get("k") == "mcall" and y.get("name") in ("remove", "drain", "pop_front")):
                okd = True
        ck.check(okd, "R-NAME", "tar|dot-prefix", "a leading './' component (written by this writer, allowed by tar) is dropped before the 3-component test", "'./' prefixed members are not recognised", ir.loc(tr))

    # ---------------- R-DEDUP
    if wb:
        maps = [n for n in ir.walk_nodes(wb["body"]) if n.get("k") == "let" and n["pat"].get("k") == "bind" and "HashMap<" in n["pat"]["t"] and "ByteRange" in n["pat"]["t"]]
        if ck.anchor("R-DEDUP", "de-duplication map in write_block", maps, 1):
            m = maps[0]["pat"]
            key_ok = m["t"].startswith("std::collections::HashMap<std::vec::Vec<u8>, ")
            gets = [n for n in ir.walk_nodes(wb["body"]) if n.get("k") == "mcall" and n.get("name") == "get" and ir.local_hid(n["recv"]) == m["hid"]]
            ins = [n for n in ir.walk_nodes(wb["body"]) if n.get("k") == "mcall" and n.get("name") == "insert" and ir.local_hid(n["recv"]) == m["hid"]]
            okk = False
            okv = False
            if len(gets) == 1 and len(ins) == 1:
                g0, i0 = ir.strip(gets[0]["a"][0]), ir.strip(ins[0]["a"][0])
                def whole(e):
                    """local whose complete bytes e denotes (as_slice / into_vec / to_vec / as_ref chains), else None"""
                    e = ir.strip(e)
                    while e is not None and e.get("k") == "mcall" and e.get("name") in ("as_slice", "into_vec", "to_vec", "as_ref", "clone", "to_owned") and not e.get("a"):
                        e = ir.strip(e["recv"])
                    return ir.local_hid(e) if e is not None and e.get("k") == "path" else None
                okk = whole(g0) is not None and whole(g0) == whole(i0)
                # stored range is the one assigned to this tile's slot
                rh = ir.local_hid(ins[0]["a"][1])
                sets = [n for n in ir.walk_nodes(wb["body"]) if n.get("k") == "mcall" and n.get("name") == "set" and "TileIndex" in (n.get("q") or "")]
                okv = rh is not None and any(ir.local_hid(s["a"][1]) == rh for s in sets)
            ck.check(key_ok and okk, "R-DEDUP", "key", "map is keyed by the complete payload bytes of the same blob (as_slice / into_vec)", "de-duplication key is not the complete payload of the tile", ir.loc(maps[0]))
            ck.check(okv, "R-DEDUP", "value", "the stored range is the one written into this tile's own index slot", "stored range is not the tile's own range", ir.loc(maps[0]))
            sbk = [n for n in ir.walk_nodes(wb["body"]) if n.get("k") == "mcall" and n.get("name") in ("shift_backward", "get_shifted_backward")]
            bh_ = ir.local_hid(sbk[0]["a"][0]) if len(sbk) == 1 else None
            scope_ok = bh_ is not None and ir.contains(wb["body"], lambda y: y.get("k") == "let" and y["pat"].get("k") == "bind" and y["pat"]["hid"] == bh_)
            ck.check(scope_ok, "R-DEDUP", "scope", "the map is created per block, in the function that takes the block's base offset (ranges are block-relative)",
                     "the map outlives a block although its ranges are block-relative", ir.loc(maps[0]))
    # ---------------- R-INDEX-FRESH: a block's tile index starts with every slot empty
    if wb is not None:
        ser = [n for n in ir.walk_nodes(wb["body"]) if n.get("k") == "mcall" and n.get("name") in ("as_brotli_blob", "as_blob") and "TileIndex" in (n.get("q") or "")]
        okf = False
        why = "no TileIndex serialisation in write_block"
        if len(ser) == 1:
            ih = ir.local_hid(ser[0]["recv"])
            lets_wb = comp.lets_of(wb)
            init = lets_wb.get(ih)
            if init is None or ir.strip(init).get("k") == "path":
                why = "the serialised tile index is not a local created in write_block (it outlives the block, so slots without a tile keep the previous block's ranges)"
            else:
                c = ir.strip(init)
                isnew = c.get("k") == "call" and (c.get("q") or "").endswith("TileIndex::new_empty")
                cnt = isnew and comp.deep_place(c["a"][0], lets_wb).endswith("get_global_bbox().count_tiles()")
                sets = [n for n in ir.walk_nodes(wb["body"]) if n.get("k") == "mcall" and ir.local_hid(n["recv"]) == ih and n["recv"].get("ta", "").startswith("&mut")]
                only_set = all(n["name"] == "set" for n in sets)
                okf = bool(isnew and cnt and only_set)
                why = "created by %s, mutated by %s" % (c.get("q"), sorted({n["name"] for n in sets}))
        ck.check(okf, "R-INDEX-FRESH", "versatiles|tile-index", "each block's tile index is created in write_block by TileIndex::new_empty(count_tiles of the block) and only filled by set()",
                 "the tile index written for a block does not start empty for that block: %s" % why, ir.loc(wb))
        ne = fn(P, "tile_index::TileIndex::new_empty")
        if ck.anchor("R-INDEX-FRESH", "TileIndex::new_empty", [ne] if ne else [], 1):
            rep = [n for n in ir.walk_nodes(ne["body"]) if n.get("k") in ("call", "mcall") and (n.get("q") or "").endswith(("vec::from_elem", "Vec::resize"))]
            zero = [n for n in ir.walk_nodes(ne["body"]) if n.get("k") == "call" and (n.get("q") or "").endswith(("ByteRange::new", "ByteRange::empty")) and all(ir.const_eval(a, {}) == 0 for a in n.get("a", ()))]
            ck.check(len(rep) == 1 and len(zero) == 1, "R-INDEX-FRESH", "versatiles|new_empty", "new_empty(count) is `count` zero-length ranges (length 0 = no tile)", "new_empty does not fill the index with zero-length ranges", ir.loc(ne))
    # ---------------- R-PM-SORT
    ad = fn(P, "entries_v3::EntriesV3::as_directory")
    if ck.anchor("R-PM-SORT", "as_directory", [ad] if ad else [], 1):
        sts = ir.stmts_of(ir.fn_block(ad))
        si = next((i for i, s in enumerate(sts) if ir.contains(s, lambda y: y.get("k") == "mcall" and y.get("name") in ("sort_by_cached_key", "sort_by_key", "sort_unstable_by_key") and ir.place_str(y["recv"]) == "self.entries"
                                                                and ir.contains(y, lambda z: z.get("k") == "field" and z.get("name") == "tile_id"))), None)
        ui = next((i for i, s in enumerate(sts) if ir.contains(s, lambda y: y.get("k") == "mcall" and y.get("name") in ("serialize_entries", "as_slice"))), None)
        ck.check(si is not None and ui is not None and si < ui, "R-PM-SORT", "sort-before-serialize", "entries are sorted by tile_id before any slice is serialised", "entries are serialised without a preceding sort by tile_id", ir.loc(ad))
    wire.pm_layout_rules(ck, P)
    wire.byte_range_shift_rules(ck, P)
    wire.pm_directory_codec_rules(ck, P)
    wire.vt_types_rules(ck, P)
    # ---------------- R-PM-LEAVES: leaf directories partition the sorted entries
    bl = [b for b in P.bodies if b["q"].startswith(ad["q"] + "::")] if ad else []
    bl = [b for b in bl if ir.contains(b["body"], lambda y: y.get("k") == "mcall" and (y.get("q") or "").endswith("EntriesSliceV3::slice"))]
    if ck.anchor("R-PM-LEAVES", "leaf builder (fn slicing the entries)", bl, 1):
        _leaf_partition(ck, bl[0])
    # ---------------- R-WRITEALL
    impls = P.impls_of("::DataWriterTrait")
    ck.anchor("R-WRITEALL", "impl DataWriterTrait", impls, 2)
    for i in impls:
        ap = P.impl_method(i, "append")
        if ap is None:
            continue
        short = i["self_adt"].rsplit("::", 1)[-1]
        partial = [n for n in ir.walk_nodes(ap["body"]) if n.get("k") == "mcall" and (n.get("q") or "") == "std::io::Write::write"
                   and not any(w in (n["recv"].get("t", "") + n["recv"].get("ta", "")) for w in ("Cursor<std::vec::Vec<u8>>", "Cursor<&mut std::vec::Vec<u8>>", "std::vec::Vec<u8>"))]
        for k, n in enumerate(partial):
            ck.violation("R-WRITEALL", "%s|write#%d" % (ap["q"], k + 1), "append uses Write::write and records the returned count as the blob's length: a short write (possible for large blobs / full disk) "
                         "silently truncates a tile while the index says it is complete; write_all is the accepted idiom", ir.loc(n))
        if not partial:
            ck.ok("R-WRITEALL", ap["q"], "%s::append writes the whole blob (no partial Write::write)" % short, ir.loc(ap))
        # append writes its argument exactly once and returns (position before the write, length of the argument)
        from . import mvt as _mvt
        bp = [x for p_ in ap["params"] for x in ir.pat_binds(p_) if x["name"] != "self"]
        bh = bp[0]["hid"] if bp else None

        def writes_arg(y):
            return y.get("k") == "mcall" and y.get("name") in ("write_all", "extend_from_slice", "extend", "write") and any(z.get("k") == "path" and z.get("r") == "local" and z.get("hid") == bh for z in ir.walk_nodes(y))
        cnt = _mvt.exit_counts(P, ap, lambda y: 1 if writes_arg(y) else None)
        oks = [y for y in ir.walk_nodes(ap["body"]) if y.get("k") == "call" and (y.get("q") or "").endswith("ByteRange::new") and len(y.get("a", ())) == 2]
        okr = False
        if len(oks) == 1:
            lets_ = comp.lets_of(ap)
            a0, a1 = oks[0]["a"]
            pos_h = ir.local_hid(a0)
            order = {id(y): i_ for i_, y in enumerate(ir.walk_nodes(ap["body"]))}
            wr = [y for y in ir.walk_nodes(ap["body"]) if writes_arg(y)]
            pos_let = [y for y in ir.walk_nodes(ap["body"]) if y.get("k") == "let" and y["pat"].get("k") == "bind" and y["pat"]["hid"] == pos_h]
            before = bool(pos_let) and bool(wr) and order[id(pos_let[0])] < order[id(wr[0])] and ir.contains(pos_let[0].get("init") or {}, lambda z: z.get("k") == "mcall" and z.get("name") in ("stream_position", "position", "len", "seek"))
            len_ok = ir.contains(a1, lambda z: z.get("k") == "mcall" and z.get("name") == "len" and ir.local_hid(z["recv"]) == bh)
            if not len_ok:
                # the count returned by the (total, in-memory) write of the argument
                lh = next((z["hid"] for z in ir.walk_nodes(a1) if z.get("k") == "path" and z.get("r") == "local"), None)
                len_ok = lh in lets_ and any(writes_arg(z) for z in ir.walk_nodes(lets_[lh]))
            okr = before and len_ok
        ck.check(cnt == {1} and okr, "R-WRITEALL", ap["q"] + "|once", "%s::append writes its argument once and returns (position before the write, argument length)" % short,
                 "%s::append does not write its argument exactly once (%s) or does not return (start position, length)" % (short, sorted(cnt)), ir.loc(ap))
        sp = P.impl_method(i, "set_position")
        if sp is not None:
            pp = [x for p_ in sp["params"] for x in ir.pat_binds(p_) if x["name"] != "self"]
            sk = [y for y in ir.walk_nodes(sp["body"]) if y.get("k") == "mcall" and y.get("name") in ("seek", "set_position") and pp and
                  any(z.get("k") == "path" and z.get("r") == "local" and z.get("hid") == pp[0]["hid"] for z in ir.walk_nodes(y))]
            ck.check(len(sk) == 1, "R-WRITEALL", sp["q"], "%s::set_position moves the write position to its argument" % short, "%s::set_position does not seek to its argument" % short, ir.loc(sp))
        ws = P.impl_method(i, "write_start")
        if ws is not None:
            names = [y["name"] for y in mvt_order(ws) if y.get("k") == "mcall" and y.get("name") in ("rewind", "seek", "write_all", "set_position", "stream_position", "position", "splice", "copy_from_slice")]
            wcnt = _mvt.exit_counts(P, ws, lambda y: 1 if (y.get("k") == "mcall" and y.get("name") in ("write_all", "splice", "copy_from_slice", "write_all_at")) else None)
            restore = ("seek" in names[names.index("write_all") + 1:] or "set_position" in names[names.index("write_all") + 1:]) if "write_all" in names else True
            start = ("rewind" in names[:names.index("write_all")] or "seek" in names[:names.index("write_all")] or "set_position" in names[:names.index("write_all")]) if "write_all" in names else True
            ck.check(wcnt == {1} and restore and start, "R-WRITEALL", ws["q"] + "|once", "%s::write_start writes its argument once at the start and restores the write position" % short,
                     "%s::write_start does not write once at position 0 and restore the position (calls: %s)" % (short, names), ir.loc(ws))


def mvt_order(b):
    """call nodes of a body in evaluation order"""
    from . import mvt
    return list(mvt._eval_order(b["body"]))


def _leaf_partition(ck, b):
    """while I < N { … entries.slice(I..E) …; I += S }  with I0 = 0, E = min(I + S, N), N = entries.len():
    consecutive slices tile [0, N), so every entry is in exactly one leaf"""
    A = affine
    key = "pmtiles.leaves"
    blk = ir.fn_block(b)
    sts = ir.stmts_of(blk)
    loops = [(i, s) for i, s in enumerate(sts) if s.get("k") == "while"]
    if not ck.check(len(loops) == 1, "R-PM-LEAVES", key + "|loop", "one loop builds the leaves", "%d top-level loops in the leaf builder" % len(loops), ir.loc(b)):
        return
    li, lp = loops[0]
    env0 = A.Env()
    A.run(sts[:li], env0)
    cl = A._cmp_terms(lp["c"], env0.copy())
    c = ir.unparen(lp["c"])
    ivar = ir.strip(c["l"]) if c.get("k") == "bin" else None
    if not ck.check(cl is not None and cl[1] == "<" and ivar is not None and ivar.get("k") == "path" and ivar.get("r") == "local", "R-PM-LEAVES", key + "|cond",
                    "the loop runs while index < number of entries", "loop condition is not `index < len`", ir.loc(lp)):
        return
    ih = ivar["hid"]
    i0 = env0.m.get(ih)
    ck.check(A.as_const(i0) == 0, "R-PM-LEAVES", key + "|start", "the index starts at 0", "the index starts at %s" % A.show(i0), ir.loc(lp))
    I = A.sym((ih, ivar["name"]))
    env = A.Env()
    N = A.ev(c["r"], env)
    body = ir.stmts_of(lp["body"])
    # terms of the slice bounds at the slice statement
    found = {}

    def stop(st):
        for y in ir.walk_nodes(st):
            if y.get("k") == "mcall" and (y.get("q") or "").endswith("EntriesSliceV3::slice") and y["a"] and y["a"][0].get("k") == "struct":
                fs = y["a"][0]["fields"]
                found["recv"] = A.ev_place(y["recv"], env)
                found["lo"] = A.ev(fs[0]["e"], env)
                found["hi"] = A.ev(fs[1]["e"], env)
                found["node"] = y
        return False
    for st in body:
        stop(st)
        A.run([st], env)
    inext = env.m.get(ih, I)
    S = A.sub(inext, I)
    s_free = S is not A.TOP and not any(("sym", (ih, ivar["name"])) in m for m in S) and "opq" not in repr(A.freeze(S)) and A.as_const(S) != 0
    ck.check(s_free, "R-PM-LEAVES", key + "|step", "the index advances by a fixed positive step per leaf (%s)" % A.show(S), "the index advances by %s" % A.show(S), ir.loc(lp))
    esc = [n for n in ir.walk_nodes(lp["body"]) if n.get("k") in ("break", "continue")]
    ck.check(not esc, "R-PM-LEAVES", key + "|no-skip", "no break/continue inside the loop", "break/continue inside the leaf loop skips entries", ir.loc(lp))
    if not ck.check("lo" in found, "R-PM-LEAVES", key + "|slice", "each leaf serialises entries.slice(lo..hi)", "no slice(lo..hi) call with a literal range in the loop", ir.loc(lp)):
        return
    ck.check(A.eq(found["lo"], I), "R-PM-LEAVES", key + "|lower", "a leaf starts at the loop index", "a leaf starts at %s, not at the loop index" % A.show(found["lo"]), ir.loc(found["node"]))
    want = A.tmin(A.add(I, S), N) if s_free else A.TOP
    ck.check(A.eq(found["hi"], want), "R-PM-LEAVES", key + "|upper", "a leaf ends (exclusively) at min(index + step, len): consecutive leaves tile the entries without gap or overlap",
             "a leaf ends at `%s`, expected `%s`: entries between two leaves are lost or duplicated" % (A.show(found["hi"]), A.show(want)), ir.loc(found["node"]))
    # the root entry of a leaf: key = tile id of the leaf's first entry, range = (bytes written so far, size of this leaf), run_length 0
    ne = [y for y in ir.walk_nodes(lp["body"]) if y.get("k") == "call" and (y.get("q") or "").endswith("EntryV3::new")]
    ok_root = False
    why = "no EntryV3::new in the loop"
    if len(ne) == 1 and len(ne[0]["a"]) == 3:
        a0, a1, a2 = ne[0]["a"]
        g = [y for y in ir.walk_nodes(a0) if y.get("k") == "mcall" and y.get("name") == "get"]
        env2 = A.Env()
        first = bool(g) and A.eq(A.ev(g[0]["a"][0], env2), I) and ir.strip(a0).get("k") == "field" and ir.strip(a0).get("name") == "tile_id"
        br = ir.strip(a1)
        rng = br.get("k") == "call" and (br.get("q") or "").endswith("ByteRange::new") and len(br["a"]) == 2
        off_ok = len_ok = False
        if rng:
            o = [y for y in ir.walk_nodes(br["a"][0]) if y.get("k") == "mcall" and y.get("name") == "len"]
            l = [y for y in ir.walk_nodes(br["a"][1]) if y.get("k") == "mcall" and y.get("name") == "len"]
            ser = [st for st in body if st.get("k") == "let" and ir.contains(st.get("init", {}), lambda y: y is found["node"])]
            ser_h = ser[0]["pat"]["hid"] if ser and ser[0]["pat"].get("k") == "bind" else None
            acc_h = ir.local_hid(o[0]["recv"]) if o else None
            len_ok = bool(l) and ser_h is not None and ir.local_hid(l[0]["recv"]) == ser_h
            # the accumulator grows by exactly this leaf, after the entry was built
            wr = [y for y in ir.walk_nodes(lp["body"]) if y.get("k") == "mcall" and ir.local_hid(y["recv"]) == acc_h and y["recv"].get("ta", "").startswith("&mut")]
            off_ok = acc_h is not None and len(wr) == 1 and wr[0]["name"] in ("write_all", "extend_from_slice", "extend") and \
                ir.contains(wr[0]["a"][0], lambda y: ir.local_hid(y) == ser_h) and (wr[0].get("s") or [0, 0])[1] > (ne[0].get("s") or [0, 0])[1]
        ok_root = first and rng and off_ok and len_ok and ir.const_eval(a2, {}) == 0
        why = "first=%s range=%s offset=%s length=%s run_length=%s" % (first, rng, off_ok, len_ok, ir.const_eval(a2, {}))
    ck.check(ok_root, "R-PM-LEAVES", key + "|root-entry", "the root entry of a leaf = (tile id of its first entry, bytes written before it, its serialised size, run_length 0)",
             "root entry does not describe the leaf just written (%s)" % why, ir.loc(lp))


def _order(n):
    for c in ir.children(n):
        yield from _order(c)
    yield n


def mutants(P):
    out = []
    H = VT + "types::file_header::FileHeader::"

    def swap_fields(body):
        ws = [n for n in ir.walk_nodes(body["body"]) if n.get("k") == "mcall" and n.get("name") == "write_range"]
        if len(ws) < 2:
            return False
        ws[0]["a"], ws[1]["a"] = ws[1]["a"], ws[0]["a"]
        return True
    out.append(("header writer: meta and blocks ranges exchanged", H + "to_blob", swap_fields))

    def code(body):
        return m_replace(body, lambda n: n.get("k") == "lit" and n.get("v") == 0x21, lambda n: n.__setitem__("v", 0x24))
    out.append(("header reader: GEOJSON code changed", H + "from_blob", code))

    def le(body):
        return m_replace(body, lambda n: n.get("k") == "call" and (n.get("q") or "").endswith("::new_be"), lambda n: n.__setitem__("q", n["q"][:-2] + "le"))
    out.append(("block definition writer: little endian", VT + "types::block_definition::BlockDefinition::as_blob", le))

    def grid(body):
        return m_replace(body, lambda n: n.get("k") == "mcall" and n.get("name") == "iter_bbox_grid", lambda n: n["a"][0].__setitem__("v", 128))
    out.append(("writer: block grid of 128", VT + "writer::VersaTilesWriter::write_blocks", grid))

    def key_len(body):
        def f(n):
            n["name"] = "len"
        return m_replace(body, lambda n: n.get("k") == "mcall" and n.get("name") == "as_slice" and ir.place_str(n["recv"]) == "blob", f)
    out.append(("de-duplication keyed by payload length", VT + "writer::VersaTilesWriter::write_block", key_len))

    def no_sort(body):
        return m_drop_stmt(body, lambda n: n.get("k") == "mcall" and n.get("name") == "sort_by_cached_key")
    out.append(("pmtiles: entries not sorted", PM + "types::entries_v3::EntriesV3::as_directory", no_sort))

    def hdr_swap(body):
        ws = [n for n in ir.walk_nodes(body["body"]) if n.get("k") == "mcall" and n.get("name") == "write_i32"]
        if len(ws) < 2:
            return False
        ws[0]["a"], ws[1]["a"] = ws[1]["a"], ws[0]["a"]
        return True
    out.append(("pmtiles header writer: min_lon and min_lat exchanged", PM + "types::header_v3::HeaderV3::serialize", hdr_swap))
    return out
